"""C16: MAX_PUSH_ID with an empty payload raises BufferReadError, with trailing bytes
AssertionError, out of H3Connection.handle_event (expected: H3_FRAME_ERROR close)."""
import os

from aioquic.h3.connection import H3Connection
from aioquic.quic.configuration import QuicConfiguration
from aioquic.quic.connection import QuicConnection
from aioquic.quic.events import StreamDataReceived

TESTS = os.path.join(os.path.dirname(__import__("aioquic").__file__), "..", "..", "tests")


def server_config(**kw):
    cfg = QuicConfiguration(is_client=False, **kw)
    cfg.load_cert_chain(os.path.join(TESTS, "ssl_cert.pem"), os.path.join(TESTS, "ssl_key.pem"))
    return cfg

for payload in (b"\x0d\x00", b"\x0d\x02\x08\x00"):
    quic = QuicConnection(
        configuration=server_config(alpn_protocols=["h3"]),
        original_destination_connection_id=bytes(8),
    )
    h3 = H3Connection(quic)
    # control stream type, empty SETTINGS frame, then the MAX_PUSH_ID frame
    data = b"\x00\x04\x00" + payload
    try:
        print(h3.handle_event(StreamDataReceived(data=data, end_stream=False, stream_id=2)),
              "closed:", quic._close_event)
    except Exception as exc:
        print("RAISED", type(exc).__name__, exc)
