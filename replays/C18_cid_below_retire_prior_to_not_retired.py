"""C18: a NEW_CONNECTION_ID whose sequence number is already below the Retire Prior To
delivered earlier is dropped silently: no RETIRE_CONNECTION_ID is ever sent for it
(RFC 9000 19.15: the receiver MUST send a corresponding RETIRE_CONNECTION_ID frame), so
the issuer keeps counting it against its active_connection_id_limit for ever.

History: N(2, rpt=2) then N(1, rpt=0).  Exit 1 = defect present.
"""
import os
import sys
import time

import aioquic
from aioquic.buffer import Buffer
from aioquic.quic.configuration import QuicConfiguration
from aioquic.quic.connection import QuicConnection, QuicReceiveContext
from aioquic.quic.packet import QuicFrameType
from aioquic import tls

TESTS = os.path.join(os.path.dirname(aioquic.__file__), "..", "..", "tests")
cc = QuicConfiguration(is_client=True)
cc.load_verify_locations(cafile=os.path.join(TESTS, "pycacert.pem"))
sc = QuicConfiguration(is_client=False)
sc.load_cert_chain(os.path.join(TESTS, "ssl_cert.pem"), os.path.join(TESTS, "ssl_key.pem"))
client = QuicConnection(configuration=cc)
server = QuicConnection(configuration=sc, original_destination_connection_id=client.original_destination_connection_id)
now = time.time()
client.connect(("1.2.3.4", 4433), now=now)
for _ in range(6):
    for data, _a in client.datagrams_to_send(now=now):
        server.receive_datagram(data, ("5.6.7.8", 1234), now=now)
    for data, _a in server.datagrams_to_send(now=now):
        client.receive_datagram(data, ("1.2.3.4", 4433), now=now)


def ncid(conn, seq, rpt):
    buf = Buffer(capacity=64)
    buf.push_uint_var(seq)
    buf.push_uint_var(rpt)
    buf.push_uint8(8)
    buf.push_bytes(bytes([0xC0 + seq]) * 8)
    buf.push_bytes(bytes(16))
    buf.seek(0)
    ctx = QuicReceiveContext(epoch=tls.Epoch.ONE_RTT, host_cid=conn.host_cid,
                             network_path=conn._network_paths[0], quic_logger_frames=[],
                             time=time.time(), version=None)
    conn._handle_new_connection_id_frame(ctx, QuicFrameType.NEW_CONNECTION_ID, buf)


client._peer_cid_available.clear()
client._peer_cid_sequence_numbers = {0}
ncid(client, 2, 2)
print("after N(2,2): pending RETIRE frames for", client._retire_connection_ids)
client._retire_connection_ids.clear()  # (sent)
ncid(client, 1, 0)
print("after N(1,0): pending RETIRE frames for", client._retire_connection_ids,
      "- client uses seq", client._peer_cid.sequence_number, "spare",
      [c.sequence_number for c in client._peer_cid_available])
if 1 not in client._retire_connection_ids:
    print("DEFECT: connection ID 1 (below retire-prior-to 2) is neither used nor retired")
    sys.exit(1)
print("OK")
sys.exit(0)
