"""C16: a PUSH_PROMISE frame with an empty payload on a request stream makes the client's
H3Connection.handle_event raise BufferReadError (expected: H3_FRAME_ERROR close)."""
from aioquic.h3.connection import H3Connection
from aioquic.quic.configuration import QuicConfiguration
from aioquic.quic.connection import QuicConnection
from aioquic.quic.events import StreamDataReceived

quic = QuicConnection(configuration=QuicConfiguration(is_client=True, alpn_protocols=["h3"]))
h3 = H3Connection(quic)
print(h3.handle_event(StreamDataReceived(data=b"\x05\x00", end_stream=False, stream_id=0)))
print("closed:", quic._close_event)
