"""C14: a DATA frame cut short by the end of the stream gives chunking-dependent events.

Plain script, uses only aioquic (run: /venv/bin/python replays/C14_truncated_data_frame.py).
Exit code 1 = defect present, 0 = events independent of the splitting.
"""
import sys

from aioquic.h3.connection import H3Connection, encode_frame, FrameType
from aioquic.quic.configuration import QuicConfiguration
from aioquic.quic.events import StreamDataReceived


class FakeQuic:
    def __init__(self, is_client):
        self.configuration = QuicConfiguration(is_client=is_client)
        self._quic_logger = None
        self._remote_max_datagram_frame_size = None
        self._uni = 2 if is_client else 3
        self.sent = {}
        self.closed = None

    def get_next_available_stream_id(self, is_unidirectional=False):
        self._uni += 4
        return self._uni - 4

    def send_stream_data(self, stream_id, data, end_stream=False):
        self.sent[stream_id] = self.sent.get(stream_id, b"") + data

    def close(self, error_code, reason_phrase=""):
        self.closed = (error_code, reason_phrase)


# a real client encodes the request headers
qc = FakeQuic(True)
client = H3Connection(qc)
client.send_headers(0, [(b":method", b"POST"), (b":scheme", b"https"),
                        (b":authority", b"localhost"), (b":path", b"/")])
headers_frame = qc.sent[0]
# DATA frame announcing 10 bytes, only 4 present, then the stream ends
stream = headers_frame + b"\x00\x0a" + b"abcd"


def run(chunks):
    server = H3Connection(FakeQuic(False))
    events = []
    for data, fin in chunks:
        events += server.handle_event(StreamDataReceived(stream_id=0, data=data, end_stream=fin))
    body = b"".join(e.data for e in events if hasattr(e, "data"))
    ended = any(e.stream_ended for e in events)
    print("  deliveries %s -> body=%r end_of_stream=%r" % ([(len(d), f) for d, f in chunks], body, ended))
    return body, ended


print("same %d stream bytes + FIN, three splittings:" % len(stream))
one = run([(stream, True)])
two = run([(stream, False), (b"", True)])
three = run([(stream[:-2], False), (stream[-2:], True)])
if one == two == three:
    print("OK: events do not depend on the splitting")
    sys.exit(0)
print("DEFECT: end of stream reported or not depending on how the bytes were split")
sys.exit(1)
