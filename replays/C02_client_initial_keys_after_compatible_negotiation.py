#!/venv/bin/python
"""Stand-alone reproduction (no explorer): compatible version negotiation v1 -> v2.

The client starts in QUIC v1 but lists v2 first; the server switches to v2.  Every Initial packet
the client emits afterwards carries version 2 in its header and must open with the *v2* Initial keys
(RFC 9369 3.3.1, RFC 9368 2.4).  Before fix 6979a46 the client kept sealing with the v1 Initial keys,
so the server silently dropped those packets.  Exit 0 = all client Initials open, 1 = defect present.
"""
import os
import sys

sys.path.insert(0, os.path.join(os.path.dirname(os.path.abspath(__file__)), ".."))
from vlib import build  # noqa: E402

build.preload("plain")
from vlib import explore, netsim  # noqa: E402

V1, V2 = 0x00000001, 0x6B3343CF
cfg = dict(netsim.DEFAULT_CFG, version=V1, c_supported=[V2, V1], s_supported=[V2, V1])
script = {"c": [{"op": "w", "sid": 0, "n": 100, "fin": True, "g": "hs"}], "s": []}
w = netsim.NetSim(cfg, script, explore.Chooser([]), monitors=[], max_steps=200)
w.run()
bad = [r for r in w.ep["c"].sent_packets + w.ep["s"].sent_packets if not r.opened]
for r in bad:
    print("NOT OPENED: %s %s packet, header version %s, %d bytes" % (r.sender, r.type, hex(r.version or 0), r.size))
print("FAIL" if bad else "PASS")
sys.exit(1 if bad else 0)
