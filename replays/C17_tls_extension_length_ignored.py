"""C17: TLS message parsers ignore the declared extension_length of extensions they know.

ServerHello whose pre_shared_key extension declares extension_length 0 but is followed by the
2-byte selected_identity: pull_server_hello consumes the 2 bytes beyond the declared length and
accepts the message.  Same in pull_client_hello, pull_encrypted_extensions,
pull_certificate_request, pull_new_session_ticket.  Expected: AlertDecodeError.
"""
from aioquic.buffer import Buffer
from aioquic import tls

good = bytes.fromhex(
    "0200002e0303" + bytes(range(0x20, 0x40)).hex() + "00" "1302" "00" "0006" "0029" "0002" "0000"
)
lie = good[:46] + b"\x00\x00" + good[48:]  # extension_length 2 -> 0, bytes otherwise unchanged
assert tls.pull_server_hello(Buffer(data=good)).pre_shared_key == 0
try:
    hello = tls.pull_server_hello(Buffer(data=lie))
except (tls.Alert, ValueError) as e:
    print("OK: rejected with", type(e).__name__)
else:
    print("DEFECT: accepted, pre_shared_key =", hello.pre_shared_key,
          "was read from beyond the declared extension_length 0")
    raise SystemExit(1)
