"""C16: a SETTINGS frame whose payload ends inside a value makes
H3Connection.handle_event raise BufferReadError (expected: H3_FRAME_ERROR close)."""
import os

from aioquic.h3.connection import H3Connection
from aioquic.quic.configuration import QuicConfiguration
from aioquic.quic.connection import QuicConnection
from aioquic.quic.events import StreamDataReceived

TESTS = os.path.join(os.path.dirname(__import__("aioquic").__file__), "..", "..", "tests")


def server_config(**kw):
    cfg = QuicConfiguration(is_client=False, **kw)
    cfg.load_cert_chain(os.path.join(TESTS, "ssl_cert.pem"), os.path.join(TESTS, "ssl_key.pem"))
    return cfg

quic = QuicConnection(
    configuration=server_config(alpn_protocols=["h3"]),
    original_destination_connection_id=bytes(8),
)
h3 = H3Connection(quic)
# client control stream (id 2): type 0x00, SETTINGS (0x04) length 1, payload = identifier 0x01 only
print(h3.handle_event(StreamDataReceived(data=b"\x00\x04\x01\x01", end_stream=False, stream_id=2)))
print("closed:", quic._close_event)
