"""C02: a packet number >= 2^32 sent on 4 bytes whose low 32 bits are >= 0x80000000 cannot be
opened, not even by aioquic itself: HeaderProtection.remove returns the truncated number through
Py_BuildValue("i") (signed), decode_packet_number receives a negative value and loses the high
bits of the expected number (below 2^32 the wrap-around happens to give the right answer)."""
from aioquic.quic.crypto import CryptoPair
from aioquic.quic.packet import QuicProtocolVersion

a, b = CryptoPair(), CryptoPair()
cid = bytes(8)
a.setup_initial(cid, is_client=True, version=QuicProtocolVersion.VERSION_1)
b.setup_initial(cid, is_client=False, version=QuicProtocolVersion.VERSION_1)
bad = 0
for pn in (0x17FFFFFFF, 0x180000000, 0x1FFFFFFFF, (1 << 62) - 1):
    header = bytes([0x43]) + cid + (pn & 0xFFFFFFFF).to_bytes(4, "big")  # short header, 4-byte packet number
    packet = a.encrypt_packet(header, b"\x01" * 20, pn)
    try:
        _, payload, got = b.decrypt_packet(packet, 9, pn)
        print("pn 0x%x: opened, packet number 0x%x" % (pn, got))
    except Exception as e:
        print("pn 0x%x: DEFECT %s: %s" % (pn, type(e).__name__, e))
        bad = 1
raise SystemExit(bad)
