"""C17: pull_client_hello raises UnicodeDecodeError for a server_name that is not ASCII;
the documented parse errors are tls.Alert / BufferReadError (Context and QuicConnection catch only those)."""
from aioquic.buffer import Buffer
from aioquic import tls

body = bytes.fromhex("0303") + bytes(32) + bytes.fromhex("00" "00021301" "0100")
ext = bytes.fromhex("0000" "0006" "0004" "00" "0001" "e9")
body += len(ext).to_bytes(2, "big") + ext
data = b"\x01" + len(body).to_bytes(3, "big") + body
try:
    tls.pull_client_hello(Buffer(data=data))
except (tls.Alert, tls.BufferReadError) as e:
    print("OK: rejected with", type(e).__name__)
except Exception as e:
    print("DEFECT:", type(e).__name__, e)
    raise SystemExit(1)
