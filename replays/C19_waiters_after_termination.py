"""C19 reproduction (plain asyncio, real sockets, only aioquic).

ping() / wait_connected() called after the connection has terminated create a waiter
that nobody will ever resolve: the awaitable never finishes (property C19: "every
connect, ping and close waiter finishes exactly once, with success or a connection
error ... connections closed by either side, by error or by idle timeout at any point").

Nobody listens on the port: the connection terminates by idle timeout after 1 s.
Exit status 1 = defect present, 0 = both calls finish with ConnectionError.
"""
import asyncio
import sys

from aioquic.asyncio.client import connect
from aioquic.quic.configuration import QuicConfiguration


async def main():
    bad = []
    cfg = QuicConfiguration(is_client=True, idle_timeout=1.0)
    try:
        async with connect("localhost", 1024, configuration=cfg, wait_connected=False) as client:
            try:
                await client.ping()  # sends the first flight; nobody answers
            except ConnectionError:
                print("first ping(): ConnectionError at the idle timeout (ok)")
            await client.wait_closed()  # ConnectionTerminated has been processed
            for name in ("ping", "wait_connected"):
                try:
                    await asyncio.wait_for(getattr(client, name)(), 3.0)
                    print("%s() after termination: returned normally" % name)
                except asyncio.TimeoutError:
                    print("%s() after termination: STILL PENDING after 3 s (never finishes)" % name)
                    bad.append(name)
                    client._connected_waiter = None  # (wait_for cancelled only the shield)
                except ConnectionError:
                    print("%s() after termination: ConnectionError (ok)" % name)
    except ConnectionError:
        pass
    return 1 if bad else 0


if __name__ == "__main__":
    sys.exit(asyncio.run(main()))
