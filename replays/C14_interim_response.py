"""C14 (round trip): an interim (1xx) response followed by the final response is
accepted by the sending API but kills the connection at the receiving client, which
treats the second HEADERS frame as trailers (RFC 9114 4.1 allows interim responses).

Plain script, only aioquic.  Exit code 1 = defect present.
"""
import sys

from aioquic.h3.connection import H3Connection
from aioquic.quic.configuration import QuicConfiguration
from aioquic.quic.events import StreamDataReceived


class FakeQuic:
    def __init__(self, is_client):
        self.configuration = QuicConfiguration(is_client=is_client)
        self._quic_logger = None
        self._remote_max_datagram_frame_size = None
        self._uni = 2 if is_client else 3
        self.sent = {}
        self.closed = None

    def get_next_available_stream_id(self, is_unidirectional=False):
        self._uni += 4
        return self._uni - 4

    def send_stream_data(self, stream_id, data, end_stream=False):
        self.sent[stream_id] = self.sent.get(stream_id, b"") + data

    def close(self, error_code, reason_phrase=""):
        self.closed = (error_code, reason_phrase)


qs = FakeQuic(False)
server = H3Connection(qs)
server.send_headers(0, [(b":status", b"103"), (b"link", b"</app.css>; rel=preload")])
server.send_headers(0, [(b":status", b"200")], end_stream=True)

qc = FakeQuic(True)
client = H3Connection(qc)
events = client.handle_event(StreamDataReceived(stream_id=0, data=qs.sent[0], end_stream=True))
print("submitted: headers 103, headers 200 + end of stream")
print("received : %r" % events)
print("client connection closed: %r" % (qc.closed,))
if qc.closed is not None or len(events) != 2:
    print("DEFECT: interim + final response does not survive the round trip")
    sys.exit(1)
print("OK")
sys.exit(0)
