"""C17: a ClientHello / CertificateRequest without key_share / supported_versions /
signature_algorithms / supported_groups decodes to a value (fields None, as typed Optional)
that push_client_hello / push_certificate_request cannot encode (TypeError)."""
from aioquic.buffer import Buffer
from aioquic import tls

bad = 0
body = bytes.fromhex("0303") + bytes(32) + bytes.fromhex("00" "00021301" "0100" "0000")
hello = tls.pull_client_hello(Buffer(data=b"\x01" + len(body).to_bytes(3, "big") + body))
req = tls.pull_certificate_request(Buffer(data=bytes.fromhex("0d000003" "00" "0000")))
for push, value in ((tls.push_client_hello, hello), (tls.push_certificate_request, req)):
    buf = Buffer(capacity=1000)
    try:
        push(buf, value)
        print("OK:", push.__name__, "->", buf.data.hex())
    except Exception as e:
        print("DEFECT:", push.__name__, "raised", type(e).__name__, e, "for the value it just decoded")
        bad = 1
raise SystemExit(bad)
