"""C19 reproduction (plain asyncio loop, in-memory transports, only aioquic).

QuicConnectionProtocol.datagram_received() runs _process_events() BEFORE transmit();
NEW_CONNECTION_ID frames are written by transmit(), so their ConnectionIdIssued events
stay queued until the connection's next datagram or timer.  QuicServer therefore has no
routing entry for connection IDs that are already on the wire: a datagram addressed to
one of them that arrives first (within the 1 ms ACK delay of the server) is dropped.

The script shuttles datagrams by hand and never yields to the loop, i.e. everything
below happens "within the same millisecond".
Exit status 1 = defect present (datagram for an issued CID not routed), 0 = routed.
"""
import asyncio
import os
import sys

import aioquic
from aioquic.asyncio.protocol import QuicConnectionProtocol
from aioquic.asyncio.server import QuicServer
from aioquic.buffer import Buffer
from aioquic.quic.configuration import QuicConfiguration
from aioquic.quic.connection import QuicConnection
from aioquic.quic.packet import pull_quic_header

TESTS = os.path.join(os.path.dirname(os.path.dirname(os.path.dirname(aioquic.__file__))), "tests")
SERVER = ("::1", 4433, 0, 0)
CLIENT = ("::1", 50001, 0, 0)


class Wire(asyncio.DatagramTransport):
    def __init__(self, addr):
        super().__init__()
        self.addr = addr
        self.out = []

    def sendto(self, data, addr=None):
        self.out.append((bytes(data), addr))


async def main():
    scfg = QuicConfiguration(is_client=False)
    scfg.load_cert_chain(os.path.join(TESTS, "ssl_cert.pem"), os.path.join(TESTS, "ssl_key.pem"))
    server = QuicServer(configuration=scfg)
    swire = Wire(SERVER)
    server.connection_made(swire)

    ccfg = QuicConfiguration(is_client=True, server_name="localhost")
    ccfg.load_verify_locations(cafile=os.path.join(TESTS, "pycacert.pem"))
    client = QuicConnectionProtocol(QuicConnection(configuration=ccfg))
    cwire = Wire(CLIENT)
    client.connection_made(cwire)
    client.connect(SERVER)

    def shuttle():
        moved = 0
        while cwire.out:
            data, _ = cwire.out.pop(0)
            server.datagram_received(data, CLIENT)
            moved += 1
        while swire.out:
            data, _ = swire.out.pop(0)
            client.datagram_received(data, SERVER)
            moved += 1
        return moved

    # handshake: stop as soon as the client has learnt spare connection IDs of the server
    for _ in range(10):
        shuttle()
        if client._quic._peer_cid_available:
            break
    assert client._quic._peer_cid_available, "client did not receive NEW_CONNECTION_ID"
    cwire.out.clear()  # (acknowledgements the client has queued so far are lost/late)

    # the application switches to the next connection ID of the server and pings
    client.change_connection_id()
    ping = asyncio.ensure_future(client.ping())
    await asyncio.sleep(0)  # let ping() run up to its await; no timer can fire: no time passes
    data, _ = cwire.out[0]
    dcid = pull_quic_header(Buffer(data=data), host_cid_length=8).destination_cid
    sproto = next(iter(server._protocols.values()))
    issued = [c.cid for c in sproto._quic._host_cids if c.was_sent]
    print("datagram is addressed to a CID the server has sent in NEW_CONNECTION_ID:", dcid in issued)
    routed = server._protocols.get(dcid) is sproto
    print("QuicServer has a routing entry for it:", routed)
    ping.cancel()
    return 0 if routed or dcid not in issued else 1


if __name__ == "__main__":
    sys.exit(asyncio.run(main()))
