"""C14: a PUSH_PROMISE whose header block references the QPACK dynamic table is
handled correctly when the encoder stream is delivered first, but when the request
stream is delivered first the stream blocks and, once unblocked, the promise is resumed
as if it were a HEADERS frame: the connection is closed with H3_MESSAGE_ERROR.

Both byte strings come from a real server H3Connection.  Plain script, only aioquic.
Exit code 1 = defect present.
"""
import sys

from aioquic.h3.connection import H3Connection
from aioquic.quic.configuration import QuicConfiguration
from aioquic.quic.events import StreamDataReceived


class FakeQuic:
    def __init__(self, is_client):
        self.configuration = QuicConfiguration(is_client=is_client)
        self._quic_logger = None
        self._remote_max_datagram_frame_size = None
        self._uni = 2 if is_client else 3
        self.sent = {}
        self.closed = None

    def get_next_available_stream_id(self, is_unidirectional=False):
        self._uni += 4
        return self._uni - 4

    def send_stream_data(self, stream_id, data, end_stream=False):
        self.sent[stream_id] = self.sent.get(stream_id, b"") + data

    def close(self, error_code, reason_phrase=""):
        self.closed = (error_code, reason_phrase)


PROMISE = [(b":method", b"GET"), (b":scheme", b"https"), (b":authority", b"localhost"),
           (b":path", b"/app.css"), (b"x-foo", b"pushed")]

# real server, primed with a real client's SETTINGS / MAX_PUSH_ID (enables the dynamic table)
qs = FakeQuic(False)
server = H3Connection(qs)
qc0 = FakeQuic(True)
H3Connection(qc0)
for sid, data in qc0.sent.items():
    server.handle_event(StreamDataReceived(stream_id=sid, data=data, end_stream=False))
server.send_push_promise(0, PROMISE)  # literal header fields
server.send_push_promise(0, PROMISE)  # inserts into / references the dynamic table
server.send_headers(0, [(b":status", b"200")], end_stream=True)
ENC = server._local_encoder_stream_id
print("server streams: " + ", ".join("%d: %s" % (k, v.hex()) for k, v in qs.sent.items()))


def run(order):
    qc = FakeQuic(True)
    client = H3Connection(qc)
    events = []
    for sid in order:
        events += client.handle_event(
            StreamDataReceived(stream_id=sid, data=qs.sent[sid], end_stream=(sid == 0)))
    promises = [e.push_id for e in events if type(e).__name__ == "PushPromiseReceived"]
    print("  delivery order %s -> push promises %s, connection closed: %r" % (order, promises, qc.closed))
    return promises, qc.closed


others = [s for s in qs.sent if s not in (0, ENC)]
a = run(others + [ENC, 0])
b = run(others + [0, ENC])
if a != b:
    print("DEFECT: events / connection outcome depend on the interleaving of request and encoder stream")
    sys.exit(1)
print("OK")
sys.exit(0)
