"""C04: Buffer_init does not check malloc() nor a negative capacity.
Plain script, only aioquic.  Buffer(capacity=-1) / Buffer(capacity=2**62) are accepted
(base == NULL); the first push then writes through a NULL-based pointer (done in a
child process: it dies with SIGSEGV).  On a fixed tree the constructors raise
ValueError / MemoryError."""
import subprocess
import sys

from aioquic.buffer import Buffer

bad = 0
for cap in (-1, 2**62):
    try:
        b = Buffer(capacity=cap)
        print("Buffer(capacity=%d) accepted, capacity property says %d" % (cap, b.capacity))
        bad = 1
    except (ValueError, MemoryError) as e:
        print("Buffer(capacity=%d) rejected: %r" % (cap, e))
if bad:
    r = subprocess.run([sys.executable, "-c",
                        "from aioquic.buffer import Buffer; b = Buffer(capacity=2**62); b.push_uint8(1); print('survived')"],
                       capture_output=True, text=True)
    print("child doing Buffer(capacity=2**62).push_uint8(1): exit status", r.returncode)
raise SystemExit(bad)
