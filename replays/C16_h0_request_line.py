"""C16: an HTTP/0.9 request line without a space makes the server's
H0Connection.handle_event raise ValueError."""
import os

from aioquic.h0.connection import H0Connection
from aioquic.quic.configuration import QuicConfiguration
from aioquic.quic.connection import QuicConnection
from aioquic.quic.events import StreamDataReceived

TESTS = os.path.join(os.path.dirname(__import__("aioquic").__file__), "..", "..", "tests")


def server_config(**kw):
    cfg = QuicConfiguration(is_client=False, **kw)
    cfg.load_cert_chain(os.path.join(TESTS, "ssl_cert.pem"), os.path.join(TESTS, "ssl_key.pem"))
    return cfg

quic = QuicConnection(
    configuration=server_config(alpn_protocols=["hq-interop"]),
    original_destination_connection_id=bytes(8),
)
h0 = H0Connection(quic)
print(h0.handle_event(StreamDataReceived(data=b"GET\r\n", end_stream=False, stream_id=0)))
