"""C14: when the last frame of a valid message produces no Headers/Data event (unknown
or GREASE frame type, PUSH_PROMISE) and the FIN is delivered together with it, the end
of the stream is never reported; when the FIN is delivered alone it is.

Plain script, uses only aioquic.  Exit code 1 = defect present.
"""
import sys

from aioquic.h3.connection import H3Connection
from aioquic.quic.configuration import QuicConfiguration
from aioquic.quic.events import StreamDataReceived


class FakeQuic:
    def __init__(self, is_client):
        self.configuration = QuicConfiguration(is_client=is_client)
        self._quic_logger = None
        self._remote_max_datagram_frame_size = None
        self._uni = 2 if is_client else 3
        self.sent = {}
        self.closed = None

    def get_next_available_stream_id(self, is_unidirectional=False):
        self._uni += 4
        return self._uni - 4

    def send_stream_data(self, stream_id, data, end_stream=False):
        self.sent[stream_id] = self.sent.get(stream_id, b"") + data

    def close(self, error_code, reason_phrase=""):
        self.closed = (error_code, reason_phrase)


def feed(h3, sid, chunks):
    events = []
    for data, fin in chunks:
        events += h3.handle_event(StreamDataReceived(stream_id=sid, data=data, end_stream=fin))
    return events


def summary(events, sid):
    evs = [e for e in events if getattr(e, "stream_id", None) == sid]
    return (b"".join(getattr(e, "data", b"") for e in evs), any(getattr(e, "stream_ended", False) for e in evs))


bad = False

# ---- 1. request: HEADERS, DATA, GREASE frame (type 0x21, RFC 9114 7.2.8), FIN
qc = FakeQuic(True)
client = H3Connection(qc)
client.send_headers(0, [(b":method", b"POST"), (b":scheme", b"https"),
                        (b":authority", b"localhost"), (b":path", b"/")])
client.send_data(0, b"hello", end_stream=False)
stream = qc.sent[0] + b"\x21\x02GR"
print("request ending with a GREASE frame (%d bytes + FIN):" % len(stream))
res = []
for chunks in ([(stream, True)], [(stream, False), (b"", True)]):
    r = summary(feed(H3Connection(FakeQuic(False)), 0, chunks), 0)
    res.append(r)
    print("  deliveries %s -> body=%r end_of_stream=%r" % ([(len(d), f) for d, f in chunks], r[0], r[1]))
bad |= res[0] != res[1] or not res[0][1]

# ---- 2. response: HEADERS, DATA, PUSH_PROMISE, FIN (all produced by a real server)
qs = FakeQuic(False)
server = H3Connection(qs)
# the server learns MAX_PUSH_ID from a real client's control stream
qc2 = FakeQuic(True)
H3Connection(qc2)
for sid, data in qc2.sent.items():
    server.handle_event(StreamDataReceived(stream_id=sid, data=data, end_stream=False))
server.send_headers(0, [(b":status", b"200")])
server.send_data(0, b"hello", end_stream=False)
server.send_push_promise(0, [(b":method", b"GET"), (b":scheme", b"https"),
                             (b":authority", b"localhost"), (b":path", b"/app.css")])
stream = qs.sent[0]
print("response ending with a PUSH_PROMISE frame (%d bytes + FIN):" % len(stream))
res = []
for chunks in ([(stream, True)], [(stream, False), (b"", True)]):
    r = summary(feed(H3Connection(FakeQuic(True)), 0, chunks), 0)
    res.append(r)
    print("  deliveries %s -> body=%r end_of_stream=%r" % ([(len(d), f) for d, f in chunks], r[0], r[1]))
bad |= res[0] != res[1] or not res[0][1]

if bad:
    print("DEFECT: end of stream lost when the FIN arrives together with the last (event-less) frame")
    sys.exit(1)
print("OK")
sys.exit(0)
