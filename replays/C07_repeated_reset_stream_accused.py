#!/venv/bin/python
"""Stand-alone reproduction: a peer that stays within MAX_DATA repeats RESET_STREAM (final 4900 of 5000) in one
packet.  Before the fix E closed with FLOW_CONTROL_ERROR.  Prints the state; CONNECTED = fixed."""
import sys
sys.path.insert(0,'/verif')
from vlib import build
build.preload('plain')
from vlib import peerbot
for role in ("server",):
    side = "s"
    bot = peerbot.PeerBot(role, cut="connected", cfg={side+"_max_data": 5000, side+"_max_stream_data": 5000})
    sid = 0
    bot.send([{"t":"STREAM","id":sid,"off":0,"data":b"x"*100,"fin":False}])
    conn=bot.E.conn
    r={"t":"RESET_STREAM","id":sid,"err":1,"final":4900}
    bot.send([r, r])
    print("after two RESETs in one packet: used %d value %d state %s term %r" % (conn._local_max_data.used, conn._local_max_data.value, conn._state.name, bot.E.terminated and (bot.E.terminated.error_code, bot.E.terminated.reason_phrase)))
    print(conn._close_event)
