"""C04: AEAD_encrypt writes the 16-byte tag past its 1500-byte buffer, over its own key.
Plain script, only aioquic.  Expected on the defective tree: the two ciphertexts of the
same input differ (the key changed in between); on a fixed tree encrypt(1500 bytes)
raises CryptoError and the ciphertexts are equal."""
from aioquic._crypto import AEAD, CryptoError

a = AEAD(b"aes-128-gcm", bytes(16), bytes(12))
before = a.encrypt(b"hello", b"aad", 1)
try:
    a.encrypt(bytes(1500), b"", 0)  # 1500 + 16-byte tag > PACKET_LENGTH_MAX
    print("encrypt(1500 bytes) returned normally")
except CryptoError as e:
    print("encrypt(1500 bytes) rejected:", e)
after = a.encrypt(b"hello", b"aad", 1)
print("same ciphertext before/after:", before == after)
raise SystemExit(0 if before == after else 1)
