"""C02: under QUIC v2 the next-generation secret of a key update must be derived with the label
"quicv2 ku" (RFC 9369 3.3.2); aioquic.quic.crypto.next_key_phase uses "quic ku", so after a key
update a v2 aioquic endpoint and an RFC 9369 peer cannot read each other's packets."""
from aioquic.quic.crypto import CryptoContext, next_key_phase
from aioquic.quic.packet import QuicProtocolVersion
from aioquic.tls import CipherSuite, cipher_suite_hash, hkdf_expand_label

secret = bytes(range(32))
ctx = CryptoContext()
ctx.setup(cipher_suite=CipherSuite.AES_128_GCM_SHA256, secret=secret, version=QuicProtocolVersion.VERSION_2)
got = next_key_phase(ctx).secret
alg = cipher_suite_hash(CipherSuite.AES_128_GCM_SHA256)
rfc = hkdf_expand_label(alg, secret, b"quicv2 ku", b"", 32)
v1 = hkdf_expand_label(alg, secret, b"quic ku", b"", 32)
print("next secret        ", got.hex())
print("RFC 9369 quicv2 ku ", rfc.hex())
print("RFC 9001 quic ku   ", v1.hex())
if got != rfc:
    print("DEFECT: v2 key update derived with the", "v1 label" if got == v1 else "wrong label")
    raise SystemExit(1)
print("OK")
