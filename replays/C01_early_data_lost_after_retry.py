#!/venv/bin/python
"""Stand-alone reproduction (no explorer): early data + Retry / Version Negotiation.

A client resumes a session and writes 300 bytes + FIN before its first transmit (0-RTT).  The server's
front end answers the first flight with a Retry (or a Version Negotiation packet); the client starts
over.  The bytes it wrote are still owed to the peer.  Before fix 51f9ef4 the restart discarded the
packet spaces without marking their frames lost and the stream data was never sent again.
Exit 0 = delivered in all three worlds, 1 = defect present.
"""
import os
import sys

sys.path.insert(0, os.path.join(os.path.dirname(os.path.abspath(__file__)), ".."))
from vlib import build  # noqa: E402

build.preload("plain")
from vlib import explore, netsim  # noqa: E402

bad = 0
for extra in ({}, {"retry": True}, {"vn": True}):
    cfg = dict(netsim.DEFAULT_CFG, **extra)
    cfg["tickets"] = netsim.obtain_tickets({k: v for k, v in extra.items() if k != "vn"})
    script = {"c": [{"op": "w", "sid": 0, "n": 300, "fin": True, "g": "pre"}], "s": []}
    w = netsim.NetSim(cfg, script, explore.Chooser([]), monitors=[], max_steps=400)
    w.run(lambda w: w.ep["s"].rx_fin.get(0))
    got = len(w.ep["s"].rx.get(0, b""))
    ok = got == 300 and w.ep["s"].rx_fin.get(0)
    print("%-16s server received %d of 300 bytes, FIN=%s  %s" % (extra or "plain", got, bool(w.ep["s"].rx_fin.get(0)), "ok" if ok else "LOST"))
    bad += not ok
print("FAIL" if bad else "PASS")
sys.exit(1 if bad else 0)
