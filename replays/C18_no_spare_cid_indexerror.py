"""C18 / C05: NEW_CONNECTION_ID whose Retire Prior To leaves E without any usable
connection ID makes the frame handler raise IndexError (escapes receive_datagram).

History (peer frames N(seq, retire_prior_to), local change_connection_id()):
    N(2,0)  N(1,1)  change_connection_id()  N(2,2)
Plain script, only aioquic + the repo's test certificate.  Exit 1 = defect present.
"""
import os
import sys
import time

import aioquic
from aioquic.buffer import Buffer
from aioquic.quic.configuration import QuicConfiguration
from aioquic.quic.connection import QuicConnection, QuicConnectionError, QuicReceiveContext
from aioquic.quic.packet import QuicFrameType
from aioquic import tls

TESTS = os.path.join(os.path.dirname(aioquic.__file__), "..", "..", "tests")


def pair():
    cc = QuicConfiguration(is_client=True)
    cc.load_verify_locations(cafile=os.path.join(TESTS, "pycacert.pem"))
    sc = QuicConfiguration(is_client=False)
    sc.load_cert_chain(os.path.join(TESTS, "ssl_cert.pem"), os.path.join(TESTS, "ssl_key.pem"))
    client = QuicConnection(configuration=cc)
    server = QuicConnection(configuration=sc, original_destination_connection_id=client.original_destination_connection_id)
    now = time.time()
    client.connect(("1.2.3.4", 4433), now=now)
    for _ in range(6):
        for data, _a in client.datagrams_to_send(now=now):
            server.receive_datagram(data, ("5.6.7.8", 1234), now=now)
        for data, _a in server.datagrams_to_send(now=now):
            client.receive_datagram(data, ("1.2.3.4", 4433), now=now)
    return client, server


def ncid(conn, seq, rpt):
    buf = Buffer(capacity=64)
    buf.push_uint_var(seq)
    buf.push_uint_var(rpt)
    buf.push_uint8(8)
    buf.push_bytes(bytes([0xC0 + seq]) * 8)
    buf.push_bytes(bytes(16))
    buf.seek(0)
    ctx = QuicReceiveContext(epoch=tls.Epoch.ONE_RTT, host_cid=conn.host_cid,
                             network_path=conn._network_paths[0], quic_logger_frames=[],
                             time=time.time(), version=None)
    conn._handle_new_connection_id_frame(ctx, QuicFrameType.NEW_CONNECTION_ID, buf)


client, server = pair()
# forget the connection IDs the real server issued: start from "peer has issued only seq 0"
client._peer_cid_available.clear()
client._peer_cid_sequence_numbers = {0}
ncid(client, 2, 0)
ncid(client, 1, 1)          # retire-prior-to 1: client moves to seq 2, keeps seq 1 spare
client.change_connection_id()  # public API: retires 2, now uses seq 1, nothing spare
print("client uses peer seq", client._peer_cid.sequence_number, "spare", client._peer_cid_available)
try:
    ncid(client, 2, 2)      # duplicate of seq 2 with retire-prior-to 2
except IndexError as e:
    print("DEFECT: IndexError from _handle_new_connection_id_frame: %s" % e)
    sys.exit(1)
except QuicConnectionError as e:
    print("OK: connection error %s (%s)" % (e.error_code, e.reason_phrase))
    sys.exit(0)
print("OK: frame handled, client uses peer seq", client._peer_cid.sequence_number)
sys.exit(0)
