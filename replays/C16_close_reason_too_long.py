"""C16: an invalid 3000-byte header name is quoted in the H3_MESSAGE_ERROR reason phrase;
the CONNECTION_CLOSE frame then does not fit a packet: datagrams_to_send() raised
QuicPacketBuilderStop (aioquic 1.3.0) / silently emits nothing (after 51cd44a), so the
peer never learns about the close."""
import os

from aioquic.h3.connection import H3Connection
from aioquic.quic.configuration import QuicConfiguration
from aioquic.quic.connection import QuicConnection
from aioquic.quic.events import StreamDataReceived

TESTS = os.path.join(os.path.dirname(__import__("aioquic").__file__), "..", "..", "tests")
cc = QuicConfiguration(is_client=True, alpn_protocols=["h3"])
cc.load_verify_locations(os.path.join(TESTS, "pycacert.pem"))
sc = QuicConfiguration(is_client=False, alpn_protocols=["h3"])
sc.load_cert_chain(os.path.join(TESTS, "ssl_cert.pem"), os.path.join(TESTS, "ssl_key.pem"))
client = QuicConnection(configuration=cc)
server = QuicConnection(configuration=sc,
                        original_destination_connection_id=client.original_destination_connection_id)
client.connect(("2.3.4.5", 4433), now=0.0)
for _ in range(4):
    for d, _a in client.datagrams_to_send(now=0.0):
        server.receive_datagram(d, ("1.2.3.4", 1234), now=0.0)
    for d, _a in server.datagrams_to_send(now=0.0):
        client.receive_datagram(d, ("2.3.4.5", 4433), now=0.0)

h3 = H3Connection(server)
name = b"A" * 3000
# literal field line, name length as 3-bit-prefix integer: 7 + (3000 - 7)
n = 3000 - 7
name_len = bytes([0x27, (n & 0x7F) | 0x80, n >> 7])
block = b"\x00\x00" + b"\xd1\xd7\xc1" + b"\x50\x01h" + name_len + name + b"\x01v"
frame = b"\x01" + (0x4000 | len(block)).to_bytes(2, "big") + block
print(h3.handle_event(StreamDataReceived(data=frame, end_stream=True, stream_id=0)))
print("close requested: code=0x%x reason of %d characters"
      % (server._close_event.error_code, len(server._close_event.reason_phrase)))
datagrams = server.datagrams_to_send(now=0.0)
print("closing datagrams emitted:", len(datagrams))
for d, _a in datagrams:
    client.receive_datagram(d, ("2.3.4.5", 4433), now=0.0)
print("client saw close:", client._close_event)
