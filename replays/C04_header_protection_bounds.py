"""C04: HeaderProtection_remove/apply have no bounds checks.
Plain script, only aioquic.  Part 1 (harmless over-read): remove() on a packet too short
to contain the sample returns garbage instead of raising.  Part 2 (in a child process,
because it overwrites the heap): an Initial packet with a 2000-byte token in a 3000-byte
datagram makes a fresh server copy 2031 bytes into a 1500-byte buffer.  Under ASan the
child dies with heap-buffer-overflow WRITE in HeaderProtection_remove; without a
sanitizer it may crash or silently corrupt memory.  On a fixed tree both are rejected."""
import subprocess
import sys

from aioquic._crypto import CryptoError, HeaderProtection

hp = HeaderProtection(b"aes-128-ecb", bytes(16))
bad = 0
try:
    print("remove(10-byte packet, pn_offset=6) ->", hp.remove(bytes(10), 6), " (read past the packet)")
    bad = 1
except CryptoError as e:
    print("remove(10-byte packet, pn_offset=6) rejected:", e)

CHILD = r'''
from aioquic.quic.configuration import QuicConfiguration
from aioquic.quic.connection import QuicConnection
import os, sys
cfg = QuicConfiguration(is_client=False)
cfg.load_cert_chain(sys.argv[1], sys.argv[2])
def varint(v): return (v | 0x4000).to_bytes(2, "big")
token = bytes(2000)
hdr = bytes([0xC3]) + (1).to_bytes(4, "big") + b"\x08" + bytes(8) + b"\x08" + bytes(8) + varint(len(token)) + token
rest = 3000 - len(hdr) - 2
datagram = hdr + varint(rest) + bytes(rest)
conn = QuicConnection(configuration=cfg, original_destination_connection_id=bytes(8))
conn.receive_datagram(datagram, ("1.2.3.4", 5), 0.0)
print("receive_datagram returned")
'''
if len(sys.argv) == 3:
    r = subprocess.run([sys.executable, "-c", CHILD, sys.argv[1], sys.argv[2]], capture_output=True, text=True)
    print("child exit status:", r.returncode, "|", (r.stdout + r.stderr).strip().splitlines()[-1:] or "")
else:
    print("(pass <cert.pem> <key.pem>, e.g. /repo/tests/ssl_cert.pem /repo/tests/ssl_key.pem, to run part 2)")
raise SystemExit(bad)
