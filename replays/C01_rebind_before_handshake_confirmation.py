"""Stand-alone reproduction (aioquic only) of the C01 known finding
'client address changes while its handshake is unconfirmed and the server has already
discarded its Handshake keys': the connection deadlocks until the idle timeout although
the network delivers every datagram from then on.

Schedule (one-way latency 10 ms): the client's datagram carrying its Finished is lost; the
retransmitted Finished completes the server; the server's HANDSHAKE_DONE datagram is lost;
from then on the client sends from a new address.  The client only ever probes with
Handshake packets (which the server can no longer open), so the server never learns the
new address and keeps probing the old one.  Exit 1 = defect present.
"""
import os
import sys

from aioquic.quic.configuration import QuicConfiguration
from aioquic.quic.connection import QuicConnection
from aioquic.quic import events

HERE = os.path.dirname(os.path.abspath(__file__))
CERTS = os.path.join(HERE, "..", ".cache", "certs")
if not os.path.exists(os.path.join(CERTS, "ca.pem")):
    CERTS = "/repo/tests"
C1, C2, S = ("10.0.0.1", 1111), ("10.0.0.9", 9999), ("10.0.0.2", 4433)
LAT = 0.010


def main():
    cc = QuicConfiguration(is_client=True, alpn_protocols=["x"], idle_timeout=600.0)
    sc = QuicConfiguration(is_client=False, alpn_protocols=["x"], idle_timeout=600.0)
    if CERTS.endswith("tests"):
        cc.load_verify_locations(os.path.join(CERTS, "pycacert.pem"))
        sc.load_cert_chain(os.path.join(CERTS, "ssl_cert.pem"), os.path.join(CERTS, "ssl_key.pem"))
    else:
        cc.load_verify_locations(os.path.join(CERTS, "ca.pem"))
        sc.load_cert_chain(os.path.join(CERTS, "ed25519.pem"), os.path.join(CERTS, "ed25519.key"))
    cc.server_name = "localhost"
    client = QuicConnection(configuration=cc)
    server = None
    now = 0.0
    client_addr = C1
    wire = []       # (arrival, seq, dst, data, src_addr)
    seq = 0
    got = bytearray()
    sent_count = {"c": 0, "s": 0}
    hs_done_dropped = False
    wrote = False

    def pump(name):
        nonlocal seq, hs_done_dropped
        conn = client if name == "c" else server
        for data, addr in conn.datagrams_to_send(now=now):
            k = sent_count[name]
            sent_count[name] += 1
            if name == "c" and k == 1:
                continue                      # the datagram with the client's Finished is lost
            if name == "s":
                if server._handshake_complete and not hs_done_dropped:
                    hs_done_dropped = True
                    continue                  # the datagram with HANDSHAKE_DONE is lost
                if addr != client_addr:
                    continue                  # addressed to where the client no longer is
            seq += 1
            wire.append((now + LAT, seq, "s" if name == "c" else "c", data, client_addr if name == "c" else S))

    client.connect(S, now=now)
    pump("c")
    while now < 120.0:
        for name, conn in (("c", client), ("s", server)):
            if conn is None:
                continue
            while True:
                ev = conn.next_event()
                if ev is None:
                    break
                if isinstance(ev, events.HandshakeCompleted) and name == "c" and not wrote:
                    wrote = True
                    client.send_stream_data(0, b"x" * 700, end_stream=True)
                    pump("c")
                if isinstance(ev, events.StreamDataReceived) and name == "s":
                    got.extend(ev.data)
                if isinstance(ev, events.ConnectionTerminated):
                    print("terminated:", name, ev)
        if len(got) == 700:
            print("PASS: all 700 bytes delivered at t=%.3f" % now)
            return 0
        if hs_done_dropped and client_addr == C1:
            client_addr = C2                  # NAT rebinding
        timers = [(c.get_timer(), n) for n, c in (("c", client), ("s", server)) if c is not None and c.get_timer() is not None]
        wire.sort()
        nxt_t = min([t for t, _ in timers] + [1e9])
        if wire and wire[0][0] <= nxt_t:
            at, _, dst, data, src = wire.pop(0)
            now = max(now, at)
            if dst == "s":
                if server is None:
                    from aioquic.buffer import Buffer
                    from aioquic.quic.packet import pull_quic_header
                    hdr = pull_quic_header(Buffer(data=data), host_cid_length=8)
                    server = QuicConnection(configuration=sc, original_destination_connection_id=hdr.destination_cid)
                server.receive_datagram(data, src, now=now)
                pump("s")
            else:
                client.receive_datagram(data, src, now=now)
                pump("c")
        else:
            t, n = min(timers)
            now = max(now, t)
            (client if n == "c" else server).handle_timer(now=now)
            pump(n)
    print("FAIL: after 120 s of a perfectly delivering network only %d of 700 bytes arrived" % len(got))
    return 1


if __name__ == "__main__":
    sys.exit(main())
