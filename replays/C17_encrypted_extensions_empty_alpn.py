"""C17: pull_encrypted_extensions raises IndexError on an ALPN extension with an empty
(or entirely non-ASCII) protocol list; the documented parse errors are tls.Alert / BufferReadError."""
from aioquic.buffer import Buffer
from aioquic import tls

data = bytes.fromhex("08000008" "0006" "0010" "0002" "0000")
try:
    tls.pull_encrypted_extensions(Buffer(data=data))
except (tls.Alert, tls.BufferReadError) as e:
    print("OK: rejected with", type(e).__name__)
except Exception as e:
    print("DEFECT:", type(e).__name__, e)
    raise SystemExit(1)
