"""C16: with a QuicLogger configured, a valid request with a non-UTF-8 header value makes
H3Connection.handle_event raise UnicodeDecodeError (without logger it is delivered)."""
import os

from aioquic.h3.connection import H3Connection
from aioquic.quic.configuration import QuicConfiguration
from aioquic.quic.connection import QuicConnection
from aioquic.quic.events import StreamDataReceived

TESTS = os.path.join(os.path.dirname(__import__("aioquic").__file__), "..", "..", "tests")


def server_config(**kw):
    cfg = QuicConfiguration(is_client=False, **kw)
    cfg.load_cert_chain(os.path.join(TESTS, "ssl_cert.pem"), os.path.join(TESTS, "ssl_key.pem"))
    return cfg
from aioquic.quic.logger import QuicLogger  # noqa


def lit(name, value):  # RFC 9204 4.5.6 literal field line with literal name, no Huffman
    assert len(name) < 7 and len(value) < 127
    return bytes([0x20 | len(name)]) + name + bytes([len(value)]) + value


block = b"\x00\x00" + b"\xd1" + b"\xd7" + b"\xc1" + b"\x50\x01h" + lit(b"a", b"\xff")
# = :method GET, :scheme https, :path /, :authority h, a: \xff
frame = b"\x01" + bytes([len(block)]) + block
for logger in (None, QuicLogger()):
    quic = QuicConnection(
        configuration=server_config(alpn_protocols=["h3"], quic_logger=logger),
        original_destination_connection_id=bytes(8),
    )
    h3 = H3Connection(quic)
    try:
        print(h3.handle_event(StreamDataReceived(data=frame, end_stream=True, stream_id=0)))
    except Exception as exc:
        print("RAISED with logger:", type(exc).__name__, exc)
