"""Stand-alone reproduction (only aioquic) of the raw exceptions that hostile but well-formed TLS
messages provoke (property C05: network input must never make the QUIC/TLS API raise).

Part 1 - QUIC level: two real QuicConnections; the hostile peer is a real endpoint whose key
         share encoder is replaced in THIS script, so the datagrams it emits are genuine,
         correctly protected packets.  `receive_datagram` of the honest endpoint raises.
Part 2 - tls level: messages built with aioquic's own push_* encoders and handed to
         `tls.Context.handle_message` (QuicConnection only converts `tls.Alert`, anything else
         propagates through `receive_datagram`).

Run:  /venv/bin/python /verif/replays/C05_tls_raw_exceptions.py      (exit 1 = defects present)
"""
import os
import sys
import time

from aioquic import tls
from aioquic.buffer import Buffer
from aioquic.quic.configuration import QuicConfiguration
from aioquic.quic.connection import QuicConnection

CERTS = os.path.join(os.path.dirname(os.path.dirname(os.path.abspath(__file__))), ".cache", "certs")
found = []


def report(name, fn):
    try:
        fn()
        print("ok        %s" % name)
    except tls.Alert as e:
        print("ok(alert) %s -> %s" % (name, type(e).__name__))
    except Exception as e:  # noqa
        found.append(name)
        print("RAISED    %s -> %s: %s" % (name, type(e).__name__, e))


# ------------------------------------------------------------------ part 1: QUIC level
def quic_pair():
    c_cfg = QuicConfiguration(is_client=True, alpn_protocols=["x"], server_name="localhost")
    c_cfg.load_verify_locations(os.path.join(CERTS, "ca.pem"))
    s_cfg = QuicConfiguration(is_client=False, alpn_protocols=["x"])
    s_cfg.load_cert_chain(os.path.join(CERTS, "ed25519.pem"), os.path.join(CERTS, "ed25519.key"))
    return c_cfg, s_cfg


def hostile_side(which, share):
    """which = 'client' | 'server' is the hostile endpoint: its key_share entry is replaced."""
    real = tls.encode_public_key
    now = time.time()
    c_cfg, s_cfg = quic_pair()
    client = QuicConnection(configuration=c_cfg)
    if which == "client":
        tls.encode_public_key = lambda k: share
    try:
        client.connect(("10.0.0.2", 4433), now=now)
        first = client.datagrams_to_send(now=now)
    finally:
        tls.encode_public_key = real
    from aioquic.quic.packet import pull_quic_header

    hdr = pull_quic_header(Buffer(data=first[0][0]), host_cid_length=8)
    server = QuicConnection(configuration=s_cfg, original_destination_connection_id=hdr.destination_cid)
    if which == "server":
        tls.encode_public_key = lambda k: share
    try:
        for data, _ in first:
            server.receive_datagram(data, ("10.0.0.1", 1111), now=now)      # raises when the client is hostile
        reply = server.datagrams_to_send(now=now)
    finally:
        tls.encode_public_key = real
    for data, _ in reply:
        client.receive_datagram(data, ("10.0.0.2", 4433), now=now)          # raises when the server is hostile


for who in ("client", "server"):
    victim = "server" if who == "client" else "client"
    report("quic: %s receives X25519 share of 31 bytes" % victim, lambda: hostile_side(who, (tls.Group.X25519, bytes(31))))
    report("quic: %s receives all-zero X25519 share" % victim, lambda: hostile_side(who, (tls.Group.X25519, bytes(32))))
    report("quic: %s receives P-256 point not on the curve" % victim,
           lambda: hostile_side(who, (tls.Group.SECP256R1, b"\x04" + (1).to_bytes(32, "big") * 2)))
    report("quic: %s receives a share for unknown group 0x9999" % victim, lambda: hostile_side(who, (0x9999, bytes(32))))


# ------------------------------------------------------------------- part 2: tls level
def bufs():
    return {e: Buffer(capacity=8192) for e in (tls.Epoch.INITIAL, tls.Epoch.HANDSHAKE, tls.Epoch.ONE_RTT)}


def client_after_hello():
    with open(os.path.join(CERTS, "ca.pem"), "rb") as f:
        c = tls.Context(is_client=True, cadata=f.read(), server_name="localhost")
    c.handle_message(b"", bufs())
    return c


def server_hello(key_share):
    b = Buffer(capacity=1024)
    tls.push_server_hello(b, tls.ServerHello(random=bytes(32), legacy_session_id=b"", cipher_suite=tls.CipherSuite.AES_128_GCM_SHA256,
                                             compression_method=0, key_share=key_share, supported_version=tls.TLS_VERSION_1_3))
    return b.data


report("tls: ServerHello without key_share", lambda: client_after_hello().handle_message(server_hello(None), bufs()))


def client_expecting_certificate():
    """A real client/server Context pair run up to the point where the client expects Certificate."""
    with open(os.path.join(CERTS, "ca.pem"), "rb") as f:
        c = tls.Context(is_client=True, cadata=f.read(), server_name="localhost")
    cfg = QuicConfiguration(is_client=False)
    cfg.load_cert_chain(os.path.join(CERTS, "ed25519.pem"), os.path.join(CERTS, "ed25519.key"))
    s = tls.Context(is_client=False)
    s.certificate, s.certificate_private_key = cfg.certificate, cfg.private_key
    cb, sb = bufs(), bufs()
    c.handle_message(b"", cb)
    s.handle_message(cb[tls.Epoch.INITIAL].data, sb)
    c.handle_message(sb[tls.Epoch.INITIAL].data, cb)                        # ServerHello
    flight = sb[tls.Epoch.HANDSHAKE].data
    ee_len = 4 + int.from_bytes(flight[1:4], "big")
    c.handle_message(flight[:ee_len], cb)                                   # EncryptedExtensions
    assert c.state == tls.State.CLIENT_EXPECT_CERTIFICATE_REQUEST_OR_CERTIFICATE
    return c, cfg


def certificate(entries):
    b = Buffer(capacity=4096)
    tls.push_certificate(b, tls.Certificate(request_context=b"", certificates=entries))
    return b.data


def t_empty_list():
    c, _ = client_expecting_certificate()
    c.handle_message(certificate([]), bufs())


def t_garbage_der():
    c, _ = client_expecting_certificate()
    c.handle_message(certificate([(b"\x30\x82\x01\x0a" + bytes(30), b"")]), bufs())


def t_cv_scheme_mismatch():
    from cryptography.hazmat.primitives.serialization import Encoding

    c, cfg = client_expecting_certificate()
    c.handle_message(certificate([(cfg.certificate.public_bytes(Encoding.DER), b"")]), bufs())
    b = Buffer(capacity=1024)
    tls.push_certificate_verify(b, tls.CertificateVerify(algorithm=tls.SignatureAlgorithm.RSA_PSS_RSAE_SHA256, signature=bytes(256)))
    c.handle_message(b.data, bufs())                                        # Ed25519 leaf, RSA-PSS scheme


report("tls: Certificate with an empty certificate list", t_empty_list)
report("tls: Certificate with undecodable DER", t_garbage_der)
report("tls: CertificateVerify scheme that does not fit the leaf key type", t_cv_scheme_mismatch)

print("%d raw (non-Alert) exceptions" % len(found))
sys.exit(1 if found else 0)
