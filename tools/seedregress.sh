#!/bin/bash
# tools/seedregress.sh [jobs]: re-run every filed seed against its own property's quick check (no suite, no demo
# re-confirmation beyond what seedeval does) and list the seeds that are no longer detected.
cd /verif
J=${1:-3}
ls -d seeded/C*_* | sed 's|seeded/||' | xargs -P $J -I{} bash -c '
  d={}; p=${d%%_*}; k=${d#*_};
  if grep -q outside_property seeded/$d/meta.json 2>/dev/null; then echo "$d outside"; exit 0; fi
  out=$(tools/seedeval.py $p $k seeded/$d --skip-suite 2>&1 | grep -m1 "\"detected\"")
  echo "$d $out"' | tee /tmp/seedregress.log | grep -v '"detected": true' 
echo "---- $(grep -c '"detected": true' /tmp/seedregress.log) detected of $(wc -l < /tmp/seedregress.log)"
