#!/venv/bin/python
"""tools/seedeval.py <PROP> <k> <dir with patch.diff demo.py notes.md> [--checks C10,C01] [--tier quick]

Confirms a seeded defect in a scratch worktree (suite passes with it, demo passes without /
fails with), runs the named checks against it, and files it under /verif/seeded/<PROP>_<k>/.
"""
import argparse
import json
import os
import shutil
import subprocess
import sys
import time

ap = argparse.ArgumentParser()
ap.add_argument("prop")
ap.add_argument("k")
ap.add_argument("src")
ap.add_argument("--checks", default=None)
ap.add_argument("--tier", default="quick")
ap.add_argument("--skip-suite", action="store_true")
a = ap.parse_args()
checks = (a.checks or a.prop).split(",")
wt = "/tmp/confirm_%s_%s_%d" % (a.prop, a.k, os.getpid())
a.src = os.path.abspath(a.src)
patch = os.path.join(a.src, "patch.diff")
demo = os.path.join(a.src, "demo.py")


def sh(cmd, **kw):
    return subprocess.run(cmd, shell=True, capture_output=True, text=True, **kw)


meta = {"property": a.prop, "k": a.k, "ran": []}
sh("git -C /repo worktree add --detach %s HEAD" % wt)
try:
    sh("cp /repo/src/aioquic/*.so %s/src/aioquic/" % wt)
    env = dict(os.environ, PYTHONPATH=wt + "/src")
    # demos often locate the library relative to their own path (<wt>/out/<k>/demo.py)
    os.makedirs("%s/out/%s" % (wt, a.k), exist_ok=True)
    shutil.copy(demo, "%s/out/%s/demo.py" % (wt, a.k))
    orig_demo = demo
    demo = "%s/out/%s/demo.py" % (wt, a.k)
    r0 = sh("/venv/bin/python %s" % demo, env=env, cwd=wt, timeout=600)
    meta["demo_without_patch_rc"] = r0.returncode
    r = sh("git -C %s apply %s" % (wt, patch))
    if r.returncode != 0:
        r = sh("cd %s && patch -p1 < %s" % (wt, patch))
    meta["patch_applies"] = r.returncode == 0
    if r.returncode != 0:
        print("PATCH DOES NOT APPLY", r.stderr[-300:])
    else:
        if sh("git -C %s diff --stat -- '*.c'" % wt).stdout.strip():
            sh("cd %s && /venv/bin/python setup.py -q build_ext --inplace --force" % wt, env=env)
        r1 = sh("/venv/bin/python %s" % demo, env=env, cwd=wt, timeout=600)
        meta["demo_with_patch_rc"] = r1.returncode
        meta["demo_with_patch_tail"] = (r1.stdout + r1.stderr)[-400:]
        if not a.skip_suite:
            rs = sh("/venv/bin/python -m pytest -q -p no:cacheprovider tests/", env=env, cwd=wt)
            meta["suite_tail"] = rs.stdout.strip()[-80:]
            meta["suite_passes"] = rs.returncode == 0
        det = {}
        for c in checks:
            t0 = time.time()
            env2 = dict(os.environ, VERIF_REPO=wt)
            rc = sh("/verif/check %s --tier %s 2>&1 | grep -E 'VIOLATION|what:|HARNESS|tier=' | head -6" % (c, a.tier),
                    env=env2, cwd="/verif")
            out = rc.stdout
            det[c] = {"detected": "VIOLATION" in out, "harness_error": "HARNESS" in out,
                      "tier": a.tier, "wall": round(time.time() - t0), "first": out.strip()[:500]}
            meta["ran"].append("VERIF_REPO=<scratch worktree with patch> ./check %s --tier %s" % (c, a.tier))
        meta["checks"] = det
        sh("rm -f /verif/replays/%s-*.json" % a.prop)
        for c in checks:
            sh("rm -f /verif/replays/%s-*.json" % c)
finally:
    sh("git -C /repo worktree remove --force %s" % wt)
ok = meta.get("patch_applies") and meta.get("demo_without_patch_rc") == 0 and meta.get("demo_with_patch_rc", 0) != 0 \
    and (a.skip_suite or meta.get("suite_passes"))
meta["confirmed"] = bool(ok)
print(json.dumps(meta, indent=1)[:3000])
if ok:
    dst = "/verif/seeded/%s_%s" % (a.prop, a.k)
    os.makedirs(dst, exist_ok=True)
    def cp(src, dstf):
        if os.path.abspath(src) != os.path.abspath(dstf):
            shutil.copy(src, dstf)

    cp(patch, dst + "/patch.diff")
    cp(orig_demo, dst + "/demo.py")
    notes = os.path.join(a.src, "notes.md")
    if os.path.exists(notes):
        cp(notes, dst + "/notes.md")
        meta["needs_to_manifest"] = open(notes).read()[:1500]
    old = {}
    if os.path.exists(dst + "/meta.json"):
        old = json.load(open(dst + "/meta.json"))
        hist = old.get("history", [])
        for c, d in old.get("checks", {}).items():
            if c in meta.get("checks", {}) and d.get("detected") != meta["checks"][c].get("detected"):
                hist.append({"check": c, "earlier_result": d})
            meta.setdefault("checks", {}).setdefault(c, d)
        meta["history"] = hist
        for k in ("suite_passes", "suite_tail"):
            if k not in meta and k in old:
                meta[k] = old[k]
    json.dump(meta, open(dst + "/meta.json", "w"), indent=1)
    print("FILED", dst)
else:
    print("NOT CONFIRMED")
