#!/bin/bash
# tools/apply_fix.sh <diff> <commit message file> [pytest targets...]: apply a reviewed fix to /repo, test, commit.
set -e
D=$(readlink -f "$1"); MSG="$2"; shift 2
cd /repo
git apply --check "$D" 2>/dev/null && git apply "$D" || git apply -C1 "$D" || patch -p1 < "$D"
/venv/bin/python -m pytest -q -p no:cacheprovider "$@" 2>&1 | tail -2
git commit -qam "$MSG"
git log --oneline | head -1
