#!/venv/bin/python
"""Regenerate /verif/seeded/INDEX.md from the meta.json files."""
import glob
import json
import os

rows = []
for d in sorted(glob.glob("/verif/seeded/*/")):
    m = os.path.join(d, "meta.json")
    if not os.path.exists(m):
        continue
    meta = json.load(open(m))
    name = os.path.basename(d.rstrip("/"))
    det = []
    for c, r in sorted(meta.get("checks", {}).items()):
        det.append("%s %s: %s" % (c, r.get("tier", "quick"), "DETECTED" if r.get("detected") else "missed"))
    notes = ""
    p = os.path.join(d, "notes.md")
    if os.path.exists(p):
        txt = open(p).read().strip().splitlines()
        notes = " ".join(l.strip("# ").strip() for l in txt[:3])[:220]
    rows.append("| %s | %s | %s |" % (name, "; ".join(det), notes.replace("|", "/")))
out = ["# Seeded defects (independent sub-agents, confirmed in a scratch worktree)", "",
       "Each directory holds patch.diff, demo.py (passes without / fails with the patch), notes.md and meta.json",
       "(what was run). Detection = `VERIF_REPO=<scratch worktree with patch> ./check <ID> --tier <tier>` printed a",
       "VIOLATION line. The last recorded run per check is shown.", "",
       "| seed | detection | summary |", "|---|---|---|"] + rows
open("/verif/seeded/INDEX.md", "w").write("\n".join(out) + "\n")
print("\n".join(rows))
