#!/bin/bash
# tools/seedwatch.sh [extra seedeval args]: evaluate every finished, not yet evaluated seed under /tmp/seed/<PROP>[round]/out/<k>
cd /verif
for d in /tmp/seed/C??*/out/1 /tmp/seed/C??*/out/2; do
  [ -f $d/patch.diff ] && [ -f $d/demo.py ] && [ -f $d/notes.md ] || continue
  [ -f $d/.evaluated ] && continue
  id=$(echo $d | sed -E 's|/tmp/seed/(C[0-9]+)[a-z]?/out/.*|\1|')
  rnd=$(echo $d | sed -E 's|/tmp/seed/C[0-9]+([a-z]?)/out/.*|\1|')
  k=$rnd$(basename $d)
  touch $d/.evaluated
  echo "=== $id $k"
  tools/seedeval.py $id $k $d "$@" 2>&1 | grep -E '"detected"|"first"|suite_passes|confirmed|FILED|NOT|demo_with_patch_rc|PATCH|harness_error' | cut -c1-400
done
