#!/venv/bin/python
"""Regenerate the seed table of DESIGN.md section 9.6 (between the table header and the next blank line)
from seeded/*/meta.json.  'after strengthening' = an earlier recorded run of the property's own check missed."""
import glob
import json
import os
import re

rows = []
for d in sorted(glob.glob("/verif/seeded/*/")):
    m = os.path.join(d, "meta.json")
    if not os.path.exists(m):
        continue
    meta = json.load(open(m))
    name = os.path.basename(d.rstrip("/"))
    det = sorted(c for c, r in meta.get("checks", {}).items() if r.get("detected"))
    # (a run that ended in a harness error is a broken run, not a miss)
    hist = [h for h in meta.get("history", []) if not (h.get("earlier_result") or {}).get("detected")
            and not (h.get("earlier_result") or {}).get("harness_error")]
    when = "after strengthening" if hist else "as built"
    title = ""
    p = os.path.join(d, "notes.md")
    if os.path.exists(p):
        for line in open(p):
            if line.strip():
                title = line.strip("# \n").replace("|", "/")[:130]
                break
    if meta.get("outside_property") and not det:
        rows.append("| %s | not judged - outside the property as worded | n/a | %s |" % (name, title))
        continue
    if meta.get("neutralised_by"):
        when += "; no longer breaks the property since fix %s" % meta["neutralised_by"]["commit"]
    rows.append("| %s | %s | %s | %s |" % (name, ", ".join(det) or "MISSED", when, title))
table = ["| seed | detected by (quick tier) | when | what the seeded change is |", "|---|---|---|---|"] + rows
src = open("/verif/DESIGN.md").read().split("\n")
i = next(k for k, l in enumerate(src) if l.startswith("| seed | detected by"))
j = i
while j < len(src) and src[j].startswith("|"):
    j += 1
src[i:j] = table
open("/verif/DESIGN.md", "w").write("\n".join(src))
print(len(rows), "rows;", sum(1 for r in rows if "MISSED" in r), "missed;",
      sum(1 for r in rows if "after strengthening" in r), "after strengthening")
