#!/bin/bash
# tools/mut.sh <sed-expr> <file-relative-to-repo> <check id> [tier]  -- apply a one-line mutation in a scratch
# worktree (never /repo), run the check against it, and clean up.
set -u
WT=/tmp/mutwt.$$
git -C /repo worktree add --detach -f $WT HEAD >/dev/null 2>&1 || exit 3
trap 'git -C /repo worktree remove --force $WT >/dev/null 2>&1' EXIT
sed -i -E "$1" "$WT/$2"
git -C $WT diff --stat | tail -1
if git -C $WT diff --quiet; then echo "MUTATION DID NOT APPLY"; exit 4; fi
shift 2
for id in $1; do
VERIF_REPO=$WT /verif/check $id --tier ${2:-quick} 2>&1 | grep -E "VIOLATION|what:|HARNESS|tier=" | head -8
done
