#!/bin/bash
# tools/sweep.sh <tier> <seed...> : run every registered check, print one line each
cd "$(dirname "$(readlink -f "$0")")/.."
tier=$1; shift
for seed in "$@"; do
for id in $(/venv/bin/python -c "import json;print(' '.join(c['property_id'] for c in json.load(open('MANIFEST.json'))['checks']))"); do
  s=$(date +%s)
  out=$(VERIF_SEED=$seed ./check $id --tier $tier 2>&1)
  rc=$?
  e=$(( $(date +%s) - s ))
  echo "seed=$seed $id rc=$rc wall=${e}s $(echo "$out" | grep -c '^VIOLATION') violations; $(echo "$out" | grep -E 'KNOWN-FINDING|HARNESS|CAP HIT' | cut -c1-120 | tr '\n' '|')"
done; done
