#!/venv/bin/python
"""Regenerate /verif/MANIFEST.json from the table below (kept valid at all times)."""
import json
import os
import subprocess
import sys

VERIF = os.path.dirname(os.path.dirname(os.path.abspath(__file__)))

BASELINE_OFF = (
    "cd /repo && /venv/bin/python -m pytest -ra -q -p no:cacheprovider --timeout=900 "
    "--continue-on-collection-errors"
)

# pid -> (category, technique, text, note, design_ref)
CHECKS = {
    "C01": (
        "model_checking",
        "stateless deviation-bounded DFS over two real endpoints on a simulated network (virtual time)",
        "Two real QuicConnection objects are closed with a simulated network and a virtual clock; for each "
        "of 20 sharp application scripts (packet-filling sizes, FIN-only frames, resets, STOP_SENDING, key "
        "updates, CID changes, both directions, uni/bidi) and 2-4 configurations (reno/cubic x v1/v2 x "
        "stream-set order) EVERY schedule with at most d network deviations (drop, duplicate, delay past "
        "the ack delay / past the PTO, client rebinding, late timers) is executed, followed by a fair phase "
        "to quiescence. Monitors check prefix/exactly-once/no-close at every step and complete delivery at "
        "the end. Bugs of this property need a coincidence of 1-2 faults with a particular write pattern; "
        "bounded-deviation exhaustive search is the technique that arranges every such coincidence.",
        "d<=1 on all scripts, d<=2 on a seed-rotated sixth (quick) / all scripts, d<=3 on the five shortest, "
        "plus the closure of all 1-2 operation scripts (thorough). Fixed 10 ms one-way latency; corruption "
        "excluded (C02). Nothing is claimed beyond the deviation bound or for scripts outside the menu/closure.",
        "DESIGN.md §4 C01",
    ),
    "C02": (
        "fault_enumeration",
        "exhaustive seal/open differential against an independent RFC 9001/9369 implementation + exhaustive single-bit/single-byte alteration of every packet in every baseline state",
        "(1) every (suite x version x key phase 0/1/2 x header form x CID lengths x payload-length grid x 4 "
        "packet-number lengths x 9 packet numbers) packet sealed by aioquic is opened bit-exactly by refquic "
        "and vice versa, also through the public path (datagrams_to_send() output opened from the secrets log "
        "with RFC labels only; refquic-built packets fed to receive_datagram). (2) decode_packet_number "
        "against the brute-force closest-candidate definition, exhaustive for 8 bits x 2048 expected values "
        "and around every window edge for 16/24/32 bits. (3) for every packet of every datagram of recorded "
        "handshake/data/key-update/Retry flights, in the connection state just before it, EVERY single-bit "
        "(quick) / single-byte-value (thorough, 12 M mutants) alteration is fed to the real endpoint: nothing "
        "may change (events, tls state, close, receive bookkeeping), then the genuine packet is accepted and "
        "the baseline completes identically.",
        "`cryptography` AES/ChaCha primitives are the trusted base of refquic. Mutants that become well-formed "
        "Version Negotiation packets and mutants a front end would not route are counted, not judged. Random "
        "62-bit packet numbers/payloads not covered; 0-RTT only at component level.",
        "DESIGN.md §4 C02",
    ),
    "C03": (
        "fault_enumeration",
        "exhaustive single-byte alteration of every handshake message + exhaustive t-wise configuration enumeration on real endpoints, with an independent key-schedule as third opinion",
        "Every byte of every handshake message (ClientHello .. Finished, both flights, with/without client "
        "certificate request) is XORed with 3 masks in transit between a real tls.Context pair, and CH/SH "
        "additionally inside re-sealed Initial packets between real QuicConnections: the receiver must never "
        "complete. A certificate-defect menu x 5 key types x DNS/IP names, wrong-key CertificateVerify and "
        "never-offered PSK (key-holding reftls adversary) must never let the client complete. Over a "
        "10-dimensional configuration space (key type, cipher-suite lists, version lists, ALPN lists, "
        "fresh/resumed/0-RTT, retry, client-cert request) every pair (quick) / triple (thorough) of option "
        "values is enumerated on real connection pairs: when both complete, key logs agree with each other "
        "and with reftls.derive_all_secrets over the wire transcript, and version/suite/ALPN/resumption "
        "agree; with no common option nobody completes; 21 configurations additionally under every single "
        "drop/duplicate/delay.",
        "Pairwise (quick) / 3-wise + a rotating eighth of the full product (thorough), not the full product. "
        "pyOpenSSL chain validation and `cryptography` primitives are trusted; verify_mode=CERT_NONE excluded. "
        "A liveness guard (legal handshake must complete) is reported separately from the property's claims.",
        "DESIGN.md §4 C03",
    ),
    "C04": (
        "exploration",
        "exhaustive (length, offset) grids and Buffer method-sequence BFS on an ASan+UBSan build with a libcrypto argument shim, a C-contract monitor and a differential reference",
        "The two C helpers are compiled from the current sources with clang ASan+UBSan and loaded into worker "
        "interpreters (PYTHONMALLOC=malloc, red zones). Enumerated: HeaderProtection.remove for every packet "
        "length 0..1600 x every offset, apply for header 0..64 x payload 0..1600, AEAD encrypt/decrypt for every "
        "length 0..1600 (+large grid) x aad x pn x 3 ciphers each followed by a fixed-vector call (detects "
        "intra-object overflow), constructors, Buffer method sequences to depth 3/4 with boundary integers on "
        "small capacities against a reference Buffer, 35k hostile datagrams x 3 connection states and 96 "
        "max_datagram_size values through the real library with proxies over AEAD/HeaderProtection. "
        "Observers: sanitizer reports, a preloaded libcrypto shim that checks every in/out range against ASan "
        "shadow memory, a contract monitor derived from the constants parsed out of _crypto.c (an "
        "out-of-contract call must raise), and equality with `cryptography`-based references.",
        "Uninitialised reads and errors inside OpenSSL are not observable (no MSan interpreter). Lengths "
        "beyond the grids up to 65535 are covered on a boundary grid only.",
        "DESIGN.md §4 C04",
    ),
    "C05": (
        "model_checking",
        "exhaustive enumeration of a finite hostile-input grammar over a set of real connection states, inputs chained as histories; key-holding QUIC and TLS adversaries (refquic/reftls)",
        "For 9-13 connection states of both roles (fresh server, client first flight, after Retry/VN, "
        "mid-handshake, connected, with streams in several states, closing) every input of a finite grammar "
        "is handed to a real QuicConnection: ~1300 raw header layouts/garbage/prefixes of genuine datagrams, "
        "~3400 correctly protected packets per epoch carrying every frame type with boundary values, every "
        "truncation, repetition and wrong-epoch placement; inputs are chained on one endpoint until it closes "
        "(depth>1 histories) and every exception is re-derived on a fresh endpoint. A QUIC-level key-holding "
        "TLS adversary adds 729 structurally valid but hostile TLS messages with valid MACs (both roles) and "
        "every split of 7 messages across CRYPTO frames; every menu case is also followed, before the endpoint's caller transmits, by the same "
        "input again and by the legal message of that stage. One state gives the peer 0-RTT keys (whole frame menu in 0-RTT packets). Oracle: receive_datagram returns; the timer/transmit/"
        "event API keeps returning normally until ConnectionTerminated.",
        "Depth 1 (plus the two-inputs-before-transmit family) per state for TLS messages; random datagrams are not sampled (grammar enumeration instead). "
        "A worker crash (memory corruption) is isolated to the single input and reported.",
        "DESIGN.md §4 C05",
    ),
    "C06": (
        "model_checking",
        "explicit-state BFS with history replay over application writes and credit-granting peer moves, with a wire monitor on independently decrypted packets and an exact-credit drain check per state",
        "A real sending endpoint whose peer granted (stream, connection, stream-count) limits (6,11,1), (6,11,0), "
        "(0,0,0) or (7,7,2) through real transport parameters executes every sequence (depth 2-4) of writes/FIN/"
        "reset on 3 streams interleaved with MAX_DATA / MAX_STREAM_DATA / MAX_STREAMS updates (equal, +1, "
        "large), ack-all, time-threshold loss of all but the newest packet, PTO and STOP_SENDING. Every packet "
        "it emits is decrypted with refquic and checked: STREAM/RESET_STREAM offsets within the latest "
        "per-stream limit received, sum of highest offsets within MAX_DATA, no frame naming a stream beyond "
        "MAX_STREAMS. In every reached state a drain raises each limit to EXACTLY what the written data needs "
        "and acknowledges: everything written must then reach the wire, so credit charged for "
        "retransmissions shows up as starvation. 0-RTT resumption against remembered limits is explored "
        "under d<=1/2 network deviations. The BFS also restarts from a non-initial root (one request/response exchange completed and "
        "acknowledged, the stream forgotten by the endpoint).",
        "Depth 3 on two client configurations and 2 on a server one and from the non-initial root (quick); 4/3 on five configurations "
        "(thorough). All credit frames the harness sends are delivered (loss of credit frames not modelled).",
        "DESIGN.md §4 C06",
    ),
    "C07": (
        "model_checking",
        "explicit-state BFS with history replay over frames from a key-holding peer, against a reference receive-side flow controller fed from the wire",
        "A real endpoint advertising max_stream_data=8, max_data=16 and 2 streams per kind receives every "
        "sequence (depth 2-4) of STREAM frames with (offset,len) at limit-1/limit/limit+1 and 2^62-1 with and "
        "without FIN on in-limit, beyond-limit and wrong-direction streams, RESET_STREAM finals, "
        "MAX_STREAM_DATA/STREAM_DATA_BLOCKED/STOP_SENDING on every stream kind, interleaved with acks, timers "
        "and the endpoint's own MAX_* updates. A reference controller (RFC 9000 section 4) fed only with limits the "
        "endpoint put on the wire decides the verdict: the endpoint must close with a matching error exactly "
        "when a limit is exceeded and never accuse a compliant peer. Repetition menus (up to 700 frames) "
        "measure CRYPTO reassembly, path challenges, connection-ID retirements and stream buffers against "
        "the advertised/documented bounds; a grid of 1-3 NEW_CONNECTION_ID frames (sequence numbers 8..10 x Retire Prior To) at a victim "
        "that is exactly full is judged by a five-line reference of the active-ID set.",
        "Depth 2 (full alphabet) / 3 (core) quick, 3 / 4 thorough, both roles. Frames on streams the endpoint "
        "may have discarded are not judged; a FIN/RESET below already received data may be accepted or rejected.",
        "DESIGN.md §4 C07",
    ),
    "C08": (
        "model_checking",
        "explicit-state BFS over the real QuicPacketRecovery + Reno/CUBIC objects (component) and deviation-bounded DFS with a wire/ledger monitor on real connections",
        "(i) BFS over send/ack(every range set incl. never-sent and already-acked numbers)/time advance/loss "
        "timer/PTO/space discard on the real recovery and congestion-control objects, 1-3 spaces, Reno and "
        "CUBIC, depth 4-7, 1.4 M (quick) / 8.5 M (thorough) distinct concrete states; after every call: "
        "bytes_in_flight == sum of tracked in-flight packets >= 0, each delivery handler fired at most once, "
        "nothing fires after discard, congestion_window >= 2 datagrams. (ii) on real connection pairs "
        "(bulk/early/multi-stream/Retry/Version Negotiation/big chain) every schedule with <= d deviations: "
        "in-flight bytes put on the independently decrypted wire per datagrams_to_send() call <= window minus "
        "bytes in flight (+1 datagram per probe timeout), and the same ledger equality after every API call.",
        "Component space does not close (floats): depth bound is the stated bound. Wire part d<=1 quick, d<=2 "
        "thorough on the small scripts.",
        "DESIGN.md §4 C08",
    ),
    "C09": (
        "model_checking",
        "stateless deviation-bounded DFS over two real endpoints (NetSim) with a timer/termination monitor",
        "close() is inserted at every position of two base scripts on either endpoint (before the first "
        "flight is answered, mid-handshake, with data outstanding), plus simultaneous closes and idle "
        "periods; every schedule with at most d deviations (drop, duplicate, delay, late timers) runs to "
        "termination of both endpoints, the harness honouring get_timer() also after termination. After "
        "every API call the monitor requires a finite deadline while alive, a closing deadline within 3 PTO "
        "of the start of closing, termination when that timer fires, exactly one ConnectionTerminated, only "
        "CONNECTION_CLOSE packets in at most one batch, and silence afterwards. These are safety/liveness "
        "claims over schedules; exhaustive bounded-deviation search is what covers them.",
        "d<=1 on all scenarios, d<=2 on a rotating subset (quick) / all v1 scenarios (thorough). Endings the handshake itself decides "
        "(no common version after Version Negotiation, no common ALPN, untrusted certificate) are explored at d<=1. Other fatal "
        "protocol errors and peer closes in each packet-number space are reached by the PeerBot checks, not "
        "here. PTO at closing start is read from the recovery object.",
        "DESIGN.md §4 C09",
    ),
    "C11": (
        "model_checking",
        "explicit-state BFS (history replay) + exhaustive sequence enumeration of the real tls.Context against a key-holding adversary",
        "A key-holding adversary built on an independent TLS 1.3 implementation (reftls, from RFC 8446) drives "
        "the real tls.Context: every handshake state x every message kind (state x type table), BFS to "
        "closure over canonical context states per variant (full, PSK offered/selected/never-offered, "
        "certificate request, server with/without client-cert request), and every ordering of every "
        "sub-multiset of the server and client flights with correct MACs over the transcript as accepted. "
        "Oracle: RFC 8446 next-message table (wrong type => unexpected_message alert, no state change, no "
        "keys), completion only along legal authentic flights, key-release ledger. The property quantifies "
        "over all states x all orderings; these spaces are finite and are enumerated completely.",
        "quick: 584-cell table, closure of 5 variants, 326/16 orderings x CertificateVerify strengths + a "
        "seed-selected 1/16 slice of multiplicity-2 sequences; thorough: all multiplicity<=2 sequences "
        "(length <= 7). 0-RTT worlds excluded; HelloRetryRequest only required to be harmless when refused; "
        "the QUIC-level confirmation is covered by C03/C05 worlds. `cryptography` primitives are trusted.",
        "DESIGN.md §4 C11",
    ),
    "C12": (
        "model_checking",
        "stateless deviation-bounded DFS over two real endpoints (NetSim) with a wire-level ACK monitor",
        "Every ACK frame found on the independently decrypted wire is compared with the simulator's record "
        "of genuine packets delivered to that endpoint in that packet-number space (soundness); every "
        "ack-eliciting 1-RTT packet carrying a new largest number must be covered by an ACK-bearing packet "
        "leaving within the advertised 25 ms when the harness fired that endpoint's timers punctually, and "
        "Initial/Handshake ones by the next transmission in the space. All schedules with <= d deviations "
        "(loss of data, of ACKs and of ACK-of-ACK carriers, duplicates, reordering via delay, late timers), "
        "pacing left enabled (the test-suite disables it).",
        "d<=1 on 7 scripts x 1-2 configs, d<=2 on small scripts, d<=3 on two (thorough). Packets that were "
        "delivered but could not be decrypted by the endpoint count as delivered (sound direction only).",
        "DESIGN.md §4 C12",
    ),
    "C13": (
        "model_checking",
        "stateless deviation-bounded DFS over two real endpoints (NetSim) with a size/amplification monitor",
        "Every datagram handed out by datagrams_to_send() in every explored schedule is measured: <= the "
        "sender's max_datagram_size; >= 1200 bytes when it carries a client Initial or an ack-eliciting "
        "server Initial (packet types/frames from the independent refquic decryption); per server and "
        "remote address, bytes sent <= 3 x bytes received until a Handshake packet or a PATH_RESPONSE "
        "echoing a challenge from that address has been delivered. Scenarios: max_datagram_size pairs x "
        "certificate chains (1-3 certs, padded RSA) x handshake/echo/early bulk/server close/migration, "
        "with drop, duplicate, delay, client rebinding, spoofed-source replay and late timers.",
        "d<=1 everywhere, d<=2 on a subset; mds grid {1200,1201,1250,1350,1472,1500}^2 complete in thorough, a "
        "seed-selected ninth in quick. Scenarios in which the server is left alone with its probe timeouts while unvalidated "
        "(hs_silence) and the receive-without-transmit deviation found the unpadded server Initial under a small budget (repaired, 7cc06e7).",
        "DESIGN.md §4 C13",
    ),
    "C14": (
        "model_checking",
        "explicit-state BFS with state merging over all chunk boundaries of real H3Connection receivers (history replay), plus exhaustive order-preserving interleaving enumeration",
        "Stream byte strings are produced by a real sending H3Connection (44 request/response/push/"
        "WebTransport/blocked-on-encoder/GREASE shapes, plus invalid streams cut by FIN). For every stream a BFS "
        "explores every chunk size at every position with FIN attached or alone, merging states on all "
        "H3Stream fields + connection fields + normal form so far, so ALL splittings are covered in O(n^2) "
        "transitions; the encoder stream and a dynamic-table message are explored jointly (all splittings x "
        "all interleavings); 2-3 streams cut into <=3 chunks are merged in every order-preserving way. "
        "Oracle: every path reaches the normal form (header blocks, body bytes, trailers, push promises, "
        "WebTransport bytes, end-of-stream per stream, close code) of the one-delivery run, which equals what "
        "was submitted to the sending API.",
        "Streams up to ~100 bytes; pylsqpack decoder state assumed to be a function of the bytes fed (the "
        "unmerged interleaving enumeration does not rely on it); empty non-FIN deliveries and random long "
        "streams not covered. One known finding (1xx interim responses).",
        "DESIGN.md §4 C14",
    ),
    "C15": (
        "exploration",
        "exhaustive enumeration of header lists over a boundary-byte alphabet through a literal-only QPACK encoder, against an independent validator",
        "Field sections built by an independent literal QPACK encoder (refh3, so arbitrary bytes reach the "
        "decoder) are fed to real H3Connections for six message kinds (request, response, request/response "
        "trailers, push promise, pushed response): every name and value of length <=3 (quick) / <=4 (thorough) "
        "over the 13 boundary bytes as regular header and after ':', all 256 single bytes, every pseudo-header "
        "sequence of length <=4/5 over 7 symbols with a regular header at every position, and 16 content-length "
        "spellings x body sizes {0,n-1,n,n+1} x 7 framings x 5 deliveries. An independent three-valued "
        "validator implementing exactly the rule list of the statement decides: rule broken => "
        "H3_MESSAGE_ERROR and no event; no rule broken => the event with exactly those headers; where the "
        "statement is silent either outcome passes.",
        "Bounds on name/value length and sequence length as stated; pylsqpack is the decoder under test "
        "together with aioquic. Spellings of content-length that are not 1*DIGIT are not judged.",
        "DESIGN.md §4 C15",
    ),
    "C16": (
        "model_checking",
        "BFS with state merging (history replay on freshly connected real QuicConnection pairs) over a finite menu of hostile HTTP/3 / HTTP/0.9 stream messages x chunkings",
        "H3Connection/H0Connection sit on a connected real QuicConnection pair. After each valid prefix (none, "
        "SETTINGS, + complete request, + request blocked on the encoder stream), in both roles and with qlog "
        "on/off, every message of a ~3600-entry menu (12 frame types x 8 length lies on request/control/push "
        "streams, SETTINGS/MAX_PUSH_ID/GOAWAY/CANCEL_PUSH/PUSH_PROMISE payload variants, 4096-byte names, 10^4 "
        "headers, truncated varints, every QPACK instruction first byte x short tails on encoder/decoder "
        "streams, WebTransport, duplicate critical streams, datagrams; H0 request lines) is delivered whole, "
        "byte-wise with a lone FIN, and split inside every varint, to depth 2 (quick) / 3 (thorough). "
        "Oracle: handle_event returns a list; after a close the code is an H3 ErrorCode, datagrams_to_send "
        "returns, and the real peer decrypts a CONNECTION_CLOSE carrying that code.",
        "Below level 1 a partial-order reduction follows a message that changed only its own stream with "
        "same-stream messages only. Thorough H3 part has a 540 s budget; a level that cannot finish is "
        "reported as a cap.",
        "DESIGN.md §4 C16",
    ),
    "C17": (
        "exploration",
        "exhaustive enumeration of finite value/byte-string grammars against an independent codec (refcodec)",
        "Integers at every encoding boundary, all 65,536 two-byte strings through pull_uint_var, all 1023 ACK "
        "range sets over {0..9} x bases x delays, all 441 CID-length pairs x token lengths x packet types x "
        "versions, Retry/Version Negotiation, transport-parameter singletons/pairs(/triples) at varint "
        "boundaries, the 8 TLS messages with every optional-extension subset: push(v) must equal the "
        "independent encoder byte for byte and pull(push(v)) == v; for every length field lied about "
        "({0,1,true-1,true+1,max}) and every prefix, decoding must raise the documented error or yield a "
        "re-encodable value, and a strict nested-length reference decoder flags reads past an enclosing "
        "declared length. The property is about all inputs of wire codecs; boundary-complete finite grammars "
        "enumerated exhaustively are the model-checking reading of it.",
        "Random 62/64-bit values and random bodies are not covered (sampling). Out-of-domain integers "
        "(push_uint8(256)) are recorded, not judged. `cryptography` AES-GCM is trusted for the Retry tag.",
        "DESIGN.md §4 C17",
    ),
    "C18": (
        "model_checking",
        "explicit-state BFS with history replay over connection-ID moves of a key-holding peer, oracle on the decrypted wire",
        "Both roles of a real endpoint, from a state that knows only peer CID 0 and from the ordinary connected "
        "state: NEW_CONNECTION_ID(seq, retire-prior-to) for seq 0..5 (duplicates and any order arise from the "
        "BFS), RETIRE_CONNECTION_ID for issued/current/unknown numbers, the peer switching to another issued "
        "CID, source address change, local change_connection_id(), ack-all, packet-threshold loss of the "
        "newest CID-bearing packet, PTO; states merged on a digest of the CID bookkeeping. Oracle on the wire: "
        "DCID sequence >= delivered retire-prior-to on every later packet, every abandoned ID announced in a "
        "RETIRE_CONNECTION_ID that is eventually acknowledged (again after loss), never more peer IDs kept "
        "than advertised (or CONNECTION_ID_LIMIT_ERROR), never more active issued IDs than the peer allows, "
        "a PING to every issued unretired CID is acknowledged, a replacement follows each retirement.",
        "Alphabet size is traded against depth: full (38 moves) depth 2-3, medium (17) depth 3-5, small (9) "
        "depth 4-6. Routing in asyncio/server.py is C19's world.",
        "DESIGN.md §4 C18",
    ),
    "C19": (
        "model_checking",
        "stateless deviation-bounded DFS over the real asyncio adapter on a virtual event loop (select() is the choice point)",
        "QuicServer and one or two QuicConnectionProtocol clients run on VLoop, an asyncio.BaseEventLoop whose "
        "real _run_once scheduling is kept and whose select() is the single choice point (deliver oldest "
        "datagram / another / drop / duplicate / let the timeout elapse / burst / spoofed replay). 26-30 "
        "scenarios (echo over 1-2 streams, parallel pings, wait_connected twice, close from either side at "
        "each await point, idle timeout, CID change, key update, retry on/off, two clients, write before "
        "connected); every schedule with <= d deviations is executed on fresh objects. Oracle: reader bytes == "
        "writer bytes + EOF, every waiter finishes exactly once, routing table maps every issued unretired CID "
        "and nothing after termination, the connection ID a live state was created through keeps leading to it (no second state), "
        "retry tokens bound to the source address, no exception in callbacks.",
        "d<=1 on 21 scenarios and d<=2 on 5 (quick); d<=2 on 24 and d<=3 on 5 (thorough). Timers firing late "
        "are not explored; a nanosecond stutter guard models a real loop's progress on a frozen clock.",
        "DESIGN.md §4 C19",
    ),
    "C10": (
        "model_checking",
        "explicit-state BFS to closure over the real stream/RangeSet objects vs reference model",
        "Every operation sequence over streams of bounded length (every (offset,len,fin) frame, every "
        "final size, every write/get_frame(max_size,max_offset)/ack/loss/reset) is explored to "
        "state-space closure on the real QuicStreamReceiver, QuicStreamSender and RangeSet objects, "
        "each transition compared with an offset->byte map / pending-set reference. The statement is a "
        "conformance claim over histories; closure of a bounded instance is the strongest exhaustive "
        "statement available and catches every shortcut that depends on buffer/range layout.",
        "Bounds: receiver L=5 (quick) / 8 (thorough); sender L=4 / 5 (+L=6 with <=2 outstanding); RangeSet "
        "universe 7 / 9. Frame contents are the true stream bytes; each frame delivered at most once; "
        "get_frame not called after reset. Long random sequences on large streams are not covered.",
        "DESIGN.md §4 C10",
    ),
    "C20": (
        "exploration",
        "exhaustive paired execution: every scenario/schedule/input of the C01, C05 and C16 menus replayed with logging off and on, observations compared",
        "The same choice list / input is executed on fresh objects under {qlog off,on} x {secrets log off,on} "
        "and compared with the all-off run: C01's scripts x configs plus Retry/Version Negotiation scenarios "
        "under the default schedule and EVERY single-deviation schedule; C05's raw and frame menus (plus "
        "packet-level inputs: reserved bits, key phase, duplicate/stale packet numbers) chained on PeerBot "
        "states; C16's hostile HTTP/3 stream menu and 88 end-to-end header cases through real H3Connections. "
        "Compared per API call: exception-or-not, datagram sizes/destinations/times, frames of every packet "
        "(independently decrypted), popped events, get_timer(); at the end a projection of connection, "
        "recovery and stream state. With qlog on json.dumps(to_dict()) must succeed and packet_sent / "
        "packet_received record counts must equal the packets seen leaving / taken into frame processing.",
        "Random fields (CIDs, challenges) are compared by length and first-appearance order. The hostile TLS "
        "message / transport-parameter menu of C05 is replayed at depth 1 with the qlog off and on (outcome and serialisability). Inputs outside the C helpers' memory contract are skipped "
        "in every setting (none on the repaired tree).",
        "DESIGN.md §4 C20",
    ),
}

NOT_YET = {}


def main():
    props = [json.loads(l) for l in open(os.path.join(VERIF, "properties.jsonl"))]
    ids = [p["id"] for p in props]
    extra = {}
    p = os.path.join(VERIF, "tools", "manifest_extra.json")
    if os.path.exists(p):
        extra = json.load(open(p))
    checks = []
    for pid in ids:
        if pid not in CHECKS:
            continue
        cat, tech, text, note, ref = CHECKS[pid]
        import re
        m = re.search(r'^LEVEL\s*=\s*"(\w+)"', open(os.path.join(VERIF, "checks", pid.lower() + ".py")).read(), re.M)
        if m:
            cat = m.group(1)   # the evidence file is written with the module's LEVEL
        checks.append(
            {
                "property_id": pid,
                "quick_cmd": "./check %s --tier quick" % pid,
                "thorough_cmd": "./check %s --tier thorough" % pid,
                "evidence_file": "/verif/evidence/%s.json" % pid,
                "replay_cmd_template": "./check %s --replay {path}" % pid,
                "engine": "vlib",
                "level_claimed": {"category": cat, "text": text, "design_ref": ref},
                "level_note": note,
                "technique": tech,
            }
        )
    na = []
    for pid in ids:
        if pid not in CHECKS:
            na.append(
                {
                    "property_id": pid,
                    "reason": NOT_YET.get(
                        pid,
                        "check not built yet in this session (design in DESIGN.md §4); nothing is claimed",
                    ),
                }
            )
    man = {
        "version": 1,
        "setup_cmd": "./setup.sh",
        "hooks": {
            "guard": "AIOQUIC_VERIF",
            "enable": "no source hooks: checks import /repo/src live, build _crypto.c/_buffer.c "
            "themselves into /verif/.cache and observe through the public API, the decrypted wire "
            "and attribute reads; seams are applied from the harness process only",
            "baseline_off_cmd": BASELINE_OFF,
            "source_commits": [],
            "add_only": True,
        },
        "engines": [
            {
                "name": "vlib",
                "path": "/verif/vlib",
                "serves_properties": sorted(CHECKS),
                "kind_free_text": "hand-written explorers over the real Python/C code: explicit-state "
                "BFS with canonical hashing (deep-copy or history replay), stateless deviation-bounded "
                "DFS over a simulated network/event loop, exhaustive grammar enumeration; independent "
                "reference codecs/crypto (refquic/reftls/refh3) as oracles",
            }
        ],
        "checks": checks,
        "not_applicable": na,
        "notes": "All checks explore the implementation itself (every explored trace is an "
        "implementation trace). See DESIGN.md.",
    }
    out = os.path.join(VERIF, "MANIFEST.json")
    with open(out, "w") as f:
        json.dump(man, f, indent=1)
        f.write("\n")
    r = subprocess.run(
        [
            "python3-vt",
            "-c",
            "import json,jsonschema,sys;"
            "jsonschema.validate(json.load(open('%s')),json.load(open('/root/.vp/MANIFEST.schema.json')));"
            "print('MANIFEST valid: %d checks, %d not_applicable')" % (out, len(checks), len(na)),
        ]
    )
    sys.exit(r.returncode)


if __name__ == "__main__":
    main()
