#!/bin/bash
# Offline setup: build the C helpers (plain + sanitizer flavour) from /repo's current
# sources, the libcrypto shim, and the harness certificates into /verif/.cache.
cd "$(dirname "$(readlink -f "$0")")"
export PYTHONHASHSEED=0 PYTHONDONTWRITEBYTECODE=1
/venv/bin/python -m vlib.setup || exit 1
