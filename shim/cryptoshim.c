/*
 * libcrypto argument shim for the sanitizer world (C04).
 *
 * aioquic's _crypto.c hands pointers into Python `bytes` objects and into its
 * own scratch buffers to OpenSSL.  OpenSSL is not instrumented, so an
 * out-of-bounds range that is only ever touched *inside* libcrypto (the
 * 16-byte header-protection sample, the AEAD tag, keys and IVs) is invisible
 * to AddressSanitizer.  This library is LD_PRELOADed after the ASan runtime,
 * interposes the EVP entry points the helper uses, asks ASan whether every
 * byte of every in/out range is addressable, and only then forwards to the
 * real function.
 *
 * The real functions are resolved with dlopen("libcrypto.so.3") + dlsym:
 * libcrypto enters the process later, through the extension's own dlopen, so
 * RTLD_NEXT finds nothing at the time the shim is first called.
 *
 * Only calls whose return address lies in a module whose file name contains
 * "_crypto" (aioquic's helper) are checked; everybody else (libssl, hashlib,
 * pyOpenSSL) is forwarded untouched.
 *
 * Reporting.  Every finding is appended to an in-memory log that the worker
 * reads through cryptoshim_take() (ctypes).  What happens next depends on the
 * access kind:
 *   - poisoned *input* range (OpenSSL would only read it): in mode 1 (default)
 *     the call is NOT forwarded and 0 ("OpenSSL call failed") is returned, so
 *     the process survives and the worker sees the logged finding; in mode 2
 *     the process exits with code 79 straight away.
 *   - poisoned *output* range: always fatal (exit 79) - forwarding would
 *     corrupt the heap, not forwarding would hide what the helper does next.
 * CRYPTOSHIM_MODE=2 in the environment selects mode 2 (used for replays).
 */
#define _GNU_SOURCE
#include <dlfcn.h>
#include <stdio.h>
#include <stdlib.h>
#include <string.h>
#include <stdarg.h>
#include <unistd.h>

typedef struct evp_cipher_ctx_st EVP_CIPHER_CTX;
typedef struct evp_cipher_st EVP_CIPHER;
typedef struct engine_st ENGINE;

/* provided by the ASan runtime when it is preloaded; absent otherwise */
extern void *__asan_region_is_poisoned(void *beg, size_t size) __attribute__((weak));

/* ASan debugging interface: which object does an address belong to?  Needed
 * because "not poisoned" is not enough: a stray range can start *behind* the red
 * zone, inside a neighbouring live object or in the not yet mapped tail of the
 * allocator region (shadow 0, access faults), which would make detection depend
 * on the heap layout. */
extern const char *__asan_locate_address(void *addr, char *name, size_t name_size, void **region_address,
                                         size_t *region_size) __attribute__((weak));

#define SHIM_EXIT_CODE 79
#define EVP_CTRL_AEAD_SET_IVLEN 0x9
#define EVP_CTRL_AEAD_GET_TAG 0x10
#define EVP_CTRL_AEAD_SET_TAG 0x11

static int (*real_CipherUpdate)(EVP_CIPHER_CTX *, unsigned char *, int *, const unsigned char *, int);
static int (*real_CipherInit_ex)(EVP_CIPHER_CTX *, const EVP_CIPHER *, ENGINE *, const unsigned char *,
                                 const unsigned char *, int);
static int (*real_CipherFinal_ex)(EVP_CIPHER_CTX *, unsigned char *, int *);
static int (*real_EncryptUpdate)(EVP_CIPHER_CTX *, unsigned char *, int *, const unsigned char *, int);
static int (*real_DecryptUpdate)(EVP_CIPHER_CTX *, unsigned char *, int *, const unsigned char *, int);
static int (*real_CTX_ctrl)(EVP_CIPHER_CTX *, int, int, void *);
static int (*real_CTX_key_length)(const EVP_CIPHER_CTX *);
static int (*real_CTX_iv_length)(const EVP_CIPHER_CTX *);
static int (*real_CIPHER_key_length)(const EVP_CIPHER *);
static int (*real_CIPHER_iv_length)(const EVP_CIPHER *);
static int (*real_CTX_block_size)(const EVP_CIPHER_CTX *);

static int shim_mode = 1;
static size_t heap_space_lo = 0, heap_space_hi = 0; /* ASan primary allocator space */
static int shim_ready = 0;

static char shim_log[4096];
static size_t shim_log_len = 0;
static unsigned long shim_reports = 0;
/* cumulative number of reports, never reset; exported so that the worker can
 * poll it with a plain memory read (ctypes in_dll) after every helper call */
unsigned long cryptoshim_report_count = 0;
static unsigned long shim_checked = 0;   /* ranges actually examined */
static unsigned long shim_calls = 0;     /* interposed calls from the helper */

static void *must_sym(void *h, const char *name, const char *alt)
{
    void *p = dlsym(h, name);
    if (p == NULL && alt != NULL)
        p = dlsym(h, alt);
    if (p == NULL) {
        fprintf(stderr, "CRYPTOSHIM: cannot resolve %s\n", name);
        _exit(70);
    }
    return p;
}

static void shim_init(void)
{
    if (shim_ready)
        return;
    void *h = dlopen("libcrypto.so.3", RTLD_NOW | RTLD_GLOBAL);
    if (h == NULL) {
        fprintf(stderr, "CRYPTOSHIM: dlopen(libcrypto.so.3) failed: %s\n", dlerror());
        _exit(70);
    }
    real_CipherUpdate = must_sym(h, "EVP_CipherUpdate", NULL);
    real_CipherInit_ex = must_sym(h, "EVP_CipherInit_ex", NULL);
    real_CipherFinal_ex = must_sym(h, "EVP_CipherFinal_ex", NULL);
    real_EncryptUpdate = must_sym(h, "EVP_EncryptUpdate", NULL);
    real_DecryptUpdate = must_sym(h, "EVP_DecryptUpdate", NULL);
    real_CTX_ctrl = must_sym(h, "EVP_CIPHER_CTX_ctrl", NULL);
    real_CTX_key_length = must_sym(h, "EVP_CIPHER_CTX_get_key_length", "EVP_CIPHER_CTX_key_length");
    real_CTX_iv_length = must_sym(h, "EVP_CIPHER_CTX_get_iv_length", "EVP_CIPHER_CTX_iv_length");
    real_CIPHER_key_length = must_sym(h, "EVP_CIPHER_get_key_length", "EVP_CIPHER_key_length");
    real_CIPHER_iv_length = must_sym(h, "EVP_CIPHER_get_iv_length", "EVP_CIPHER_iv_length");
    real_CTX_block_size = must_sym(h, "EVP_CIPHER_CTX_get_block_size", "EVP_CIPHER_CTX_block_size");
    if (&__asan_locate_address != NULL) {
        /* the primary allocator owns one aligned 2^42-byte space (x86_64) */
        void *probe = malloc(24);
        size_t a = (size_t)probe;
        if (a >= ((size_t)1 << 42)) {
            heap_space_lo = a & ~(((size_t)1 << 42) - 1);
            heap_space_hi = heap_space_lo + ((size_t)1 << 42);
        }
        free(probe);
    }
    const char *m = getenv("CRYPTOSHIM_MODE");
    if (m != NULL && m[0] == '2')
        shim_mode = 2;
    shim_ready = 1;
}

/* is the caller aioquic's helper? */
static int from_helper(void *ret)
{
    Dl_info info;
    if (ret == NULL || dladdr(ret, &info) == 0 || info.dli_fname == NULL)
        return 0;
    const char *base = strrchr(info.dli_fname, '/');
    base = base ? base + 1 : info.dli_fname;
    return strstr(base, "_crypto") != NULL;
}

static void shim_report(int fatal, const char *fmt, ...)
{
    char line[400];
    va_list ap;
    va_start(ap, fmt);
    int n = vsnprintf(line, sizeof(line) - 2, fmt, ap);
    va_end(ap);
    if (n < 0)
        n = 0;
    if ((size_t)n > sizeof(line) - 2)
        n = sizeof(line) - 2;
    line[n++] = '\n';
    line[n] = 0;
    shim_reports++;
    cryptoshim_report_count++;
    if (shim_log_len + (size_t)n < sizeof(shim_log)) {
        memcpy(shim_log + shim_log_len, line, (size_t)n + 1);
        shim_log_len += (size_t)n;
    }
    if (fatal || shim_mode == 2) {
        /* one write(): the worker parses this line from the child's stderr */
        char out[440];
        int m = snprintf(out, sizeof(out), "CRYPTOSHIM-FATAL: %s", line);
        if (m > 0)
            (void)!write(2, out, (size_t)m);
        _exit(SHIM_EXIT_CODE);
    }
}

/* returns 0 when [p, p+len) is addressable, 1 after reporting otherwise */
static int bad_range(const char *func, const char *arg, const void *p, long len, int is_write)
{
    if (len <= 0 || &__asan_region_is_poisoned == NULL)
        return 0;
    shim_checked++;
    if (p == NULL) {
        shim_report(is_write, "%s.%s %s len=%ld NULL", func, arg, is_write ? "WRITE" : "READ", len);
        return 1;
    }
    char *bad = (char *)__asan_region_is_poisoned((void *)p, (size_t)len);
    if (bad != NULL) {
        shim_report(is_write, "%s.%s %s len=%ld poisoned_at=+%ld", func, arg, is_write ? "WRITE" : "READ", len,
                    (long)(bad - (const char *)p));
        return 1;
    }
    /* The shadow says "addressable".  That can be wrong in one situation: the
     * allocator maps its regions in 64 KiB granules and the shadow of the not yet
     * mapped rest is 0.  A range that lies in the same granule as the 256 bytes in
     * front of it is in mapped, properly poisoned memory (the argument object it
     * strayed from ends there); only ranges at a granule boundary need the slow
     * object lookup (it costs milliseconds). */
    if (&__asan_locate_address != NULL &&
        (((size_t)p + (size_t)len - 1) >> 16) != (((size_t)p - 256) >> 16)) {
        char name[32];
        void *ra = NULL;
        size_t rs = 0;
        const char *kind = __asan_locate_address((void *)p, name, sizeof(name), &ra, &rs);
        const char *q = (const char *)p;
        int stray = 0;
        if (kind != NULL && strcmp(kind, "heap") == 0) {
            const char *b = (const char *)ra;
            stray = ra == NULL || q < b || q + len > b + rs;
        } else if (kind != NULL && strcmp(kind, "heap-invalid") == 0) {
            /* no object known there: stray only if inside the allocator's own
             * address space (unallocated / unmapped part of a size-class region);
             * static objects of uninstrumented libraries also end up here */
            stray = heap_space_lo != 0 && (size_t)q >= heap_space_lo && (size_t)q < heap_space_hi;
        }
        {
            if (stray) {
                shim_report(is_write, "%s.%s %s len=%ld outside_heap_object", func, arg,
                            is_write ? "WRITE" : "READ", len);
                return 1;
            }
        }
    }
    return 0;
}

/* ----------------------------------------------------------------- control */

/* copy the pending report log into buf (NUL terminated) and clear it;
 * returns the number of reports since the last call */
unsigned long cryptoshim_take(char *buf, size_t size)
{
    unsigned long n = shim_reports;
    if (buf != NULL && size > 0) {
        size_t k = shim_log_len < size - 1 ? shim_log_len : size - 1;
        memcpy(buf, shim_log, k);
        buf[k] = 0;
    }
    shim_reports = 0;
    shim_log_len = 0;
    shim_log[0] = 0;
    return n;
}

unsigned long cryptoshim_checked(void) { return shim_checked; }
unsigned long cryptoshim_calls(void) { return shim_calls; }
int cryptoshim_has_asan(void) { return &__asan_region_is_poisoned != NULL; }
void cryptoshim_set_mode(int mode) { shim_mode = mode; }

/* self test used by the worker at start-up: a range that straddles the end of
 * a heap block must be reported as poisoned, the block itself must not */
int cryptoshim_selftest(void)
{
    if (&__asan_region_is_poisoned == NULL)
        return -1;
    volatile char *p = malloc(24);
    int ok = __asan_region_is_poisoned((void *)p, 24) == NULL &&
             __asan_region_is_poisoned((void *)p, 25) == (void *)(p + 24) &&
             __asan_region_is_poisoned((void *)(p + 20), 16) == (void *)(p + 24);
    free((void *)p);
    return ok ? 1 : 0;
}

/* -------------------------------------------------------------- interposers */

static int update_common(const char *name,
                         int (*real)(EVP_CIPHER_CTX *, unsigned char *, int *, const unsigned char *, int),
                         EVP_CIPHER_CTX *ctx, unsigned char *out, int *outl, const unsigned char *in, int inl,
                         void *ret)
{
    if (from_helper(ret)) {
        shim_calls++;
        int bad = 0;
        if (in != NULL || inl > 0)
            bad |= bad_range(name, "in", in, inl, 0);
        if (!bad && out != NULL) {
            /* stream/AEAD modes write exactly inl bytes; block modes at most
             * inl + block_size - 1 rounded down to whole blocks */
            long n = inl;
            int bs = real_CTX_block_size(ctx);
            if (bs > 1)
                n = ((long)inl + bs - 1) / bs * bs;
            bad |= bad_range(name, "out", out, n, 1);
        }
        if (!bad && outl != NULL)
            bad |= bad_range(name, "outl", outl, (long)sizeof(int), 1);
        if (bad)
            return 0;
    }
    return real(ctx, out, outl, in, inl);
}

int EVP_CipherUpdate(EVP_CIPHER_CTX *ctx, unsigned char *out, int *outl, const unsigned char *in, int inl)
{
    shim_init();
    return update_common("EVP_CipherUpdate", real_CipherUpdate, ctx, out, outl, in, inl,
                         __builtin_return_address(0));
}

int EVP_EncryptUpdate(EVP_CIPHER_CTX *ctx, unsigned char *out, int *outl, const unsigned char *in, int inl)
{
    shim_init();
    return update_common("EVP_EncryptUpdate", real_EncryptUpdate, ctx, out, outl, in, inl,
                         __builtin_return_address(0));
}

int EVP_DecryptUpdate(EVP_CIPHER_CTX *ctx, unsigned char *out, int *outl, const unsigned char *in, int inl)
{
    shim_init();
    return update_common("EVP_DecryptUpdate", real_DecryptUpdate, ctx, out, outl, in, inl,
                         __builtin_return_address(0));
}

int EVP_CipherFinal_ex(EVP_CIPHER_CTX *ctx, unsigned char *out, int *outl)
{
    shim_init();
    if (from_helper(__builtin_return_address(0))) {
        shim_calls++;
        int bad = 0;
        if (out != NULL) {
            int bs = real_CTX_block_size(ctx);
            bad |= bad_range("EVP_CipherFinal_ex", "out", out, bs > 1 ? bs : 0, 1);
        }
        if (!bad && outl != NULL)
            bad |= bad_range("EVP_CipherFinal_ex", "outl", outl, (long)sizeof(int), 1);
        if (bad)
            return 0;
    }
    return real_CipherFinal_ex(ctx, out, outl);
}

int EVP_CipherInit_ex(EVP_CIPHER_CTX *ctx, const EVP_CIPHER *cipher, ENGINE *impl, const unsigned char *key,
                      const unsigned char *iv, int enc)
{
    shim_init();
    if (from_helper(__builtin_return_address(0))) {
        shim_calls++;
        int bad = 0;
        if (key != NULL) {
            int kl = cipher != NULL ? real_CIPHER_key_length(cipher) : real_CTX_key_length(ctx);
            bad |= bad_range("EVP_CipherInit_ex", "key", key, kl, 0);
        }
        if (!bad && iv != NULL) {
            int il = cipher != NULL ? real_CIPHER_iv_length(cipher) : real_CTX_iv_length(ctx);
            bad |= bad_range("EVP_CipherInit_ex", "iv", iv, il, 0);
        }
        if (bad)
            return 0;
    }
    return real_CipherInit_ex(ctx, cipher, impl, key, iv, enc);
}

int EVP_CIPHER_CTX_ctrl(EVP_CIPHER_CTX *ctx, int type, int arg, void *ptr)
{
    shim_init();
    if (from_helper(__builtin_return_address(0))) {
        shim_calls++;
        int bad = 0;
        if (type == EVP_CTRL_AEAD_SET_TAG && ptr != NULL)
            bad |= bad_range("EVP_CIPHER_CTX_ctrl", "set_tag", ptr, arg, 0);
        else if (type == EVP_CTRL_AEAD_GET_TAG)
            bad |= bad_range("EVP_CIPHER_CTX_ctrl", "get_tag", ptr, arg, 1);
        if (bad)
            return 0;
    }
    return real_CTX_ctrl(ctx, type, arg, ptr);
}
