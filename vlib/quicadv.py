"""quicadv - QUIC-level key-holding TLS adversaries against ONE real QuicConnection.

`reftls` supplies the TLS brain (key exchange, transcript, MACs, signatures), `refquic` the
packet protection.  Nothing of aioquic's codec or crypto is used to build what the victim
receives; the victim is only touched through its public sans-IO API.

    QuicServerAdversary   plays the server towards a real *client* QuicConnection (created like
                          netsim.make_configs does).  It opens the client's first flight, extracts
                          the ClientHello from the Initial CRYPTO frames, completes the key
                          exchange itself and can then send ANY sequence of TLS messages in
                          CRYPTO frames inside correctly protected Initial / Handshake / 1-RTT
                          packets.
    QuicClientAdversary   plays the client towards a real *server* QuicConnection (created as
                          QuicServer does, from the Initial's DCID): hostile ClientHello variants
                          in a padded >= 1200-byte Initial, hostile client flights in Handshake
                          packets, post-handshake messages in 1-RTT packets.
    Victim                the real endpoint + the sans-IO contract loop + the API-totality drive.

Transport parameters are encoded here (`enc_tp`), independently of aioquic, as a list of
(id, raw value bytes) so that every lie about them is expressible.
"""
from . import certs, core, netsim, refquic, reftls as R

V1, V2 = refquic.V1, refquic.V2
C_ADDR, S_ADDR = netsim.C_ADDR, netsim.S_ADDR
ADV_SCID = bytes([0xAD]) * 8          # the adversary's own connection ID
ADV_DCID = bytes([0xDC]) * 8          # original DCID chosen by the client adversary

# transport parameter ids (RFC 9000 18.2, RFC 9368, RFC 9221)
TP_ODCID = 0x00
TP_MAX_IDLE_TIMEOUT = 0x01
TP_STATELESS_RESET_TOKEN = 0x02
TP_MAX_UDP_PAYLOAD_SIZE = 0x03
TP_INITIAL_MAX_DATA = 0x04
TP_MAX_STREAM_DATA_BIDI_LOCAL = 0x05
TP_MAX_STREAM_DATA_BIDI_REMOTE = 0x06
TP_MAX_STREAM_DATA_UNI = 0x07
TP_MAX_STREAMS_BIDI = 0x08
TP_MAX_STREAMS_UNI = 0x09
TP_ACK_DELAY_EXPONENT = 0x0A
TP_MAX_ACK_DELAY = 0x0B
TP_DISABLE_ACTIVE_MIGRATION = 0x0C
TP_PREFERRED_ADDRESS = 0x0D
TP_ACTIVE_CID_LIMIT = 0x0E
TP_ISCID = 0x0F
TP_RETRY_SCID = 0x10
TP_VERSION_INFORMATION = 0x11
TP_MAX_DATAGRAM_FRAME_SIZE = 0x20
TP_INT_IDS = (0x01, 0x03, 0x04, 0x05, 0x06, 0x07, 0x08, 0x09, 0x0A, 0x0B, 0x0E, 0x20)


def varint(v, size=None):
    """QUIC variable-length integer (RFC 9000 section 16)."""
    return refquic.enc_varint(v, size)


def enc_tp(items):
    """Transport parameters from a list of (id, raw value bytes) - order and repetition kept."""
    return b"".join(varint(i) + varint(len(v)) + v for i, v in items)


def server_tp(odcid, scid=ADV_SCID, version=None):
    """A valid server transport-parameter list for a connection whose first Initial had DCID odcid."""
    items = [
        (TP_ODCID, odcid), (TP_MAX_IDLE_TIMEOUT, varint(60000)), (TP_MAX_UDP_PAYLOAD_SIZE, varint(65527)),
        (TP_INITIAL_MAX_DATA, varint(1048576)), (TP_MAX_STREAM_DATA_BIDI_LOCAL, varint(1048576)),
        (TP_MAX_STREAM_DATA_BIDI_REMOTE, varint(1048576)), (TP_MAX_STREAM_DATA_UNI, varint(1048576)),
        (TP_MAX_STREAMS_BIDI, varint(128)), (TP_MAX_STREAMS_UNI, varint(128)),
        (TP_ACK_DELAY_EXPONENT, varint(3)), (TP_MAX_ACK_DELAY, varint(25)),
        (TP_ACTIVE_CID_LIMIT, varint(8)), (TP_ISCID, scid),
    ]
    if version is not None:
        items.append((TP_VERSION_INFORMATION, version.to_bytes(4, "big") + V1.to_bytes(4, "big") + V2.to_bytes(4, "big")))
    return items


def client_tp(scid=ADV_SCID, version=None):
    """A valid client transport-parameter list."""
    items = [x for x in server_tp(b"", scid, version) if x[0] != TP_ODCID]
    return items


def tp_replace(items, pid, value):
    """Copy of a TP list with the value of `pid` replaced (appended when absent)."""
    out = [(i, value if i == pid else v) for i, v in items]
    if not any(i == pid for i, _ in items):
        out.append((pid, value))
    return out


def tp_without(items, pid):
    return [(i, v) for i, v in items if i != pid]


# ------------------------------------------------------------------------ victim
class Victim:
    """One real QuicConnection and the caller's side of the sans-IO contract."""

    def __init__(self, conn, peer_addr, now=1000.0):
        self.conn = conn
        self.peer_addr = peer_addr
        self.now = now
        self.events = []
        self.sent = []            # datagrams handed out by datagrams_to_send
        self.terminated = None
        self.handshake_completed = False

    def pump(self):
        """datagrams_to_send + drain events (what a caller does after every API call)."""
        out = [d for d, _ in self.conn.datagrams_to_send(now=self.now)]
        self.sent += out
        while True:
            ev = self.conn.next_event()
            if ev is None:
                break
            self.events.append(ev)
            n = type(ev).__name__
            if n == "ConnectionTerminated":
                self.terminated = ev
            elif n == "HandshakeCompleted":
                self.handshake_completed = True
        return out

    hold = False   # True: datagrams arrive back-to-back, the caller has not got round to transmitting yet

    def feed(self, data):
        """receive_datagram + contract loop; returns the datagrams the victim emitted."""
        self.conn.receive_datagram(data, self.peer_addr, now=self.now)
        if self.hold:
            return []
        return self.pump()

    def timer(self):
        t = self.conn.get_timer()
        if t is None:
            return None
        self.now = max(self.now, t)
        self.conn.handle_timer(now=self.now)
        return self.pump()

    @property
    def closing(self):
        return self.terminated is not None or self.conn._state.name in ("CLOSING", "DRAINING", "TERMINATED")

    def drive_to_end(self, max_timers=8):
        """API-totality oracle: keep honouring the timer until termination is reported (or
        max_timers firings); every call must return normally.  Exceptions propagate."""
        n = 0
        while self.terminated is None and n < max_timers:
            if self.conn.get_timer() is None:
                break
            self.timer()
            n += 1
        self.conn.get_timer()
        self.conn.datagrams_to_send(now=self.now)
        self.conn.next_event()
        return n


def _crypto_from(datagrams, ptype, keys, cid_len=8, largest=-1):
    """Open every packet of `ptype` in the datagrams with `keys`; returns (reassembled CRYPTO
    stream bytes, list of opened Pkt, largest pn, all frames)."""
    chunks = {}
    pkts = []
    frames_all = []
    for data in datagrams:
        ps, _ = refquic.split_datagram(data, cid_len)
        for p in ps:
            if p.type != ptype:
                continue
            res = refquic.unprotect(data, p, keys, largest + 1)
            if res is None:
                continue
            _, pn, _, pt, _ = res
            largest = max(largest, pn)
            pkts.append(p)
            for f in refquic.parse_frames(pt):
                frames_all.append(f)
                if f["t"] == "CRYPTO":
                    chunks[f["off"]] = f["data"]
    out = bytearray()
    for off in sorted(chunks):
        if off > len(out):
            break
        out[off:off + len(chunks[off])] = chunks[off]
    return bytes(out), pkts, largest, frames_all


class _AdvBase:
    """Packet plumbing shared by both adversaries."""

    def __init__(self, version):
        self.version = version
        self.keys = {}            # epoch -> refquic.Keys used to SEND
        self.rkeys = {}           # epoch -> refquic.Keys used to OPEN what the victim sends
        self.pn = {"initial": 0, "handshake": 0, "1rtt": 0}
        self.off = {"initial": 0, "handshake": 0, "1rtt": 0}     # CRYPTO stream offsets
        self.largest = {"initial": -1, "handshake": -1, "1rtt": -1}
        self.victim = None
        self.dcid = b""           # destination CID of our packets (the victim's source CID)
        self.scid = ADV_SCID

    def _suite_name(self):
        return refquic.TLS_SUITE_IDS[self.tls.cipher_suite]

    def packet(self, epoch, frames=None, payload=None, pad_to=None, token=b""):
        """One protected packet of `epoch` carrying `frames` (dicts for refquic.enc_frames) or a raw
        payload; pad_to pads the *payload* with PADDING so that the packet reaches that size."""
        k = self.keys.get(epoch)
        if k is None:
            raise core.HarnessError("adversary has no %s keys yet" % epoch)
        if payload is None:
            payload = refquic.enc_frames(frames)
        pn = self.pn[epoch]
        self.pn[epoch] += 1
        if epoch == "1rtt":
            return refquic.build_short(self.dcid, pn, 2, payload, k)
        if pad_to:
            probe = refquic.build_long(self.version, epoch, self.dcid, self.scid, pn, 2, payload, k, token=token)
            if len(probe) < pad_to:
                payload = payload + bytes(pad_to - len(probe))
        return refquic.build_long(self.version, epoch, self.dcid, self.scid, pn, 2, payload, k, token=token)

    def crypto_frames(self, epoch, data, split=None, reverse=False):
        """CRYPTO frame dicts carrying `data` at the current stream offset of `epoch`; split = list of
        cut positions inside data (each piece its own frame); reverse = later pieces first."""
        base = self.off[epoch]
        cuts = [0] + sorted(set(c for c in (split or []) if 0 < c < len(data))) + [len(data)]
        frames = [{"t": "CRYPTO", "off": base + a, "data": data[a:b]} for a, b in zip(cuts, cuts[1:])]
        self.off[epoch] += len(data)
        if reverse:
            frames.reverse()
        return frames

    def send_tls(self, epoch, data, split=None, reverse=False, pad_to=None, per_packet=1100, separate=False):
        """Send TLS bytes in CRYPTO frame(s) of `epoch` (several packets/datagrams if large).
        separate=True puts every CRYPTO frame into its own datagram.  Returns what the victim
        emitted."""
        frames = self.crypto_frames(epoch, data, split, reverse)
        out = []
        groups = [[f] for f in frames] if separate else [frames]
        for group in groups:
            # chop frames that exceed a packet
            flat = []
            for f in group:
                d = f["data"]
                for i in range(0, max(1, len(d)), per_packet):
                    flat.append({"t": "CRYPTO", "off": f["off"] + i, "data": d[i:i + per_packet]})
            cur, size = [], 0
            for f in flat:
                if cur and size + len(f["data"]) > per_packet:
                    out += self.victim.feed(self.packet(epoch, cur, pad_to=pad_to))
                    cur, size = [], 0
                cur.append(f)
                size += len(f["data"]) + 8
            if cur:
                out += self.victim.feed(self.packet(epoch, cur, pad_to=pad_to))
        return out

    def open_victim(self, datagrams, epoch):
        """CRYPTO bytes the victim sent in `epoch` packets of these datagrams (needs rkeys)."""
        k = self.rkeys.get(epoch)
        if k is None:
            return b""
        data, _, self.largest[epoch], _ = _crypto_from(datagrams, epoch, k, largest=self.largest[epoch])
        return data


# ------------------------------------------------------------- server adversary
class QuicServerAdversary(_AdvBase):
    """Key-holding hostile SERVER for a real client.

        adv = QuicServerAdversary(cfg={...netsim cfg...}, chain="ed25519")
        adv.legal("SH"); adv.legal("EE"); ...          # legal prefix, transcript advanced
        adv.send_tls("handshake", raw_bytes)           # anything, correctly protected
        adv.victim.drive_to_end()

    `adv.tls` is the reftls.ServerAdversary (make()/accepted()/transcript/ks); `adv.tp` the valid
    transport-parameter list used for EncryptedExtensions (see `ee(tp_items=...)`).
    """

    EPOCH_OF = {"SH": "initial", "HRR": "initial", "EE": "handshake", "CR": "handshake", "CERT": "handshake",
                "CV": "handshake", "FIN": "handshake", "NST": "1rtt"}
    KIND_OF = {"SH": "server_hello", "EE": "encrypted_extensions", "CR": "certificate_request",
               "CERT": "certificate", "CV": "certificate_verify", "FIN": "finished", "NST": "new_session_ticket"}

    def __init__(self, cfg=None, chain="ed25519", leaf_key=None, chain_der=None, ticket_handler=True,
                 now=1000.0):
        from aioquic.quic.connection import QuicConnection

        full = dict(netsim.DEFAULT_CFG)
        full.update(cfg or {})
        self.cfg = full
        super().__init__(full["version"])
        c_cfg, _ = netsim.make_configs(full)
        if full.get("qlog"):
            from aioquic.quic.logger import QuicLogger

            c_cfg.quic_logger = QuicLogger()
        self.tickets = []
        conn = QuicConnection(configuration=c_cfg,
                              session_ticket_handler=self.tickets.append if ticket_handler else None)
        self.victim = Victim(conn, S_ADDR, now)
        conn.connect(S_ADDR, now=now)
        first = self.victim.pump()
        ps, _ = refquic.split_datagram(first[0], 8)
        self.odcid = ps[0].dcid
        self.dcid = ps[0].scid
        cs, ss = refquic.initial_secrets(self.version, self.odcid)
        self.keys["initial"] = refquic.Keys("aes128", ss, self.version)
        self.rkeys["initial"] = refquic.Keys("aes128", cs, self.version)
        ch = self.open_victim(first, "initial")
        self.client_hello_raw = R.split_messages(ch, allow_partial=True)[0][0]
        if chain_der is None:
            with open(certs.path(chain + ".pem"), "rb") as f:
                chain_der = R.load_pem_chain(f.read())
            with open(certs.path(chain + ".key"), "rb") as f:
                leaf_key = R.load_pem_key(f.read())
        with open(certs.path("spare.key"), "rb") as f:
            spare = R.load_pem_key(f.read())
        self.tp = server_tp(self.odcid, self.scid)
        alpn = full["alpn"][0] if full["alpn"] else None
        self.tls = R.ServerAdversary(chain_der, leaf_key, spare, alpn=alpn,
                                     ee_extensions=[(R.EXT_QUIC_TRANSPORT_PARAMETERS, enc_tp(self.tp))])
        self.tls.receive_client_hello(self.client_hello_raw)
        self.client_hello = self.tls.client_hello

    # -- keys follow the adversary's own key schedule
    def _rekey(self):
        ks = self.tls.ks
        if ks is None:
            return
        suite = self._suite_name()
        if ks.server_hs is not None and "handshake" not in self.keys:
            self.keys["handshake"] = refquic.Keys(suite, ks.server_hs, self.version)
            self.rkeys["handshake"] = refquic.Keys(suite, ks.client_hs, self.version)
        if ks.server_ap is not None and "1rtt" not in self.keys:
            self.keys["1rtt"] = refquic.Keys(suite, ks.server_ap, self.version)
            self.rkeys["1rtt"] = refquic.Keys(suite, ks.client_ap, self.version)

    def accepted(self, raw):
        """Tell the TLS brain the victim took `raw` (transcript + key schedule + packet keys)."""
        self.tls.accepted(raw)
        self._rekey()

    def make(self, label, **kw):
        """Well-formed message by label (SH, EE, CR, CERT, CV, FIN, NST, or a reftls kind)."""
        return self.tls.make(self.KIND_OF.get(label, label), **kw)

    def legal(self, label, **kw):
        """Send the legal message `label` in its proper epoch and advance the transcript.
        Returns what the victim emitted."""
        raw = self.make(label, **kw)
        out = self.send_tls(self.EPOCH_OF[label], raw)
        self.accepted(raw)
        if label == "FIN":
            # the client's Finished comes back in a Handshake packet
            data = self.open_victim(out, "handshake")
            if data:
                self.tls.receive_client_flight(data)
        return out

    def prefix(self, labels):
        for lab in labels:
            self.legal(lab)
            if self.victim.closing:
                raise core.HarnessError("victim closed during the legal prefix at %s: %r"
                                        % (lab, self.victim.terminated))
        return self

    def ee(self, tp_items="default", alpn="default", extra=(), drop_tp=False):
        """EncryptedExtensions with chosen transport parameters / ALPN payload (raw bytes or None)."""
        exts = []
        if alpn == "default":
            if self.tls.alpn is not None:
                exts.append((R.EXT_ALPN, R.ext_alpn([self.tls.alpn])))
        elif alpn is not None:
            exts.append((R.EXT_ALPN, alpn))
        if not drop_tp:
            items = self.tp if tp_items == "default" else tp_items
            exts.append((R.EXT_QUIC_TRANSPORT_PARAMETERS, items if isinstance(items, bytes) else enc_tp(items)))
        return R.EncryptedExtensions(exts + list(extra)).encode()


# ------------------------------------------------------------- client adversary
class QuicClientAdversary(_AdvBase):
    """Key-holding hostile CLIENT for a real server.

        adv = QuicClientAdversary(cfg={...})
        adv.hello()                         # legal ClientHello in a padded Initial; opens the reply
        adv.send_tls("handshake", raw)      # hostile client flight
        adv.legal_finished(); adv.send_tls("1rtt", raw)

    `adv.tls` is the reftls.ClientAdversary; `hello(raw=...)` sends any ClientHello bytes instead.
    server_cls lets the caller substitute a QuicConnection subclass (e.g. one that requests a
    client certificate).
    """

    def __init__(self, cfg=None, server_cls=None, now=1000.0, offer_psk=None, cert=True):
        from aioquic.quic.connection import QuicConnection

        full = dict(netsim.DEFAULT_CFG)
        full.update(cfg or {})
        self.cfg = full
        super().__init__(full["version"])
        _, s_cfg = netsim.make_configs(full)
        if full.get("qlog"):
            from aioquic.quic.logger import QuicLogger

            s_cfg.quic_logger = QuicLogger()
        self.odcid = ADV_DCID
        self.dcid = ADV_DCID
        conn = (server_cls or QuicConnection)(configuration=s_cfg, original_destination_connection_id=self.odcid)
        self.victim = Victim(conn, C_ADDR, now)
        cs, ss = refquic.initial_secrets(self.version, self.odcid)
        self.keys["initial"] = refquic.Keys("aes128", cs, self.version)
        self.rkeys["initial"] = refquic.Keys("aes128", ss, self.version)
        self.tp = client_tp(self.scid)
        chain = leaf = spare = None
        if cert:
            with open(certs.path("ed25519.pem"), "rb") as f:
                chain = R.load_pem_chain(f.read())
            with open(certs.path("ed25519.key"), "rb") as f:
                leaf = R.load_pem_key(f.read())
            with open(certs.path("spare.key"), "rb") as f:
                spare = R.load_pem_key(f.read())
        self.tls = R.ClientAdversary("localhost", alpn=list(full["alpn"]) if full["alpn"] else None,
                                     extensions=[(R.EXT_QUIC_TRANSPORT_PARAMETERS, enc_tp(self.tp))],
                                     cert_chain=chain, leaf_key=leaf, other_key=spare, offer_psk=offer_psk,
                                     groups=(R.GROUP_X25519, R.GROUP_SECP256R1))
        self.server_flight = None

    def hello(self, raw=None, split=None, reverse=False, separate=False):
        """Send a ClientHello (legal unless raw is given) in padded Initial packet(s); when the
        server answers, complete the key exchange and install Handshake / 1-RTT keys.
        Returns what the victim emitted."""
        legal = raw is None
        if raw is None:
            raw = self.tls.make("client_hello")
        out = self.send_tls("initial", raw, split=split, reverse=reverse, pad_to=1200, separate=separate)
        if self.victim.closing or not out:
            return out
        try:
            self._open_flight(raw, out)
        except (R.DecodeError, ValueError, KeyError, IndexError) as e:
            if legal:
                raise core.HarnessError("cannot open the server's flight: %r" % (e,))
        return out

    def _open_flight(self, ch_raw, out):
        ps, _ = refquic.split_datagram(out[0], 8)
        self.dcid = ps[0].scid            # the server's chosen CID
        initial = self.open_victim(out, "initial")
        sh_raw = R.split_messages(initial, allow_partial=True)[0][0]
        sh = R.parse_message(sh_raw)
        group, skey = R.parse_ext_key_share_server(sh.ext(R.EXT_KEY_SHARE))
        hn = R.CIPHER_SUITES[sh.cipher_suite][0]
        shared = R.dh_shared(self.tls.dh_privates[group], group, skey)
        psk = self.tls.offer_psk["psk"] if (sh.ext(R.EXT_PRE_SHARED_KEY) is not None and self.tls.offer_psk) else None
        ks = R.KeySchedule(sh.cipher_suite, psk)
        ks.handshake(shared, R.transcript_hash(hn, [ch_raw, sh_raw]))
        suite = refquic.TLS_SUITE_IDS[sh.cipher_suite]
        self.rkeys["handshake"] = refquic.Keys(suite, ks.server_hs, self.version)
        self.keys["handshake"] = refquic.Keys(suite, ks.client_hs, self.version)
        hs = self.open_victim(out, "handshake")
        self.tls.transcript = []
        self.tls.accepted(ch_raw)
        self.server_flight = self.tls.receive_server_flight(sh_raw, hs, b"")
        k = self.tls.ks
        if k.server_ap is not None:
            self.rkeys["1rtt"] = refquic.Keys(suite, k.server_ap, self.version)
            self.keys["1rtt"] = refquic.Keys(suite, k.client_ap, self.version)

    def make(self, kind, **kw):
        return self.tls.make(kind, **kw)

    def legal(self, kind, **kw):
        """Send a legal client-flight message (certificate / certificate_verify / finished) in a
        Handshake packet and advance the transcript."""
        raw = self.tls.make(kind, **kw)
        out = self.send_tls("handshake", raw)
        self.tls.accepted(raw)
        return out

    def ch(self, extensions=None, **fields):
        """A ClientHello derived from the legal one: `extensions` replaces the extension list,
        other keyword arguments replace dataclass fields (random, cipher_suites, ...)."""
        m = R.parse_message(self.tls.make("client_hello"))
        if extensions is not None:
            m.extensions = list(extensions)
        for k, v in fields.items():
            setattr(m, k, v)
        return m
