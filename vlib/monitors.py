"""Wire/behaviour monitors for NetSim worlds (C08-ii, C09, C12, C13)."""
from . import netsim
from .netsim import Violation

EPS = 1e-9


def _end_states(conn):
    return conn._state.name in ("CLOSING", "DRAINING", "TERMINATED")


# ============================================================================ C13
class SizeMonitor(netsim.Monitor):
    """Datagram size, Initial padding, anti-amplification (observed from outside)."""

    def attach(self, w):
        self.internal_budget = None
        self._sent_in_call = 0
        self.rx = {}          # (endpoint, remote addr) -> bytes passed to receive_datagram
        self.tx = {}          # (endpoint, remote addr) -> bytes handed out for sending
        self.validated = set()  # (endpoint, remote addr)
        self.challenges = {}  # (endpoint, addr) -> set of PATH_CHALLENGE data sent there
        self.validated.add(("c", netsim.S_ADDR))  # a client chose its server address

    def before_send(self, w, ep):
        # for the SIGNATURE only: the endpoint's own view of its remaining anti-amplification
        # budget (it may credit less than was delivered, e.g. for discarded duplicates)
        self.internal_budget = None
        paths = ep.conn._network_paths
        if paths and not paths[0].is_validated:
            self.internal_budget = 3 * paths[0].bytes_received - paths[0].bytes_sent

    def on_deliver(self, w, ep, d, addr):
        key = (ep.name, addr)
        self.rx[key] = self.rx.get(key, 0) + len(d.data)
        if d.kind in ("genuine", "dup"):
            for r in d.recs:
                if not r.opened:
                    continue
                if r.type == "handshake":
                    self._pending_validation = key
                for f in r.frames or []:
                    if f["t"] == "PATH_RESPONSE":
                        # RFC 9000 8.2.3: a PATH_RESPONSE received on ANY path validates the path on which
                        # the matching PATH_CHALLENGE was sent - and only that one
                        for (en, a), datas in self.challenges.items():
                            if en == ep.name and f["data"] in datas:
                                self._pending_validation = (en, a)

    def after_pump(self, w, ep, cause, sent, new_events, timer):
        # a delivered Handshake packet / matching PATH_RESPONSE validates the address
        # *before* anything sent in response is counted
        pv = getattr(self, "_pending_validation", None)
        if pv is not None and pv[0] == ep.name:
            self.validated.add(pv)
            self._pending_validation = None
        mds = w.cfg["c_mds"] if ep.name == "c" else w.cfg["s_mds"]
        self._sent_in_call = 0
        for d, addr in sent:
            n = len(d.data)
            self._sent_in_call += n
            if n > mds:
                raise Violation(
                    {"monitor": "size.exceeds_max_datagram_size", "endpoint": ep.name},
                    "%s emitted a %d-byte datagram, max_datagram_size is %d" % (ep.name, n, mds),
                )
            for r in d.recs:
                if r.type == "initial" and r.opened:
                    if ep.name == "c" and n < 1200:
                        raise Violation(
                            {"monitor": "size.client_initial_below_1200"},
                            "client datagram with an Initial packet is %d bytes" % n,
                        )
                    if ep.name == "s" and r.ack_eliciting and n < 1200:
                        k0 = (ep.name, addr)
                        budget = 3 * self.rx.get(k0, 0) - self.tx.get(k0, 0)
                        raise Violation(
                            {"monitor": "size.server_ack_eliciting_initial_below_1200",
                             "amplification_budget_below_1200": (k0 not in self.validated and budget < 1200)
                             or (self.internal_budget is not None and self.internal_budget - (self._sent_in_call - n) < 1200)},
                            "server datagram with an ack-eliciting Initial packet (pn %d, frames %s) is %d bytes"
                            % (r.pn, [f["t"] for f in r.frames], n),
                        )
                for f in r.frames or []:
                    if f["t"] == "PATH_CHALLENGE":
                        self.challenges.setdefault((ep.name, addr), set()).add(f["data"])
            key = (ep.name, addr)
            self.tx[key] = self.tx.get(key, 0) + n
            if ep.name == "s" and key not in self.validated:
                if self.tx[key] > 3 * self.rx.get(key, 0):
                    raise Violation(
                        {"monitor": "amplification", "phase": "handshake" if not ep.hs_done else "migration",
                         "closing": _end_states(ep.conn)},
                        "server sent %d bytes to unvalidated %s after receiving %d from it (limit %d)"
                        % (self.tx[key], addr, self.rx.get(key, 0), 3 * self.rx.get(key, 0)),
                    )


# ============================================================================ C09
def independent_pto(conn):
    """Probe timeout computed from the RTT estimator fields (RFC 9002 6.2.1), NOT through the
    library's get_probe_timeout(): smoothed_rtt + max(4*rttvar, granularity) + max_ack_delay."""
    loss = conn._loss
    if not loss._rtt_initialized:
        return 2 * loss._rtt_initial
    return loss._rtt_smoothed + max(4 * loss._rtt_variance, 0.001) + loss.max_ack_delay


class TimerMonitor(netsim.Monitor):
    """A live connection always names a finite timer; closing always terminates once."""

    def attach(self, w):
        self.closing = {}     # endpoint -> (t_start, pto_at_start)
        self.term_count = {"c": 0, "s": 0}
        self.close_batches = {"c": 0, "s": 0}
        self.last_rx = {}
        self.activity = {}    # endpoint -> (time of last new genuine packet processed or
        #                       ack-eliciting packet sent, independent PTO then)
        self.seen_dgrams = {"c": set(), "s": set()}
        self.sent_since_rx = {}
        self.rx_time = {"c": {}, "s": {}}     # (packet type, pn) -> first delivery time
        self.rx_last_unacked = {"c": {}, "s": {}}   # (packet type, pn) -> latest delivery before the endpoint acked it
        self.acked_first = {"c": {}, "s": {}}       # (packet type, pn) -> when the endpoint first acknowledged it
        self.processed_late = {"c": None, "s": None}
        self.processed = {"c": None, "s": None}  # delivery time of the latest packet the endpoint ACKNOWLEDGED

    def before_api(self, w, ep, name):
        if name == "close" and ep.terminated is None and not _end_states(ep.conn):
            self.close_called = getattr(self, "close_called", {})
            self.close_called.setdefault(ep.name, (w.now, independent_pto(ep.conn)))

    def on_deliver(self, w, ep, d, addr):
        self.last_rx[ep.name] = w.now
        # a duplicate of a datagram already delivered is not activity
        for r in d.recs or ():
            if r.opened and r.pn is not None:
                key = (r.type if r.type != "0rtt" else "1rtt", r.pn)
                self.rx_time[ep.name].setdefault(key, w.now)
                if key not in self.acked_first[ep.name]:
                    # not acknowledged so far: if the endpoint acknowledges it later, THIS delivery may be the one
                    # it processed (an earlier copy can have been dropped for want of keys)
                    self.rx_last_unacked[ep.name][key] = w.now
        fp = hash(d.data)
        if d.kind in ("genuine", "dup") and fp not in self.seen_dgrams[ep.name]:
            self.seen_dgrams[ep.name].add(fp)
            self._new_rx = ep.name

    def after_pump(self, w, ep, cause, sent, new_events, timer):
        conn = ep.conn
        name = ep.name
        n_term = sum(1 for e in new_events if type(e).__name__ == "ConnectionTerminated")
        # ---- idle deadline: termination by idle timeout must come no later than
        #      (last activity + negotiated idle period), activity = a new genuine packet
        #      delivered or an ack-eliciting packet sent (RFC 9000 10.1)
        idle = max(min(w.cfg["idle"], w.cfg["idle"]), 3 * independent_pto(conn))
        if getattr(self, "_new_rx", None) == name:
            self._new_rx = None
            self.activity[name] = (w.now, idle)
            self.sent_since_rx[name] = False
        if any(r.ack_eliciting for d, a in sent for r in d.recs if r.opened):
            # RFC 9000 10.1: sending restarts the idle timer only for the FIRST ack-eliciting packet since the
            # last packet that was received and processed - retransmissions into a black hole do not keep
            # the connection alive
            if not self.sent_since_rx.get(name):
                self.activity[name] = (w.now, idle)
            self.sent_since_rx[name] = True
        # what the endpoint acknowledges it has "received and processed successfully" (RFC 9000 10.1: that
        # restarts the idle timer)
        for d, a in sent:
            for r in d.recs:
                for f in (r.frames or ()) if r.opened else ():
                    if f["t"] == "ACK":
                        rt = self.rx_time[name]
                        for lo, hi in f["ranges"]:
                            for pn in range(max(lo, hi - 64), hi + 1):
                                t = rt.get((r.type, pn))
                                if t is not None and (self.processed[name] is None or t > self.processed[name]):
                                    self.processed[name] = t
                                if t is not None and (r.type, pn) not in self.acked_first[name]:
                                    self.acked_first[name][(r.type, pn)] = w.now
                                    tl = self.rx_last_unacked[name].get((r.type, pn), t)
                                    if self.processed_late[name] is None or tl > self.processed_late[name]:
                                        self.processed_late[name] = tl
        if n_term and name not in self.closing and self.processed[name] is not None:
            ev = [e for e in new_events if type(e).__name__ == "ConnectionTerminated"][0]
            if ev.reason_phrase == "Idle timeout" and w.now < self.processed[name] + w.cfg["idle"] - 1e-6:
                raise Violation(
                    {"monitor": "idle.terminated_early", "client_rebound": w.client_addr != netsim.C_ADDR},
                    "%s: idle termination at %.6f although it acknowledged a packet delivered at %.6f and the "
                    "negotiated idle period is %.3f s (no idle deadline before %.6f)"
                    % (name, w.now - w.t0, self.processed[name] - w.t0, w.cfg["idle"],
                       self.processed[name] + w.cfg["idle"] - w.t0))
        if n_term and name in self.activity and name not in self.closing:
            ev = [e for e in new_events if type(e).__name__ == "ConnectionTerminated"][0]
            t_act, idle_then = self.activity[name]
            if self.processed_late[name] is not None and self.processed_late[name] > t_act:
                # a packet that the endpoint could only process at a later delivery (its first copy arrived before
                # the keys did) counts from the delivery at which it was acknowledged for the first time
                t_act = self.processed_late[name]
            if ev.reason_phrase == "Idle timeout" and w.now > t_act + idle_then + 0.025 + ep.timer_late \
                    and not ep.was_late:
                raise Violation(
                    {"monitor": "idle.terminated_late"},
                    "%s: idle termination at %.6f but the last activity was at %.6f and the idle period "
                    "is %.3f s (deadline %.6f)" % (name, w.now - w.t0, t_act - w.t0, idle_then,
                                                  t_act + idle_then - w.t0))
        if ep.terminated is not None:
            already = self.term_count[name]
            self.term_count[name] += n_term
            if self.term_count[name] > 1:
                raise Violation({"monitor": "close.terminated_twice"},
                                "%s reported ConnectionTerminated %d times" % (name, self.term_count[name]))
            # nothing may follow the termination event
            idx = [i for i, e in enumerate(new_events) if type(e).__name__ == "ConnectionTerminated"]
            after = new_events[idx[0] + 1:] if idx else (new_events if already else [])
            if after:
                raise Violation({"monitor": "close.event_after_termination",
                                 "event": type(after[0]).__name__},
                                "%s delivered %s after ConnectionTerminated" % (name, type(after[0]).__name__))
            if sent and (already or not idx):
                raise Violation({"monitor": "close.sends_after_termination"},
                                "%s emitted %d datagrams after terminating" % (name, len(sent)))
            if name in self.closing:
                t0, pto = self.closing[name]
                if idx and w.now > t0 + 3 * pto + w.ep[name].timer_late + 0.021 and cause == "handle_timer":
                    pass  # lateness is the harness's (late timer deviation); deadline checked below
            return
        # ---- still alive: there must be a finite timer
        if timer is None or timer != timer or timer in (float("inf"), float("-inf")):
            raise Violation({"monitor": "timer.none_while_alive", "state": conn._state.name},
                            "%s: get_timer() returned %r in state %s after %s"
                            % (name, timer, conn._state.name, cause))
        closing_now = _end_states(conn)
        cc = getattr(self, "close_called", {}).get(name)
        if cc is not None and not closing_now:
            raise Violation({"monitor": "close.not_started_after_close_call"},
                            "%s: close() was called at %.6f but after %s the connection is still %s and names "
                            "deadline %.6f (3 PTO would be %.6f)"
                            % (name, cc[0] - w.t0, cause, conn._state.name, timer - w.t0, cc[0] + 3 * cc[1] - w.t0))
        if closing_now and name not in self.closing:
            pto = independent_pto(conn)
            self.closing[name] = (w.now, pto)
            if timer > w.now + 3 * pto + 1e-6:
                raise Violation({"monitor": "close.deadline_beyond_3pto"},
                                "%s started closing at %.6f with PTO %.6f but names deadline %.6f (> 3 PTO)"
                                % (name, w.now - w.t0, pto, timer - w.t0))
        if closing_now:
            t0, pto = self.closing[name]
            if timer > t0 + 3 * pto + 1e-6:
                raise Violation({"monitor": "close.deadline_beyond_3pto"},
                                "%s closing since %.6f (PTO %.6f) names deadline %.6f"
                                % (name, t0 - w.t0, pto, timer - w.t0))
            if cause == "handle_timer" and w.now >= timer:
                raise Violation({"monitor": "close.not_terminated_at_deadline"},
                                "%s: timer fired at %.6f >= deadline %.6f but no termination"
                                % (name, w.now - w.t0, timer - w.t0))
        # closing packets: after closing started only CONNECTION_CLOSE (and padding) may leave
        if name in self.closing and sent:
            self.close_batches[name] += 1
            for d, addr in sent:
                for r in d.recs:
                    kinds = set(f["t"] for f in (r.frames or []))
                    if r.opened and not kinds <= {"CONNECTION_CLOSE", "PADDING"}:
                        raise Violation({"monitor": "close.non_closing_packet", "frames": sorted(kinds)},
                                        "%s sent %s after starting to close" % (name, sorted(kinds)))
            if self.close_batches[name] > 1:
                raise Violation({"monitor": "close.more_than_one_batch"},
                                "%s emitted closing packets in %d separate batches"
                                % (name, self.close_batches[name]))

    def at_end(self, w, outcome):
        for name in ("c", "s"):
            ep = w.ep[name]
            if ep.conn is None:
                continue
            if name in self.closing and ep.terminated is None and outcome != "horizon_ok":
                t0, pto = self.closing[name]
                if w.now > t0 + 3 * pto + 0.05:
                    raise Violation({"monitor": "close.never_terminated"},
                                    "%s started closing at %.3f (PTO %.3f) and has not terminated by %.3f"
                                    % (name, t0 - w.t0, pto, w.now - w.t0))


# ============================================================================ C12
class AckMonitor(netsim.Monitor):
    """ACK soundness (only delivered genuine packets) and timeliness."""

    MAX_ACK_DELAY = 0.025

    def attach(self, w):
        self.delivered = {}   # (receiver, space) -> set of pn delivered (genuine, authentic)
        self.largest = {}     # (receiver, space) -> largest pn delivered
        self.oblig = []       # [receiver, space, pn, deadline, done]
        self.next_tx = {}     # (receiver, space) -> pn that the next transmission in space must ack
        self.late = set()
        self.sent_phase = {"c": 0, "s": 0}    # key phase bit of the endpoint's latest 1-RTT packet
        self.local_ku = {"c": None, "s": None}  # phase bit the endpoint moved to by its OWN key update, until
        #                                         the peer has answered in that phase

    def on_deliver(self, w, ep, d, addr):
        if d.kind not in ("genuine", "dup"):
            return
        for r in d.recs:
            if not r.opened or r.epoch is None or r.pn is None:
                continue
            if r.type == "1rtt" and self.local_ku[ep.name] is not None:
                if r.key_phase == self.local_ku[ep.name]:
                    self.local_ku[ep.name] = None   # the peer has followed the update
                else:
                    # sent by the peer before it saw the update: protected with keys this endpoint may have
                    # discarded already (RFC 9001 6.5: retaining the old read keys is optional) - if it is
                    # dropped, that is packet loss, not a missing acknowledgement
                    self.delivered.setdefault((ep.name, r.epoch), set()).add(r.pn)
                    continue
            key = (ep.name, r.epoch)
            self.delivered.setdefault(key, set()).add(r.pn)
            if r.pn > self.largest.get(key, -1):
                self.largest[key] = r.pn
                if not r.ack_eliciting or ep.terminated is not None or _end_states(ep.conn):
                    continue
                if r.epoch == "A":
                    if ep.hs_done and r.type == "1rtt":
                        self.oblig.append([ep.name, r.pn, w.now + self.MAX_ACK_DELAY, False, w.now])
                else:
                    has_keys = True
                    if r.epoch == "H":
                        has_keys = ep.keylog is not None and "HANDSHAKE_TRAFFIC_SECRET" in ep.keylog.getvalue()
                    if has_keys:
                        self.next_tx[key] = r.pn

    def before_api(self, w, ep, name):
        if name == "request_key_update":
            self.local_ku[ep.name] = self.sent_phase[ep.name] ^ 1
        # an obligation is overdue when virtual time has passed its deadline and the
        # harness itself was punctual for that endpoint
        for o in self.oblig:
            if o[3] or w.ep[o[0]].was_late:
                continue
            if w.now > o[2] + 1e-6:
                e = w.ep[o[0]]
                if e.terminated is not None or _end_states(e.conn):
                    o[3] = True
                    continue
                o[3] = True
                sig = {"monitor": "ack.late"}
                extra = ""
                # RFC 9000 8.1 takes precedence: towards an address that is not validated yet an endpoint may
                # send at most three times what it received from it
                paths = getattr(e.conn, "_network_paths", None) or []
                if paths and not paths[0].is_validated:
                    budget = 3 * paths[0].bytes_received - paths[0].bytes_sent
                    if budget < 40:
                        continue   # not even a minimal ACK-only packet may be sent: no obligation
                    if budget < 128:
                        sig["amplification_budget"] = "below_ack_frame_reservation"
                        extra = (" [path not validated, anti-amplification budget %d bytes: a minimal ACK-only packet "
                                 "fits, the 64-byte ACK frame reservation plus packet overhead does not]" % budget)
                raise Violation(
                    sig,
                    "%s: ack-eliciting 1-RTT packet %d arrived at %.6f, no ACK covering it left by %.6f "
                    "(advertised max_ack_delay 25 ms); now %.6f%s"
                    % (o[0], o[1], o[4] - w.t0, o[2] - w.t0, w.now - w.t0, extra),
                )

    def after_pump(self, w, ep, cause, sent, new_events, timer):
        for d, addr in sent:
            spaces_in_dgram = {}
            for r in d.recs:
                if not r.opened or r.epoch is None:
                    continue
                if r.type == "1rtt" and r.key_phase is not None:
                    self.sent_phase[ep.name] = r.key_phase
                acked = None
                for f in r.frames or []:
                    if f["t"] == "ACK":
                        acked = set()
                        for lo, hi in f["ranges"]:
                            if lo < 0:
                                raise Violation({"monitor": "ack.negative_range"},
                                                "%s sent ACK with negative packet number" % ep.name)
                            if hi - lo > 100000:
                                acked = None
                                break
                            acked |= set(range(lo, hi + 1))
                        if acked is None:
                            continue
                        bad = acked - self.delivered.get((ep.name, r.epoch), set())
                        if bad:
                            raise Violation(
                                {"monitor": "ack.unsound", "space": r.epoch},
                                "%s acknowledged packet numbers %s in space %s that were never delivered to it"
                                % (ep.name, sorted(bad)[:8], r.epoch),
                            )
                        if r.epoch == "A":
                            for o in self.oblig:
                                if o[0] == ep.name and not o[3] and o[1] in acked:
                                    if w.now > o[2] + 1e-6 and not ep.was_late:
                                        raise Violation(
                                            {"monitor": "ack.late"},
                                            "%s: packet %d arrived %.6f, acknowledged only at %.6f (> 25 ms)"
                                            % (ep.name, o[1], o[4] - w.t0, w.now - w.t0))
                                    o[3] = True
                spaces_in_dgram.setdefault(r.epoch, []).append(acked)
            for space, acks in spaces_in_dgram.items():
                key = (ep.name, space)
                need = self.next_tx.get(key)
                if need is not None and space in ("I", "H"):
                    covered = any(a is not None and need in a for a in acks)
                    if not covered:
                        raise Violation(
                            {"monitor": "ack.handshake_space_not_acked", "space": space},
                            "%s transmitted in space %s without acknowledging received packet %d"
                            % (ep.name, space, need))
                    self.next_tx[key] = None


# ========================================================================= C08-ii
class CongestionMonitor(netsim.Monitor):
    """In-flight bytes on the wire per datagrams_to_send() call vs the window; ledger."""

    def attach(self, w):
        self.pto_fired = {"c": 0, "s": 0}
        self.pto_seen = {"c": 0, "s": 0}
        self.before = {}
        self.early_probe = {}
        from . import seams

        seams.watch_delivery_handlers()
        del seams.DELIVERED_TWICE[:]

    def before_api(self, w, ep, name):
        conn = ep.conn
        if name == "handle_timer":
            self.before[ep.name] = conn._loss._pto_count

    def before_send(self, w, ep):
        loss = ep.conn._loss
        self.win = (loss.congestion_window, loss.bytes_in_flight)
        b = self.before.pop(ep.name, None)
        if b is not None and loss._pto_count > b:
            self.pto_fired[ep.name] += 1
        elif (not getattr(ep.conn, "_handshake_complete", True) and getattr(ep.conn, "_probe_pending", False)
              and not self.early_probe.get(ep.name)):
            # RFC 9002 6.2.3: on duplicate CRYPTO data from the peer an endpoint may, once per connection, send
            # its unacknowledged CRYPTO data earlier than the PTO - a probe, not blocked by the congestion
            # controller (7.5); aioquic marks it with its probe flag
            self.early_probe[ep.name] = True
            self.pto_fired[ep.name] += 1

    def after_pump(self, w, ep, cause, sent, new_events, timer):
        from . import seams

        if seams.DELIVERED_TWICE:
            pn, epoch, ft, reports, hname = seams.DELIVERED_TWICE[0]
            del seams.DELIVERED_TWICE[:]
            raise netsim.Violation({"monitor": "recovery.frame_reported_twice", "handler": hname.lstrip("_")},
                                   "a frame (type 0x%x, handler %s) of packet %d (epoch %d) was reported %s to its owner "
                                   "(during %s of %s)" % (ft, hname, pn, epoch, " then ".join(reports), cause, ep.name))
        conn = ep.conn
        loss = conn._loss
        # ledger: bytes_in_flight equals the tracked in-flight packets
        tracked = 0
        for space in loss.spaces:
            for p in space.sent_packets.values():
                if p.in_flight:
                    tracked += p.sent_bytes
        if loss.bytes_in_flight != tracked or loss.bytes_in_flight < 0:
            raise Violation(
                {"monitor": "ledger.bytes_in_flight", "after": cause,
                 "retry": bool(w.cfg.get("retry")), "vn": bool(w.cfg.get("vn"))},
                "%s after %s: bytes_in_flight=%d but tracked in-flight packets total %d"
                % (ep.name, cause, loss.bytes_in_flight, tracked))
        mds = w.cfg["c_mds"] if ep.name == "c" else w.cfg["s_mds"]
        if loss.congestion_window < 2 * mds:
            raise Violation({"monitor": "cwnd.below_two_datagrams"},
                            "%s congestion window %d < 2 * %d" % (ep.name, loss.congestion_window, mds))
        if not sent:
            return
        cwnd, bif = self.win
        allowed = max(cwnd - bif, 0)
        wire = 0
        for d, addr in sent:
            dg_inflight = 0
            for r in d.recs:
                if r.opened and r.in_flight:
                    dg_inflight += r.size
            if dg_inflight:
                # datagram padding after the last packet is counted with the datagram
                wire += len(d.data) if any(r.type == "initial" for r in d.recs) else dg_inflight
        probes = self.pto_fired[ep.name] - self.pto_seen[ep.name]
        self.pto_seen[ep.name] = self.pto_fired[ep.name]
        budget = allowed + (mds if probes > 0 else 0)
        if wire > budget:
            raise Violation(
                {"monitor": "cwnd.exceeded", "after": cause, "probe": probes > 0},
                "%s after %s put %d in-flight bytes on the wire; window %d, in flight before %d "
                "(allowed %d, probe timeouts since last send %d)"
                % (ep.name, cause, wire, cwnd, bif, allowed, probes))
