"""Pairwise (2-wise) covering set of NetSim configurations, shared by the NetSim-based checks.

Many defects only show under a non-default but legal option, or under two options together
(0-RTT + Retry, CUBIC + idle period, rebinding + full window ...).  Every check that observes real
connections through a wire monitor (C01 delivery, C08 congestion, C09 timers, C12 acknowledgements,
C13 sizes) runs the SAME standard exchange under a set of configurations in which every pair of
option values of the table below occurs together at least once (deterministic greedy construction),
on the default schedule and with every single datagram dropped.
"""
import itertools

from . import netsim

V1, V2 = netsim.V1, netsim.V2

DIMS = (
    ("ver", ("v1", "v2", "compat", "vn")),
    ("cc", ("reno", "cubic")),
    ("retry", (False, True)),
    ("resume", ("fresh", "early_data")),
    ("suite", (None, "aes128", "aes256", "chacha20")),
    ("chain", ("ed25519", "p256", "rsa2048", "bigchain")),
    ("mds", ((1200, 1200), (1350, 1350), (1472, 1500), (1500, 1200))),
    ("win", ("default", "small")),
    ("lat", (0.01, 0.1)),
    ("rebind", (None, 0.15)),
    ("ku", (False, True)),
)


def _ok(combo):
    """constraints between options (combinations the worlds cannot express)"""
    d = dict(combo)
    if d.get("ver") == "vn" and d.get("retry"):
        return False  # the front end answers an Initial either with VN or with Retry first; keep them apart
    return True


def pairwise(seed=0):
    """-> list of dicts; every pair of (dimension, value) x (dimension, value) that satisfies _ok occurs."""
    names = [n for n, _ in DIMS]
    need = set()
    for (a, va), (b, vb) in itertools.combinations(DIMS, 2):
        for x in va:
            for y in vb:
                if _ok(((a, x), (b, y))):
                    need.add(((a, x), (b, y)))
    out = []
    rot = seed
    while need:
        combo = {}
        # greedy: pick per dimension the value covering most still-needed pairs with what is chosen
        order = names[rot % len(names):] + names[:rot % len(names)]
        rot += 1
        for n in order:
            vals = dict(DIMS)[n]
            best, best_gain = None, -1
            for k, v in enumerate(vals):
                trial = dict(combo)
                trial[n] = v
                if not _ok(tuple(trial.items())):
                    continue
                gain = 0
                for m, w in combo.items():
                    p = ((m, w), (n, v)) if names.index(m) < names.index(n) else ((n, v), (m, w))
                    if p in need:
                        gain += 1
                # deterministic tie-break rotating with the row number
                if gain > best_gain or (gain == best_gain and (k + len(out)) % len(vals) == 0):
                    best, best_gain = v, gain
            combo[n] = best
        covered = set()
        items = [(n, combo[n]) for n in names]
        for p in itertools.combinations(items, 2):
            if p in need:
                covered.add(p)
        if not covered:
            # finish the stragglers one by one
            p = sorted(need, key=repr)[0]
            combo = {n: dict(DIMS)[n][0] for n in names}
            combo[p[0][0]], combo[p[1][0]] = p[0][1], p[1][1]
            items = [(n, combo[n]) for n in names]
            covered = {q for q in itertools.combinations(items, 2) if q in need}
        need -= covered
        out.append(combo)
    # self-check: every admissible pair occurs
    have = set()
    for combo in out:
        items = [(n, combo[n]) for n in names]
        have.update(itertools.combinations(items, 2))
    for (a, va), (b, vb) in itertools.combinations(DIMS, 2):
        for x in va:
            for y in vb:
                if _ok(((a, x), (b, y))) and ((a, x), (b, y)) not in have:
                    raise AssertionError("pair %r not covered" % (((a, x), (b, y)),))
    return out


def label(combo):
    return ",".join("%s=%s" % (n, "x".join(str(x) for x in combo[n]) if isinstance(combo[n], tuple) else combo[n])
                    for n, _ in DIMS)


def cfg_of(combo):
    cfg = {"cc": combo["cc"], "retry": combo["retry"], "chain": combo["chain"], "latency": combo["lat"],
           "c_mds": combo["mds"][0], "s_mds": combo["mds"][1], "idle": 3.0}
    ver = combo["ver"]
    if ver == "v2":
        cfg["version"] = V2
    elif ver == "compat":
        cfg.update(version=V1, c_supported=[V2, V1], s_supported=[V2, V1])
    elif ver == "vn":
        cfg["vn"] = True
    if combo["suite"]:
        cfg["suite"] = combo["suite"]
    if combo["win"] == "small":
        cfg.update(c_max_data=2500, c_max_stream_data=2500, s_max_data=2500, s_max_stream_data=2500)
    if combo["rebind"] is not None:
        cfg["rebind_at"] = combo["rebind"]
    if combo["resume"] == "early_data":
        cfg["tickets"] = "obtain"
    return cfg


def W(sid, n, fin=False, g="hs"):
    return {"op": "w", "sid": sid, "n": n, "fin": fin, "g": g}


def script_of(combo):
    c = []
    if combo["resume"] == "early_data":
        c.append(W(4, 300, True, g="pre"))
    c.append(W(0, 5000))
    if combo["ku"]:
        c.append({"op": "ku", "g": ("rx", 1, 1)})
    c.append(W(0, 1000, True, g=("rx", 1, 1)))
    c.append({"op": "cid", "g": ("rx", 1, 3000)})
    c.append({"op": "ping", "uid": 7, "g": ("rx", 1, 3000)})
    s = [W(1, 5000, True, g=("rx", 0, 1))]
    if combo["ku"]:
        # (only the client updates keys here: an endpoint that has just FOLLOWED an update may not initiate the
        # next one before a packet of the new phase was acknowledged, RFC 9001 6.1 - that is the caller's duty)
        s.append(W(3, 200, True, g=("rx", 0, 6000)))
    return {"c": c, "s": s}


def scenarios(seed=0, dev=("drop",)):
    """{label: {"ops": script, "cfg": cfg, "dev": dev}}"""
    out = {}
    for combo in pairwise(seed):
        out["pairs|" + label(combo)] = {"ops": script_of(combo), "cfg": cfg_of(combo), "dev": dev}
    return out
