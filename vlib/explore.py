"""Explorers.

E2  bfs():  explicit-state breadth-first search over a real transition function.
E1  dfs_deviation(): stateless deviation-bounded depth-first search (CHESS-style
    iterative context bounding transposed to environment answers).
"""
import time

from . import core


# --------------------------------------------------------------------------- E2
class BfsResult:
    def __init__(self):
        self.states = 0
        self.transitions = 0
        self.max_depth = 0
        self.closed = False
        self.violations = []  # (sig, what, history)
        self.outcomes = set()
        self.samples = []


_EXPAND = {}


def _expand_chunk(args):
    name, chunk = args
    fn = _EXPAND[name]
    out = []
    for node in chunk:
        out.append(fn(node))
    return out


def _safe_chunk(args):
    import traceback

    try:
        return ("ok", _expand_chunk(args))
    except BaseException as e:  # noqa
        return ("err", "%s: %s\n%s" % (type(e).__name__, e, traceback.format_exc()))


def bfs(init_nodes, expand, max_depth=None, workers=1, name=None, max_states=None,
        time_cap=None):
    """Level-synchronous BFS.

    A node is (key, payload, history).  expand(node) returns a list of
    (label, key_or_None, payload, violation_or_None, outcome) for every enabled
    transition; key None = terminal / do not enqueue.  The *parent* process
    deduplicates on key, so the count of states is exact.  With workers > 1 the
    frontier is split into chunks expanded by forked workers (payloads must
    pickle).
    """
    res = BfsResult()
    seen = set()
    frontier = []
    for n in init_nodes:
        if n[0] not in seen:
            seen.add(n[0])
            frontier.append(n)
    res.states = len(frontier)
    depth = 0
    name = name or ("%s.%s" % (expand.__module__, expand.__qualname__))
    _EXPAND[name] = expand
    t0 = time.time()
    capped = None
    pool = None
    if workers > 1:
        import multiprocessing

        pool = multiprocessing.get_context("fork").Pool(workers)
    try:
        return _bfs_loop(res, seen, frontier, expand, name, max_depth, workers, pool,
                         max_states, time_cap, t0)
    finally:
        if pool is not None:
            pool.terminate()
            pool.join()


def _bfs_loop(res, seen, frontier, expand, name, max_depth, workers, pool, max_states,
              time_cap, t0):
    depth = 0
    capped = None
    while frontier:
        if max_depth is not None and depth >= max_depth:
            break
        if time_cap is not None and time.time() - t0 > time_cap:
            capped = "time cap %ss at depth %d" % (time_cap, depth)
            break
        if workers > 1 and len(frontier) >= 4 * workers:
            n = max(1, len(frontier) // (workers * 4))
            chunks = [frontier[i : i + n] for i in range(0, len(frontier), n)]
            parts = pool.map(_safe_chunk, [(name, c) for c in chunks])
            results = []
            for kind, val in parts:
                if kind != "ok":
                    raise core.HarnessError("bfs worker raised: " + val)
                results.extend(val)
        else:
            results = [expand(nd) for nd in frontier]
        nxt = []
        for node, succ in zip(frontier, results):
            for label, key, payload, viol, outcome in succ:
                res.transitions += 1
                if outcome is not None:
                    res.outcomes.add(outcome)
                hist = node[2] + [label]
                if viol is not None:
                    res.violations.append((viol[0], viol[1], hist))
                    continue
                if key is None or key in seen:
                    continue
                seen.add(key)
                nxt.append((key, payload, hist))
                if len(res.samples) < 3 and len(hist) >= 3:
                    res.samples.append(hist)
        depth += 1
        if nxt:
            res.max_depth = depth
        res.states += len(nxt)
        frontier = nxt
        if max_states is not None and res.states > max_states:
            capped = "state cap %d at depth %d" % (max_states, depth)
            break
    res.closed = not frontier and capped is None
    res.capped = capped
    return res


# --------------------------------------------------------------------------- E1
class Execution:
    """Record of one run of a world: the choices taken and the menu sizes."""

    __slots__ = ("choices", "points", "result")

    def __init__(self):
        self.choices = []
        self.points = []  # per choice point: (n_alternatives, cost list)
        self.result = None


class Chooser:
    """Handed to a world; replays a prefix then answers 0 (default)."""

    def __init__(self, prefix):
        self.prefix = list(prefix)
        self.ex = Execution()
        self.i = 0

    def choose(self, n, costs=None):
        """n alternatives; alternative 0 is the default environment answer.
        costs[k] = deviation cost of alternative k (default: 0 for k==0 else 1);
        None cost = alternative not available for branching."""
        if n <= 0:
            raise core.HarnessError("choose() with no alternatives")
        if self.i < len(self.prefix):
            c = self.prefix[self.i]
            if c >= n:
                raise core.HarnessError(
                    "prefix replay diverged: choice %d out of %d at point %d" % (c, n, self.i)
                )
        else:
            c = 0
        if costs is None:
            costs = [0] + [1] * (n - 1)
        self.ex.choices.append(c)
        self.ex.points.append((n, costs))
        self.i += 1
        return c


def dfs_deviation(run, bound, on_execution, root_prefix=(), budget=None, first_only=None):
    """Explore every execution of `run(chooser)` whose total deviation cost is
    <= bound.  run() must be deterministic given the choice list.  Returns the
    number of executions.  on_execution(execution) is called for each.

    first_only: if given, a (lo, hi) slice of the *first-level* branch list
    (sharding: the set of one-deviation subtrees is split between workers).
    """
    count = 0
    stack = [(list(root_prefix), 0, 0)]  # (prefix, cost so far, start index for branching)
    shard = first_only
    while stack:
        prefix, cost0, start = stack.pop()
        ch = Chooser(prefix)
        ch.ex.result = run(ch)
        ex = ch.ex
        if len(ex.choices) < len(prefix):
            raise core.HarnessError("prefix replay diverged: run ended before prefix was consumed")
        count += 1
        on_execution(ex)
        if budget is not None and count >= budget:
            return count
        # cost of the prefix part
        cost = 0
        for i in range(len(ex.choices)):
            n, costs = ex.points[i]
            if i < len(prefix):
                cost += costs[ex.choices[i]]
                continue
            # branching positions are those beyond the prefix
            for alt in range(1, n):
                c = costs[alt]
                if c is None or cost + c > bound:
                    continue
                stack.append((ex.choices[:i] + [alt], cost + c, i + 1))
        # note: after position i>=len(prefix) choices are 0 (cost 0), so `cost`
        # stays the prefix cost, which is what we want.
    return count
