"""Check context: violations, known findings, evidence, worker pool."""
import hashlib
import json
import multiprocessing
import os
import sys
import time
import traceback

VERIF = os.path.dirname(os.path.dirname(os.path.abspath(__file__)))
KNOWN = os.path.join(VERIF, "known_findings.json")
NCPU = int(os.environ.get("VERIF_WORKERS", "0")) or min(16, os.cpu_count() or 1)


class HarnessError(Exception):
    """The harness itself misbehaved (nondeterminism, vacuity): exit 2."""


def jdefault(o):
    if isinstance(o, (bytes, bytearray)):
        return {"hex": bytes(o).hex()}
    if isinstance(o, (set, frozenset)):
        return sorted(o, key=repr)
    if isinstance(o, tuple):
        return list(o)
    return repr(o)


def jdump(o, **kw):
    return json.dumps(o, default=jdefault, **kw)


def stable_hash(o):
    return hashlib.sha256(jdump(o, sort_keys=True).encode()).hexdigest()[:16]


class Ctx:
    def __init__(self, pid, tier, seed, level):
        self.pid = pid
        self.tier = tier
        self.seed = seed
        self.level = level
        self.t0 = time.time()
        self.cov = {
            "states": 0,
            "transitions": 0,
            "traces_validated_against_impl": 0,
            "evaluations": 0,
            "distinct_nontrivial": 0,
            "rule": "",
            "samples": [],
            "exhaustive": False,
            "parts": {},
        }
        self.assumptions = []
        self.violations = []  # (signature, what, replay_path)
        self.known_hits = {}  # index -> count
        self._known = self._load_known()
        self._seen_sigs = set()
        self.caps_hit = []

    # ---------------------------------------------------------- known findings
    def _load_known(self):
        out = []
        paths = [KNOWN]
        d = os.path.join(VERIF, "known_findings.d")
        if os.path.isdir(d):
            paths += [os.path.join(d, n) for n in sorted(os.listdir(d)) if n.endswith(".json")]
        for p in paths:
            try:
                with open(p) as f:
                    data = json.load(f)
            except FileNotFoundError:
                continue
            out += [
                f
                for f in data.get("findings", [])
                if f.get("property") == self.pid and f.get("status") == "known"
            ]
        return out

    def match_known(self, sig):
        for i, f in enumerate(self._known):
            fs = f.get("signature", {})
            if fs and all(sig.get(k) == v for k, v in fs.items()):
                return i
        return None

    # -------------------------------------------------------------- reporting
    def violation(self, sig, what, replay):
        """sig: structural signature dict; replay: JSON-able replay object."""
        k = self.match_known(sig)
        if k is not None:
            self.known_hits[k] = self.known_hits.get(k, 0) + 1
            return False
        key = stable_hash(sig)
        if key in self._seen_sigs:
            return True
        self._seen_sigs.add(key)
        os.makedirs(os.path.join(VERIF, "replays"), exist_ok=True)
        path = os.path.join(VERIF, "replays", "%s-%s.json" % (self.pid, key))
        with open(path, "w") as f:
            f.write(
                jdump(
                    {"property": self.pid, "signature": sig, "what": what, "replay": replay},
                    indent=1,
                )
            )
        self.violations.append((sig, what, path))
        print("VIOLATION property=%s replay=%s" % (self.pid, path))
        print("  what: %s" % what)
        print("  signature: %s" % jdump(sig, sort_keys=True))
        sys.stdout.flush()
        return True

    def part(self, name, **kw):
        """Record per-part coverage numbers and accumulate global ones."""
        p = self.cov["parts"].setdefault(name, {})
        for k, v in kw.items():
            if isinstance(v, bool) or not isinstance(v, (int, float)):
                p[k] = v
            else:
                p[k] = p.get(k, 0) + v
        for k in ("states", "transitions", "evaluations", "distinct_nontrivial",
                  "traces_validated_against_impl"):
            if k in kw:
                self.cov[k] += kw[k]
        line = " ".join("%s=%s" % (k, v) for k, v in kw.items())
        print("[%s] %s: %s" % (self.pid, name, line))
        sys.stdout.flush()

    def sample(self, s, limit=12):
        if len(self.cov["samples"]) < limit:
            self.cov["samples"].append(s)

    def cap(self, what):
        self.caps_hit.append(what)
        print("[%s] CAP HIT: %s" % (self.pid, what))

    def elapsed(self):
        return time.time() - self.t0

    # --------------------------------------------------------------- finishing
    def finish(self):
        for i, n in sorted(self.known_hits.items()):
            f = self._known[i]
            print("KNOWN-FINDING: property=%s %s (hit %d times)" % (self.pid, f.get("what", ""), n))
        cov = self.cov
        cov["caps_hit"] = self.caps_hit
        if self.caps_hit:
            cov["exhaustive"] = False
        cov["known_finding_hits"] = {
            self._known[i].get("id", str(i)): n for i, n in self.known_hits.items()
        }
        if not cov["samples"]:
            cov["samples"] = ["(no sample recorded)"]
        if cov["traces_validated_against_impl"] == 0:
            cov["traces_validated_against_impl"] = cov["evaluations"]
        ev = {
            "property_id": self.pid,
            "tier": self.tier,
            "seed": self.seed,
            "level": self.level,
            "coverage": cov,
            "assumptions": self.assumptions,
            "wall_s": round(time.time() - self.t0, 2),
            "violations": len(self.violations),
        }
        # evidence describes /repo; a run redirected to a scratch worktree (VERIF_REPO, seed / mutation testing only)
        # writes next to the cache instead, so that it can never pass for a description of the unchanged tree
        evdir = os.path.join(VERIF, "evidence")
        if os.path.realpath(os.environ.get("VERIF_REPO", "/repo")) != os.path.realpath("/repo"):
            evdir = os.path.join(VERIF, ".cache", "evidence-scratch")
        os.makedirs(evdir, exist_ok=True)
        path = os.path.join(evdir, "%s.json" % self.pid)
        tmp = path + ".tmp%d" % os.getpid()
        with open(tmp, "w") as f:
            f.write(jdump(ev, indent=1))
        os.replace(tmp, path)
        print(
            "[%s] tier=%s seed=%d states=%d transitions=%d evaluations=%d distinct=%d "
            "violations=%d known=%d wall=%.1fs"
            % (
                self.pid,
                self.tier,
                self.seed,
                cov["states"],
                cov["transitions"],
                cov["evaluations"],
                cov["distinct_nontrivial"],
                len(self.violations),
                sum(self.known_hits.values()),
                time.time() - self.t0,
            )
        )
        return 1 if self.violations else 0


# ------------------------------------------------------------------ worker pool
_WORK = {}


def _call(args):
    name, item = args
    try:
        return ("ok", _WORK[name](item))
    except HarnessError as e:
        return ("harness", "%s\n%s" % (e, traceback.format_exc()))
    except BaseException as e:  # noqa
        return ("err", "%s: %s\n%s" % (type(e).__name__, e, traceback.format_exc()))


class WorkerCrash:
    """Returned in place of a result when the worker process died on that item."""

    def __init__(self, item, detail):
        self.item = item
        self.detail = detail


def _run_isolated(name, item):
    """Run one item in its own forked process; returns ('ok', v) / ('crash', detail) / ..."""
    ctx = multiprocessing.get_context("fork")
    r, w = ctx.Pipe(duplex=False)

    def child():
        import pickle

        res = _call((name, item))
        w.send_bytes(pickle.dumps(res))
        w.close()
        os._exit(0)

    p = ctx.Process(target=child)
    p.start()
    w.close()
    try:
        import pickle

        data = r.recv_bytes()
        p.join()
        return pickle.loads(data)
    except EOFError:
        p.join()
        return ("crash", "worker exit code %s" % p.exitcode)


def pmap(func, items, workers=None, chunksize=1, ordered=True, on_crash=None):
    """Run func over items in forked workers (func is registered by name so module-level
    functions defined in check modules work).  A worker that dies (segfault in the C helpers,
    OOM) does not hang the run: the affected items are re-run one per process; an item that
    kills its process again yields on_crash(item, detail) (default: HarnessError)."""
    import concurrent.futures as cf

    items = list(items)
    workers = workers or NCPU
    name = "%s.%s" % (func.__module__, func.__qualname__)
    _WORK[name] = func
    if workers <= 1 or len(items) <= 1:
        res = [_call((name, it)) for it in items]
    else:
        ctx = multiprocessing.get_context("fork")
        res = [None] * len(items)
        broken = False
        with cf.ProcessPoolExecutor(max_workers=min(workers, len(items)), mp_context=ctx) as ex:
            futs = {ex.submit(_call, (name, it)): i for i, it in enumerate(items)}
            for f in cf.as_completed(futs):
                i = futs[f]
                try:
                    res[i] = f.result()
                except cf.process.BrokenProcessPool:
                    broken = True
                except Exception as e:  # noqa
                    res[i] = ("err", "%s: %s" % (type(e).__name__, e))
        if broken:
            for i, it in enumerate(items):
                if res[i] is None:
                    res[i] = _run_isolated(name, it)
    out = []
    for it, (kind, val) in zip(items, res):
        if kind == "ok":
            out.append(val)
        elif kind == "crash":
            if on_crash is None:
                raise HarnessError("worker process died on item %r: %s" % (it, val))
            out.append(on_crash(it, val))
        elif kind == "harness":
            raise HarnessError(val)
        else:
            raise HarnessError("worker raised: " + val)
    return out
