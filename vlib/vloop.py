"""VLoop - asyncio on a virtual clock with an in-memory, fault-injecting datagram
network (DESIGN 3.3).

    loop = VLoop()                       # fresh loop per execution
    net = VNet(loop, chooser)            # chooser: explore.Chooser (or anything with .choose)
    with loop.running():                 # asyncio.get_running_loop() works during set-up
        tr = net.transport(addr, protocol)   # in-memory DatagramTransport bound to `addr`
        protocol.connection_made(tr)
        loop.create_task(app())
    loop.run()                           # until quiescent / horizon; never blocks, no threads
    loop.finish()                        # gc.collect() + close; then read loop.exc_log

The loop is a real `asyncio.BaseEventLoop`: `_run_once` is NOT reimplemented, so the
ready queue is FIFO, due timers are moved to the ready queue after the I/O handles, and
callbacks scheduled by callbacks run in the next iteration (ntodo snapshot) exactly as
on a selector loop.  Only two things are replaced:

* `time()` is a virtual clock;
* `self._selector.select(timeout)` is `VNet.poll(timeout)`, the single choice point.
  It returns the list of "ready sockets" (at most one read-readiness per socket, each
  of which results in ONE `datagram_received`, like
  `_SelectorDatagramTransport._read_ready`), or sleeps by advancing the virtual clock by
  exactly `timeout`.

Alternatives at a choice point (index 0 is the default environment answer, every other
alternative costs one deviation):

    deliver 0           oldest datagram in flight arrives now        (default)
    deliver i>0         a younger datagram overtakes                 (reorder)
    drop                the oldest datagram is lost, choose again
    dup                 the oldest datagram arrives now and a copy stays in flight
    delay               nothing arrives during this select(): the timeout elapses
                        (timeout 0: the ready callbacks run first; timeout>0: the next
                        timer fires although a datagram is in flight)
    burst               two or more sockets are readable in the same iteration
    spoof k             scenario specific: a recorded datagram is replayed from another
                        source address (net.spoofable[k] = (label, data, src, dst))

Dropping/duplicating only the *oldest* datagram is a sound reduction: these actions have
no side effect on the endpoints, so dropping datagram i now is equivalent to dropping it
when it has become the oldest.
"""
import asyncio
import contextlib
import gc
import threading
import zlib
from asyncio import events

LATENCY = 0.001  # virtual seconds that pass when select() blocks until a datagram arrives
STUTTER_AFTER = 20  # consecutive select(0) calls tolerated before the clock is nudged


class _Selector:
    def __init__(self, loop):
        self._loop = loop

    def select(self, timeout=None):
        return self._loop._v_select(timeout)

    def close(self):
        pass


def _aioquic_frames(exc):
    """(outermost, innermost) qualified names of aioquic functions on the traceback."""
    first = last = None
    tb = getattr(exc, "__traceback__", None)
    while tb is not None:
        code = tb.tb_frame.f_code
        fn = code.co_filename.replace("\\", "/")
        if "/aioquic/" in fn:
            q = getattr(code, "co_qualname", code.co_name)
            if first is None:
                first = q
            last = q
        tb = tb.tb_next
    return first, last


class VLoop(asyncio.BaseEventLoop):
    """Event loop on virtual time.  No selector, no self-pipe, no threads."""

    def __init__(self, start=1000.0, max_iterations=20000, max_time=600.0):
        super().__init__()
        self.set_debug(False)
        self._clock_resolution = 1e-9
        self.t0 = float(start)
        self._vtime = float(start)
        self.max_iterations = max_iterations
        self.max_time = None if max_time is None else self.t0 + max_time
        self._selector = _Selector(self)
        self.poll = None  # callable(timeout) -> list of zero-argument callbacks
        self.iterations = 0
        self.stop_reason = None  # "quiescent" | "iterations" | "time" | "spin"
        self._zero_run = 0  # consecutive select(0) calls
        self.stutters = 0  # iterations in which the stutter guard moved the clock
        self.exc_log = []  # normalised records of every call to the exception handler
        self.set_exception_handler(VLoop._record_exception)

    # ------------------------------------------------------------------ clock
    def time(self):
        return self._vtime

    def advance(self, dt):
        if dt < 0:
            raise ValueError("time cannot go backwards")
        self._vtime += dt

    def elapsed(self):
        return self._vtime - self.t0

    # ----------------------------------------------------- BaseEventLoop hooks
    def _process_events(self, event_list):
        # like BaseSelectorEventLoop._process_events -> _add_callback(reader handle)
        for cb in event_list:
            self._ready.append(events.Handle(cb, (), self))

    def _write_to_self(self):  # call_soon_threadsafe: nothing to wake up
        pass

    def _v_select(self, timeout):
        self.iterations += 1
        if self.iterations > self.max_iterations:
            self._halt("iterations")
            return []
        if self.max_time is not None and self._vtime >= self.max_time:
            self._halt("time")
            return []
        # Stutter guard.  On a real loop every iteration takes some time, so a timer whose
        # deadline equals "now" up to float rounding (e.g. loss_time = sent + delay, tested as
        # sent <= now - delay) is overdue for good a few nanoseconds later.  Virtual time
        # stands still during select(0); after STUTTER_AFTER consecutive select(0) calls the
        # clock is nudged by 1 ns, 2 ns, 4 ns, ...  If a full millisecond of nudging does not
        # end the run of zero timeouts the loop is really spinning: stop with "spin".
        if timeout == 0:
            self._zero_run += 1
            k = self._zero_run - STUTTER_AFTER
            if k > 0:
                if k > 21:
                    self._halt("spin")
                    return []
                self.stutters += 1
                self._vtime += 1e-9 * (1 << (k - 1))
        else:
            self._zero_run = 0
        if self.poll is not None:
            return self.poll(timeout)
        if timeout is None:
            self._halt("quiescent")
        else:
            self.advance(timeout)
        return []

    def _halt(self, reason):
        if self.stop_reason is None:
            self.stop_reason = reason
        self.stop()

    # ------------------------------------------------------------- exceptions
    def _record_exception(self, context):
        exc = context.get("exception")
        msg = context.get("message") or ""
        if msg.startswith("Exception in callback"):
            kind = "callback"
        elif "never retrieved" in msg:
            kind = "never_retrieved"
        elif "destroyed but it is pending" in msg:
            kind = "destroyed_pending"
        else:
            kind = "other"
        first, last = _aioquic_frames(exc) if exc is not None else (None, None)
        self.exc_log.append(
            {
                "kind": kind,
                "exc": type(exc).__name__ if exc is not None else None,
                "entry": first,
                "where": last,
                "detail": ("%s" % (exc,))[:200] if exc is not None else msg[:200],
                "at": round(self._vtime - self.t0, 6),
                "iteration": self.iterations,
            }
        )

    # ---------------------------------------------------------------- running
    @contextlib.contextmanager
    def running(self):
        """Make this loop the running loop (for object construction)."""
        old = events._get_running_loop()
        events._set_running_loop(self)
        try:
            yield self
        finally:
            events._set_running_loop(old)

    def run(self):
        """Iterate `_run_once` until the selector stops the loop (quiescence or
        horizon).  Returns stop_reason."""
        self._check_closed()
        self._thread_id = threading.get_ident()
        old = events._get_running_loop()
        events._set_running_loop(self)
        try:
            while True:
                self._run_once()
                if self._stopping:
                    break
        finally:
            self._stopping = False
            self._thread_id = None
            events._set_running_loop(old)
        return self.stop_reason

    def finish(self):
        """Collect garbage (so that GC-timed 'never retrieved' reports are in
        exc_log deterministically), then close the loop."""
        gc.collect()
        if not self.is_closed():
            self.close()
        return self.exc_log


# ------------------------------------------------------------------- network
class Datagram:
    __slots__ = ("id", "src", "dst", "data", "kind")

    def __init__(self, id, src, dst, data, kind="orig"):
        self.id = id
        self.src = src
        self.dst = dst
        self.data = data
        self.kind = kind

    def brief(self, names):
        return "#%d %s>%s %dB%s" % (
            self.id,
            names.get(self.src, self.src),
            names.get(self.dst, self.dst),
            len(self.data),
            "" if self.kind == "orig" else "(" + self.kind + ")",
        )


class MemTransport(asyncio.DatagramTransport):
    """In-memory stand-in for `_SelectorDatagramTransport` (unconnected UDP socket)."""

    def __init__(self, net, addr, protocol, name):
        super().__init__(extra={"sockname": addr})
        self._net = net
        self.addr = addr
        self.name = name
        self._protocol = protocol
        self._closing = False
        self._conn_lost = False
        self.sendto_after_lost = 0

    def get_protocol(self):
        return self._protocol

    def set_protocol(self, protocol):
        self._protocol = protocol

    def is_closing(self):
        return self._closing

    def sendto(self, data, addr=None):
        if not isinstance(data, (bytes, bytearray, memoryview)):
            raise TypeError(
                "data argument must be a bytes-like object, not %r" % type(data).__name__
            )
        if not data:
            return
        if self._conn_lost:
            # the real transport has `_sock = None` after connection_lost
            self.sendto_after_lost += 1
            raise AttributeError("'NoneType' object has no attribute 'sendto'")
        self._net._send(self, bytes(data), addr)

    def close(self):
        if self._closing:
            return
        self._closing = True
        self._net._remove_reader(self)
        self._net.loop.call_soon(self._call_connection_lost, None)

    def abort(self):
        self.close()

    def _call_connection_lost(self, exc):
        try:
            self._protocol.connection_lost(exc)
        finally:
            self._conn_lost = True

    def _read_ready(self, dgram):
        # one datagram per readiness, as _SelectorDatagramTransport._read_ready
        if self._closing or self._conn_lost:
            self._net.lost_on_closed += 1
            return
        net = self._net
        net.n_delivered += 1
        if net.on_dispatch is not None:
            net.on_dispatch(self, dgram)
        self._protocol.datagram_received(dgram.data, dgram.src)
        if net.after_dispatch is not None:
            net.after_dispatch(self, dgram)


class VNet:
    """The in-memory network and the select() choice point."""

    def __init__(self, loop, chooser, faults=True, window=None):
        self.loop = loop
        self.chooser = chooser
        self.faults = faults
        self.window = window  # (lo, hi): choice-point indices where deviations are offered
        loop.poll = self.poll
        self.endpoints = {}  # addr -> MemTransport with a registered reader
        self.names = {}  # addr -> short name (for traces / hashes)
        self.pending = []  # datagrams in flight, oldest first
        self.seq = 0
        self.n_sent = 0
        self.n_delivered = 0
        self.n_dropped = 0
        self.n_vanished = 0
        self.lost_on_closed = 0
        self.on_send = None  # f(transport, datagram)
        self.on_dispatch = None  # f(transport, datagram) just before datagram_received
        self.after_dispatch = None
        self.spoofable = []  # list of [label, data, src, dst, remaining uses]
        self.deviations = []  # labels of the non-default alternatives taken
        self.points = 0
        self.h = 0
        self.hs = []  # rolling observation hash at every choice point
        self.trace = None  # list of str when tracing

    # ----------------------------------------------------------- endpoints
    def transport(self, addr, protocol, name):
        tr = MemTransport(self, addr, protocol, name)
        self.endpoints[addr] = tr
        self.names[addr] = name
        return tr

    def _remove_reader(self, tr):
        if self.endpoints.get(tr.addr) is tr:
            del self.endpoints[tr.addr]

    def _send(self, tr, data, dst):
        self.seq += 1
        d = Datagram(self.seq, tr.addr, dst, data)
        self.n_sent += 1
        if self.on_send is not None:
            self.on_send(tr, d)
        self.pending.append(d)
        if self.trace is not None:
            self.trace.append("      send " + d.brief(self.names))

    # -------------------------------------------------------- choice point
    def _menu(self, timeout):
        pend = self.pending
        menu = [("deliver", 0)]
        costs = [0]
        allowed = self.faults and (
            self.window is None or self.window[0] <= self.points < self.window[1]
        )
        if not allowed:
            return menu, costs
        for i in range(1, len(pend)):
            menu.append(("deliver", i))
        menu.append(("drop",))
        if pend[0].kind == "orig":
            menu.append(("dup",))
        if timeout is not None:
            menu.append(("delay",))
        dsts = []
        for d in pend:
            if d.dst not in dsts:
                dsts.append(d.dst)
        if len(dsts) > 1:
            menu.append(("burst",))
        for k, sp in enumerate(self.spoofable):
            if sp[4] > 0 and sp[3] in self.endpoints:
                menu.append(("spoof", k))
        costs += [1] * (len(menu) - 1)
        return menu, costs

    def _reader(self, d):
        tr = self.endpoints[d.dst]
        return lambda: tr._read_ready(d)

    def _arrive(self, timeout):
        # a blocking select() returns when the datagram arrives: a little time passes
        if timeout is None:
            self.loop.advance(LATENCY)
        elif timeout > 0:
            self.loop.advance(min(LATENCY, timeout))

    def app_choice(self, label, options):
        """An application-level choice point (e.g. how long the application sleeps):
        option 0 is the default, every other option costs one deviation."""
        loop = self.loop
        n = len(options) if self.faults else 1
        obs = ("app", label, loop.iterations, int(round(loop.elapsed() * 1e7)), n)
        self.h = zlib.crc32(repr(obs).encode(), self.h)
        self.hs.append(self.h)
        k = self.chooser.choose(n, [0] + [1] * (n - 1))
        self.points += 1
        if k:
            self.deviations.append("app")
        if self.trace is not None:
            self.trace.append("[%3d] it=%d t=%.6f application choice %s -> %r%s"
                              % (self.points - 1, loop.iterations, loop.elapsed(), label,
                                 options[k], "" if k == 0 else "   <-- deviation"))
        return k

    def poll(self, timeout):
        loop = self.loop
        while True:
            # datagrams addressed to a closed / non-existent socket vanish
            if any(d.dst not in self.endpoints for d in self.pending):
                keep = [d for d in self.pending if d.dst in self.endpoints]
                self.n_vanished += len(self.pending) - len(keep)
                self.pending = keep
            pend = self.pending
            if not pend:
                # nothing is in flight - but a recorded datagram may still be replayed into the silence
                # (only scenarios that register replayable datagrams with a positive count get this point)
                late = [k for k, sp in enumerate(self.spoofable)
                        if sp[4] > 0 and sp[3] in self.endpoints and len(sp) > 5 and sp[5] == "when_idle"]
                if late and self.faults and (self.window is None or self.window[0] <= self.points < self.window[1]):
                    menu = [("idle",)] + [("spoof", k) for k in late]
                    obs = ("idle", loop.iterations, int(round(loop.elapsed() * 1e7)),
                           None if timeout is None else int(round(timeout * 1e7)), len(menu), len(loop.exc_log))
                    self.h = zlib.crc32(repr(obs).encode(), self.h)
                    self.hs.append(self.h)
                    k = self.chooser.choose(len(menu), [0] + [1] * len(late))
                    self.points += 1
                    if k:
                        self.deviations.append("spoof")
                        sp = self.spoofable[menu[k][1]]
                        sp[4] -= 1
                        self.seq += 1
                        d = Datagram(self.seq, sp[2], sp[3], sp[1], "spoof:" + sp[0])
                        if self.trace is not None:
                            self.trace.append("[%3d] it=%d t=%.6f nothing in flight -> replay %s   <-- deviation"
                                              % (self.points - 1, loop.iterations, loop.elapsed(), sp[0]))
                        self._arrive(timeout)
                        return [self._reader(d)]
                if timeout is None:
                    loop._halt("quiescent")
                else:
                    loop.advance(timeout)
                return []
            menu, costs = self._menu(timeout)
            obs = (
                loop.iterations,
                int(round(loop.elapsed() * 1e7)),
                None if timeout is None else int(round(timeout * 1e7)),
                [(self.names.get(d.src), self.names.get(d.dst), len(d.data), d.kind) for d in pend],
                len(menu),
                len(loop.exc_log),
            )
            self.h = zlib.crc32(repr(obs).encode(), self.h)
            self.hs.append(self.h)
            k = self.chooser.choose(len(menu), costs)
            act = menu[k]
            self.points += 1
            if k:
                self.deviations.append(act[0])
            if self.trace is not None:
                self.trace.append(
                    "[%3d] it=%d t=%.6f timeout=%s in-flight=[%s] -> %s"
                    % (
                        self.points - 1,
                        loop.iterations,
                        loop.elapsed(),
                        "None" if timeout is None else "%.6f" % timeout,
                        ", ".join(d.brief(self.names) for d in pend),
                        " ".join(str(x) for x in act) + ("" if k == 0 else "   <-- deviation"),
                    )
                )
            kind = act[0]
            if kind == "deliver":
                d = pend.pop(act[1])
                self._arrive(timeout)
                return [self._reader(d)]
            if kind == "drop":
                pend.pop(0)
                self.n_dropped += 1
                continue
            if kind == "dup":
                d = pend.pop(0)
                self.seq += 1
                pend.append(Datagram(self.seq, d.src, d.dst, d.data, "dup"))
                self._arrive(timeout)
                return [self._reader(d)]
            if kind == "delay":
                loop.advance(timeout)
                return []
            if kind == "burst":
                out = []
                seen = []
                for d in list(pend):
                    if d.dst not in seen:
                        seen.append(d.dst)
                        pend.remove(d)
                        out.append(self._reader(d))
                self._arrive(timeout)
                return out
            if kind == "spoof":
                sp = self.spoofable[act[1]]
                sp[4] -= 1
                self.seq += 1
                d = Datagram(self.seq, sp[2], sp[3], sp[1], "spoof:" + sp[0])
                self._arrive(timeout)
                return [self._reader(d)]
            raise AssertionError(act)
