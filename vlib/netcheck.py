"""Sharded deviation-bounded exploration of NetSim scenarios (engine E1)."""
import time
import traceback

from . import core, explore, netsim

# registry filled by the check module before forking: name -> factory(scenario) returning
# (cfg, script, monitors, kwargs, until)
_FACTORY = {}


def register(name, factory):
    _FACTORY[name] = factory


class RunResult:
    __slots__ = ("outcome", "viol", "obs", "steps", "deviations")


def run_once(name, scenario, prefix, trace=False):
    """Execute one schedule; returns (Chooser, RunResult, world)."""
    cfg, script, monitors, kwargs, until = _FACTORY[name](scenario)
    ch = explore.Chooser(prefix)
    w = netsim.NetSim(cfg, script, ch, monitors=monitors, trace=trace, **kwargs)
    res = RunResult()
    res.viol = None
    try:
        res.outcome = w.run(until)
        for m in monitors:
            m.at_end(w, res.outcome)
    except netsim.Violation as v:
        res.outcome = "violation"
        res.viol = (v.sig, v.what)
    except core.HarnessError:
        raise
    except Exception as e:  # noqa - an exception escaping the public API
        tb = traceback.extract_tb(e.__traceback__)
        inner = None
        for fr in reversed(tb):
            if "/aioquic/" in fr.filename:
                inner = "%s:%s" % (fr.filename.split("/aioquic/")[-1], fr.name)
                break
        if inner is None:
            raise
        res.outcome = "exception"
        res.viol = (
            {"monitor": "api_exception", "exc": type(e).__name__, "where": inner},
            "%s escaped the API: %s (innermost aioquic frame %s)" % (type(e).__name__, e, inner),
        )
    res.steps = w.nsteps
    res.deviations = list(w.deviations_used)
    res.obs = None
    return ch, res, w


def _outcome_key(w, res):
    return (
        res.outcome,
        tuple(sorted((k, len(v)) for k, v in w.ep["c"].rx.items())),
        tuple(sorted((k, len(v)) for k, v in w.ep["s"].rx.items())),
        len(w.ep["c"].sent_packets),
        len(w.ep["s"].sent_packets),
    )


def _task(args):
    name, scen_id, scenario, root, bound, budget = args
    out = {"execs": 0, "viol": [], "outcomes": set(), "steps": 0, "maxdev": 0, "capped": False,
           "sample": None}

    def run(ch):
        # dfs_deviation wants run(chooser); we need the world too
        cfg, script, monitors, kwargs, until = _FACTORY[name](scenario)
        w = netsim.NetSim(cfg, script, ch, monitors=monitors, **kwargs)
        res = RunResult()
        res.viol = None
        try:
            res.outcome = w.run(until)
            for m in monitors:
                m.at_end(w, res.outcome)
        except netsim.Violation as v:
            res.outcome = "violation"
            res.viol = (v.sig, v.what)
        except core.HarnessError:
            raise
        except Exception as e:  # noqa
            tb = traceback.extract_tb(e.__traceback__)
            inner = None
            for fr in reversed(tb):
                if "/aioquic/" in fr.filename:
                    inner = "%s:%s" % (fr.filename.split("/aioquic/")[-1], fr.name)
                    break
            if inner is None:
                raise
            res.outcome = "exception"
            res.viol = (
                {"monitor": "api_exception", "exc": type(e).__name__, "where": inner},
                "%s escaped the API: %s (innermost aioquic frame %s)" % (type(e).__name__, e, inner),
            )
        res.steps = w.nsteps
        res.deviations = list(w.deviations_used)
        res.obs = _outcome_key(w, res)
        return res

    def on_exec(ex):
        res = ex.result
        out["execs"] += 1
        out["steps"] += res.steps
        out["outcomes"].add(hash(res.obs))
        out["maxdev"] = max(out["maxdev"], len(res.deviations))
        if out["sample"] is None and res.deviations:
            out["sample"] = {"scenario": scen_id, "choices": _rle(ex.choices), "deviations": res.deviations,
                             "outcome": res.outcome}
        if res.viol is not None:
            sig = dict(res.viol[0])
            out["viol"].append((sig, res.viol[1], scen_id, list(ex.choices), res.deviations))

    n = explore.dfs_deviation(run, bound, on_exec, root_prefix=root, budget=budget)
    if budget is not None and n >= budget:
        out["capped"] = True
    return out


def _rle(choices):
    """compact display of a choice list: positions of non-zero choices"""
    return {"len": len(choices), "nonzero": [(i, c) for i, c in enumerate(choices) if c]}


def explore_scenarios(ctx, name, scenarios, bound, part, budget_per_task=None, time_cap=None,
                      sig_extra=None):
    """scenarios: dict id -> scenario object (picklable).  Explores every schedule with at most
    `bound` deviations for each scenario.  Returns aggregate dict."""
    t0 = time.time()
    tasks = []
    base_execs = 0
    agg = {"execs": 0, "viol": [], "outcomes": set(), "steps": 0, "capped": False, "samples": []}
    # default executions (d=0) in the parent give the branching structure
    for sid, sc in scenarios.items():
        ch, res, w = run_once(name, sc, [])
        base_execs += 1
        agg["steps"] += res.steps
        agg["outcomes"].add(hash(_outcome_key(w, res)))
        if res.viol is not None:
            agg["viol"].append((dict(res.viol[0]), res.viol[1], sid, list(ch.ex.choices), []))
        if bound >= 1:
            for i, (n, costs) in enumerate(ch.ex.points):
                for alt in range(1, n):
                    if costs[alt] is not None and costs[alt] <= bound:
                        tasks.append((name, sid, sc, ch.ex.choices[:i] + [alt], bound, budget_per_task))
    agg["execs"] = base_execs
    if tasks:
        results = core.pmap(_task, tasks, ordered=False, chunksize=1)
        for r in results:
            agg["execs"] += r["execs"]
            agg["steps"] += r["steps"]
            agg["outcomes"] |= r["outcomes"]
            agg["viol"] += r["viol"]
            agg["capped"] = agg["capped"] or r["capped"]
            if r["sample"] is not None and len(agg["samples"]) < 3:
                agg["samples"].append(r["sample"])
    # report: per signature, the violation with fewest deviations then shortest choice list
    best = {}
    for sig, what, sid, choices, devs in agg["viol"]:
        if sig_extra:
            sig = sig_extra(sig, sid, devs)
        k = core.stable_hash(sig)
        cand = (len(devs), len(choices), sid, sig, what, choices, devs)
        if k not in best or cand[:2] < best[k][:2]:
            best[k] = cand
    for k, (nd, nc, sid, sig, what, choices, devs) in sorted(best.items(), key=lambda kv: kv[1][:2]):
        ctx.violation(sig, what + " [scenario %s, deviations %s]" % (sid, devs),
                      {"engine": "netsim", "factory": name, "scenario_id": sid, "scenario": scenarios[sid],
                       "choices": choices, "deviations": devs})
    ctx.part(part, scenarios=len(scenarios), deviation_bound=bound, executions=agg["execs"],
             states=agg["steps"], transitions=agg["steps"], evaluations=agg["execs"],
             distinct_nontrivial=len(agg["outcomes"]), violations_raw=len(agg["viol"]),
             wall=round(time.time() - t0, 1))
    for s in agg["samples"]:
        ctx.sample(s)
    if agg["capped"]:
        ctx.cap("%s: per-task execution budget hit" % part)
    return agg


def replay(name, obj, verbose=True):
    """Re-run one recorded schedule twice; print the trace; return violation or None."""
    rp = obj["replay"]
    sc = rp["scenario"]
    outs = []
    for k in range(2):
        ch, res, w = run_once(name, sc, rp["choices"], trace=(k == 0))
        outs.append((res.outcome, res.viol[0] if res.viol else None))
        if k == 0 and verbose:
            for s in w.steps:
                print("  ", s)
            print("outcome:", res.outcome, res.viol[1] if res.viol else "")
    if outs[0] != outs[1]:
        raise core.HarnessError("replay is not deterministic: %r vs %r" % (outs[0], outs[1]))
    return res.viol
