"""Seams applied from the harness process (never to files under /repo)."""
_installed = False
SALT = [1]  # +1: ascending stream-id order in sets, -1: descending


def _stream_hash(self):
    sid = self.stream_id
    if sid is None:
        return 0
    return sid * SALT[0]


def install(order=1):
    """Make iteration over sets of QuicStream deterministic (id()-based hashing
    makes `_write_application`'s `set` order differ between processes)."""
    global _installed
    from aioquic.quic.stream import QuicStream

    SALT[0] = 1 if order >= 0 else -1
    if not _installed:
        QuicStream.__hash__ = _stream_hash
        _installed = True


# ----------------------------------------------------------------------------- ECDSA signature length
# An ECDSA signature is DER-encoded: 70, 71 or 72 bytes for P-256 depending on the random nonce.  The length
# decides how the TLS flight is cut into packets, so two executions of the same schedule could differ in
# the number of datagrams (a replayed prefix "diverges").  The harness owns that source: the certificate
# keys it hands to the endpoints re-sign until the encoding has the most common length.
class _Lazy:
    cls = None


def fixed_length_ec_key(key, want=None):
    from cryptography.hazmat.primitives.asymmetric import ec

    if _Lazy.cls is None:
        _Lazy.cls = _mk_fixed_class()
    if not isinstance(key, ec.EllipticCurvePrivateKey) or isinstance(key, _Lazy.cls):
        return key
    return _Lazy.cls(key, want)


def _mk_fixed_class():
    from cryptography.hazmat.primitives.asymmetric import ec

    class FixedLenECKey(ec.EllipticCurvePrivateKey):
        def __init__(self, key, want=None):
            self._k = key
            # 2 * coordinate size + 6 bytes of DER framing + 1 (one of r, s has its top bit set) is the mode
            self._want = want or (2 * ((key.curve.key_size + 7) // 8) + 7)

        def sign(self, data, signature_algorithm):
            for _ in range(200):
                sig = self._k.sign(data, signature_algorithm)
                if len(sig) == self._want:
                    return sig
            return sig

        def exchange(self, algorithm, peer_public_key):
            return self._k.exchange(algorithm, peer_public_key)

        def public_key(self):
            return self._k.public_key()

        @property
        def curve(self):
            return self._k.curve

        @property
        def key_size(self):
            return self._k.key_size

        def private_numbers(self):
            return self._k.private_numbers()

        def private_bytes(self, encoding, format, encryption_algorithm):
            return self._k.private_bytes(encoding, format, encryption_algorithm)

        def __copy__(self):
            return self

        def __deepcopy__(self, memo):
            return self

    return FixedLenECKey


# ------------------------------------------------------------------ delivery handlers: once per frame
# "each packet's frames are reported acknowledged or lost at most once" (C08) is a statement about the calls the
# recovery makes into the frame owners.  On real connections those calls are observed through this seam: every
# delivery handler registered with the packet builder is wrapped (harness side, never in /repo) by a counter; the
# wrapper passes the call on unchanged and notes a second report for the same frame of the same packet.
DELIVERED_TWICE = []
_delivery_watch = []


def watch_delivery_handlers():
    if _delivery_watch:
        return
    _delivery_watch.append(True)
    from aioquic.quic import packet_builder as pb

    orig = pb.QuicPacketBuilder.start_frame

    def start_frame(self, frame_type, capacity=1, handler=None, handler_args=[]):
        buf = orig(self, frame_type, capacity, handler, handler_args)
        if handler is not None and self._packet.delivery_handlers:
            h, args = self._packet.delivery_handlers[-1]
            packet = self._packet
            seen = []

            def once(delivery, *a, _h=h):
                seen.append(getattr(delivery, "name", str(delivery)))
                if len(seen) > 1:
                    DELIVERED_TWICE.append((packet.packet_number, getattr(packet.epoch, "value", packet.epoch), int(frame_type), tuple(seen),
                                            getattr(_h, "__name__", repr(_h))))
                return _h(delivery, *a)

            self._packet.delivery_handlers[-1] = (once, args)
        return buf

    pb.QuicPacketBuilder.start_frame = start_frame
