"""Seams applied from the harness process (never to files under /repo)."""
_installed = False
SALT = [1]  # +1: ascending stream-id order in sets, -1: descending


def _stream_hash(self):
    sid = self.stream_id
    if sid is None:
        return 0
    return sid * SALT[0]


def install(order=1):
    """Make iteration over sets of QuicStream deterministic (id()-based hashing
    makes `_write_application`'s `set` order differ between processes)."""
    global _installed
    from aioquic.quic.stream import QuicStream

    SALT[0] = 1 if order >= 0 else -1
    if not _installed:
        QuicStream.__hash__ = _stream_hash
        _installed = True
