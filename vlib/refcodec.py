"""Independent reference wire codecs for C17 (and anybody else who needs bytes).

Written from the RFC texts, sharing no code with aioquic:

* RFC 9000 section 16 (variable-length integers), 17.2/17.3 (long / short headers, Version
  Negotiation, Retry), 18 (transport parameters), 19.3 (ACK frame);
* RFC 9001 section 5.8 (Retry integrity tag, AEAD_AES_128_GCM over the Retry pseudo-packet);
* RFC 9368 section 3 (version_information), RFC 9369 section 3.2/3.3.3 (QUIC v2 long packet
  types and Retry key/nonce), RFC 9221 (max_datagram_frame_size);
* RFC 8446 section 4 (handshake message formats, the extensions of 4.2 which carry
  structure), RFC 7301 (ALPN), RFC 6066 (server_name).

Two halves:

encoders  build bytes *and a layout*: every length / count field that was written is
          recorded as {"pos","size","kind","value","name"} so that a caller can lie about
          exactly one of them (``length_lies``) or cut the encoding anywhere (``cuts``).
          Encoders return ``Enc`` (a ``bytes`` subclass with a ``.fields`` list).

decoders  are *strict about nesting*: every declared length opens a window, nothing inside
          may be read past the end of the innermost open window, an inner declared length may
          not extend past its enclosing window, and a window must be consumed exactly.  They
          raise ``RefReject`` whose ``kind`` says why:
            "truncated"  input ended (the violated window is the whole input),
            "overrun"    an inner item / inner declared length extends past the enclosing
                         *declared* length (``.window`` = dict(field=(pos,size), start, end),
                         ``.pos`` = where the offending item starts, ``.declared`` = True when
                         the offender is itself a declared length),
            "trailing"   bytes left inside a declared length,
            "semantic"   well-formed nesting but forbidden by the RFC (wrong legacy_version,
                         negative packet number in ACK, CID longer than 20, version 0 ...).
          They do not enforce vector minimum sizes (an empty cipher_suites list decodes).

Plain Python values only (ints, bytes, tuples, lists, dicts): the caller converts.
"""
import struct
from contextlib import contextmanager

from cryptography.hazmat.primitives.ciphers.aead import AESGCM

VARINT_MAX = (1 << 62) - 1
KIND_MAX = {"u8": 0xFF, "u16": 0xFFFF, "u24": 0xFFFFFF, "varint": VARINT_MAX}
KIND_SIZE = {"u8": 1, "u16": 2, "u24": 3}


class RefError(Exception):
    """The reference encoder was asked for something that cannot be encoded."""


class RefReject(Exception):
    def __init__(self, kind, msg, pos=None, window=None, declared=False):
        Exception.__init__(self, "%s: %s" % (kind, msg))
        self.kind = kind
        self.msg = msg
        self.pos = pos
        self.window = window
        self.declared = declared


# ======================================================================= integers
def varint_size(v):
    if v < 0:
        raise RefError("negative")
    if v < (1 << 6):
        return 1
    if v < (1 << 14):
        return 2
    if v < (1 << 30):
        return 4
    if v < (1 << 62):
        return 8
    raise RefError("varint too large")


def enc_varint(v, size=None):
    """RFC 9000 section 16.  size=None: shortest encoding; else forced 1/2/4/8."""
    need = varint_size(v)
    if size is None:
        size = need
    if size not in (1, 2, 4, 8) or size < need:
        raise RefError("varint %d does not fit %r bytes" % (v, size))
    prefix = {1: 0, 2: 1, 4: 2, 8: 3}[size]
    raw = v.to_bytes(size, "big")
    return bytes([raw[0] | (prefix << 6)]) + raw[1:]


def dec_varint(data, pos=0):
    """-> (value, new_pos); RefReject('truncated') when data is too short."""
    if pos >= len(data):
        raise RefReject("truncated", "no first byte of varint", pos)
    size = 1 << (data[pos] >> 6)
    if pos + size > len(data):
        raise RefReject("truncated", "varint of %d bytes" % size, pos)
    v = int.from_bytes(data[pos : pos + size], "big") & ((1 << (8 * size - 2)) - 1)
    return v, pos + size


def enc_uint(v, nbytes):
    if v < 0 or v >> (8 * nbytes):
        raise RefError("%d does not fit %d bytes" % (v, nbytes))
    return v.to_bytes(nbytes, "big")


# ======================================================================= writer
class Enc(bytes):
    """bytes + the layout of its length fields."""

    fields = ()

    def __new__(cls, data, fields=()):
        o = bytes.__new__(cls, data)
        o.fields = list(fields)
        return o


class Writer:
    def __init__(self):
        self.b = bytearray()
        self.fields = []

    def raw(self, data):
        self.b += data

    def u8(self, v):
        self.b += enc_uint(v, 1)

    def u16(self, v):
        self.b += enc_uint(v, 2)

    def u24(self, v):
        self.b += enc_uint(v, 3)

    def u32(self, v):
        self.b += enc_uint(v, 4)

    def u64(self, v):
        self.b += enc_uint(v, 8)

    def varint(self, v, size=None):
        self.b += enc_varint(v, size)

    def count(self, v, name, size=None):
        """A varint that counts following items (recorded as a field)."""
        pos = len(self.b)
        enc = enc_varint(v, size)
        self.b += enc
        self.fields.append(dict(pos=pos, size=len(enc), kind="varint", value=v, name=name))

    @contextmanager
    def block(self, nbytes, name):
        """Fixed-width length prefix (TLS vectors, CID lengths)."""
        pos = len(self.b)
        self.b += bytes(nbytes)
        rec = dict(pos=pos, size=nbytes, kind="u%d" % (8 * nbytes), value=None, name=name)
        self.fields.append(rec)
        yield
        length = len(self.b) - pos - nbytes
        self.b[pos : pos + nbytes] = enc_uint(length, nbytes)
        rec["value"] = length

    @contextmanager
    def vblock(self, name, size=None):
        """varint length prefix (QUIC)."""
        sub = Writer()
        yield sub
        pos = len(self.b)
        enc = enc_varint(len(sub.b), size)
        self.b += enc
        self.fields.append(dict(pos=pos, size=len(enc), kind="varint", value=len(sub.b), name=name))
        base = len(self.b)
        for f in sub.fields:
            g = dict(f)
            g["pos"] += base
            self.fields.append(g)
        self.b += sub.b

    def opaque(self, nbytes, data, name):
        with self.block(nbytes, name):
            self.raw(data)

    def done(self):
        return Enc(bytes(self.b), sorted(self.fields, key=lambda f: f["pos"]))


# --------------------------------------------------------------- arbitrary bytes
def lie_values(field):
    """{0, 1, true-1, true+1, max} without the true value / unrepresentable ones."""
    t = field["value"]
    mx = KIND_MAX[field["kind"]]
    out = []
    for v in (0, 1, t - 1, t + 1, mx):
        if v < 0 or v > mx or v == t or v in out:
            continue
        out.append(v)
    return out


def apply_lie(enc, field, value):
    if field["kind"] == "varint":
        new = enc_varint(value)
    else:
        new = enc_uint(value, field["size"])
    return bytes(enc[: field["pos"]]) + new + bytes(enc[field["pos"] + field["size"] :])


def length_lies(enc):
    """Yield (field_index, lie_value, mutated_bytes) for every length field of enc."""
    for i, f in enumerate(enc.fields):
        for v in lie_values(f):
            yield i, v, apply_lie(enc, f, v)


def cuts(enc, window=None):
    """Cut points for truncation: every proper prefix length, or (window=k) only those
    within k bytes of the start, the end, or any length field / its content boundaries."""
    n = len(enc)
    if window is None or n <= 4 * window:
        return list(range(n))
    marks = {0, n}
    for f in getattr(enc, "fields", ()):
        marks.add(f["pos"])
        marks.add(f["pos"] + f["size"])
        if f["value"] is not None and f["name"] != "count":
            marks.add(min(n, f["pos"] + f["size"] + f["value"]))
    out = set()
    for m in marks:
        for d in range(-window, window + 1):
            if 0 <= m + d < n:
                out.add(m + d)
    return sorted(out)


# ======================================================================= strict reader
class Reader:
    def __init__(self, data):
        self.d = bytes(data)
        self.pos = 0
        self.stack = [dict(field=None, start=0, end=len(self.d))]
        self.reads = []

    @property
    def end(self):
        return self.stack[-1]["end"]

    def _need(self, n, what):
        w = self.stack[-1]
        if self.pos + n > w["end"]:
            if len(self.stack) == 1:
                raise RefReject("truncated", "%s needs %d bytes at %d" % (what, n, self.pos), self.pos)
            raise RefReject(
                "overrun",
                "%s (%d bytes at %d) extends past declared end %d" % (what, n, self.pos, w["end"]),
                self.pos,
                dict(w),
                False,
            )

    def raw(self, n, what="bytes"):
        self._need(n, what)
        out = self.d[self.pos : self.pos + n]
        self.reads.append((self.pos, self.pos + n))
        self.pos += n
        return out

    def uint(self, n, what="uint"):
        return int.from_bytes(self.raw(n, "%s%d" % (what, 8 * n)), "big")

    def u8(self):
        return self.uint(1)

    def u16(self):
        return self.uint(2)

    def u24(self):
        return self.uint(3)

    def u32(self):
        return self.uint(4)

    def varint(self):
        self._need(1, "varint")
        size = 1 << (self.d[self.pos] >> 6)
        raw = self.raw(size, "varint")
        return int.from_bytes(raw, "big") & ((1 << (8 * size - 2)) - 1)

    def remaining(self):
        return self.stack[-1]["end"] - self.pos

    def at_end(self):
        return self.pos >= self.stack[-1]["end"]

    def open(self, length, fpos, fsize, name=""):
        w = self.stack[-1]
        if self.pos + length > w["end"]:
            if len(self.stack) == 1:
                raise RefReject(
                    "truncated", "%s declares %d bytes, %d available" % (name, length, w["end"] - self.pos), self.pos
                )
            raise RefReject(
                "overrun",
                "%s declares %d bytes at %d, enclosing declared end is %d" % (name, length, self.pos, w["end"]),
                self.pos,
                dict(w),
                True,
            )
        self.stack.append(dict(field=(fpos, fsize), start=self.pos, end=self.pos + length, name=name))

    def close(self):
        w = self.stack.pop()
        if self.pos != w["end"]:
            raise RefReject(
                "trailing", "%d bytes left inside %s" % (w["end"] - self.pos, w.get("name", "block")), self.pos, dict(w)
            )

    @contextmanager
    def block(self, nbytes, name=""):
        """nbytes in (1,2,3) fixed width, or 'varint'."""
        fpos = self.pos
        length = self.varint() if nbytes == "varint" else self.uint(nbytes, name + ".len")
        self.open(length, fpos, self.pos - fpos, name)
        yield length
        self.close()

    def opaque(self, nbytes, name=""):
        with self.block(nbytes, name) as length:
            return self.raw(length, name)

    def finish(self):
        if len(self.stack) != 1:
            raise AssertionError("reference reader: unbalanced windows")
        return self.pos


# ======================================================================= ACK (RFC 9000 19.3)
def ranges_of(pns):
    """sorted iterable of ints -> ascending list of (start, stop) half-open ranges."""
    out = []
    for v in sorted(set(pns)):
        if out and out[-1][1] == v:
            out[-1][1] = v + 1
        else:
            out.append([v, v + 1])
    return [(a, b) for a, b in out]


def enc_ack(ranges, delay):
    """Body of an ACK frame *after* the frame type: Largest Acknowledged, ACK Delay,
    ACK Range Count, First ACK Range, then (Gap, ACK Range Length)*.
    ranges: ascending, disjoint, non-adjacent (start, stop) half-open."""
    if not ranges:
        raise RefError("empty ACK")
    w = Writer()
    rs = sorted(ranges)
    largest = rs[-1][1] - 1
    w.varint(largest)
    w.varint(delay)
    w.count(len(rs) - 1, "count")
    w.varint(largest - rs[-1][0])  # number of contiguous packets preceding the largest
    smallest = rs[-1][0]
    for start, stop in reversed(rs[:-1]):
        # gap: number of contiguous unacknowledged packets preceding 'smallest', minus one
        w.varint(smallest - stop - 1)
        w.varint(stop - 1 - start)
        smallest = start
    return w.done()


def dec_ack(data, pos=0):
    """-> (ascending [(start, stop)], delay, end_pos)."""
    r = Reader(data)
    r.pos = pos
    largest = r.varint()
    delay = r.varint()
    count = r.varint()
    first = r.varint()
    smallest = largest - first
    if smallest < 0:
        raise RefReject("semantic", "first ACK range %d exceeds largest acknowledged %d" % (first, largest))
    out = [(smallest, largest + 1)]
    for _ in range(count):
        gap = r.varint()
        length = r.varint()
        largest = smallest - gap - 2
        smallest = largest - length
        if largest < 0 or smallest < 0:
            raise RefReject("semantic", "negative packet number in ACK range")
        out.append((smallest, largest + 1))
    out.reverse()
    return out, delay, r.pos


# ======================================================================= headers
V1 = 0x00000001
V2 = 0x6B3343CF
# RFC 9000 17.2 table 5 / RFC 9369 3.2
LONG_TYPE_BITS = {
    V1: {"INITIAL": 0, "ZERO_RTT": 1, "HANDSHAKE": 2, "RETRY": 3},
    V2: {"INITIAL": 1, "ZERO_RTT": 2, "HANDSHAKE": 3, "RETRY": 0},
}
# RFC 9001 5.8 / RFC 9369 3.3.3
RETRY_KEY = {V1: bytes.fromhex("be0c690b9f66575a1d766b54e368c84e"), V2: bytes.fromhex("8fb4b01b56ac48e260fbcbcead7ccc92")}
RETRY_NONCE = {V1: bytes.fromhex("461599d35d632bf2239825bb"), V2: bytes.fromhex("d86969bc2d7c6d9990efb04a")}


def enc_long_header(version, ptype, dcid, scid, token=b"", length=0, pn=0, pn_len=2, length_size=None,
                    reserved=0):
    """Initial / 0-RTT / Handshake header up to and including the packet number.
    `length` is the value of the Length field (packet number + payload [+ tag])."""
    w = Writer()
    w.u8(0x80 | 0x40 | (LONG_TYPE_BITS[version][ptype] << 4) | ((reserved & 3) << 2) | (pn_len - 1))
    w.u32(version)
    w.opaque(1, dcid, "dcid_len")
    w.opaque(1, scid, "scid_len")
    if ptype == "INITIAL":
        with w.vblock("token_len") as t:
            t.raw(token)
    elif ptype not in ("ZERO_RTT", "HANDSHAKE"):
        raise RefError("use enc_retry for %s" % ptype)
    pos = len(w.b)
    enc = enc_varint(length, length_size)
    w.raw(enc)
    w.fields.append(dict(pos=pos, size=len(enc), kind="varint", value=length, name="length"))
    w.raw(enc_uint(pn & ((1 << (8 * pn_len)) - 1), pn_len))
    return w.done()


def enc_short_header(dcid, pn=0, pn_len=2, spin=0, key_phase=0, reserved=0):
    return Enc(
        bytes([0x40 | (spin << 5) | ((reserved & 3) << 3) | (key_phase << 2) | (pn_len - 1)])
        + bytes(dcid)
        + enc_uint(pn & ((1 << (8 * pn_len)) - 1), pn_len)
    )


def retry_integrity_tag(packet_without_tag, odcid, version):
    pseudo = bytes([len(odcid)]) + bytes(odcid) + bytes(packet_without_tag)
    v = V2 if version == V2 else V1
    return AESGCM(RETRY_KEY[v]).encrypt(RETRY_NONCE[v], b"", pseudo)


def enc_retry(version, scid, dcid, odcid, token, unused=0):
    w = Writer()
    w.u8(0x80 | 0x40 | (LONG_TYPE_BITS[version]["RETRY"] << 4) | (unused & 0x0F))
    w.u32(version)
    w.opaque(1, dcid, "dcid_len")
    w.opaque(1, scid, "scid_len")
    w.raw(token)
    w.raw(retry_integrity_tag(bytes(w.b), odcid, version))
    return w.done()


def enc_version_negotiation(scid, dcid, versions, unused=0x7F):
    w = Writer()
    w.u8(0x80 | (unused & 0x7F))
    w.u32(0)
    w.opaque(1, dcid, "dcid_len")
    w.opaque(1, scid, "scid_len")
    for v in versions:
        w.u32(v)
    return w.done()


def dec_header(data, short_dcid_len=None, max_cid=20):
    """Strict header decode -> dict(form, version, ptype, dcid, scid, token, tag, versions,
    length (value of the Length field or None), header_len (bytes up to and including Length /
    up to the end for Retry and VN / first byte + DCID for short), packet_len)."""
    r = Reader(data)
    first = r.u8()
    out = dict(version=None, scid=b"", token=b"", tag=b"", versions=[], length=None)
    if first & 0x80:
        out["form"] = "long"
        out["version"] = version = r.u32()
        fpos = r.pos
        n = r.u8()
        if n > max_cid and version in (V1, V2, 0):
            raise RefReject("semantic", "DCID length %d" % n)
        r.open(n, fpos, 1, "dcid")
        out["dcid"] = r.raw(n, "dcid")
        r.close()
        fpos = r.pos
        n = r.u8()
        if n > max_cid and version in (V1, V2, 0):
            raise RefReject("semantic", "SCID length %d" % n)
        r.open(n, fpos, 1, "scid")
        out["scid"] = r.raw(n, "scid")
        r.close()
        if version == 0:
            out["ptype"] = "VERSION_NEGOTIATION"
            while not r.at_end():
                out["versions"].append(r.u32())
            out["header_len"] = out["packet_len"] = r.pos
            return out
        if not first & 0x40:
            raise RefReject("semantic", "fixed bit is zero")
        table = LONG_TYPE_BITS.get(version, LONG_TYPE_BITS[V1])
        ptype = [k for k, v in table.items() if v == (first >> 4) & 3][0]
        out["ptype"] = ptype
        if ptype == "RETRY":
            if r.remaining() < 16:
                raise RefReject("truncated", "no room for Retry integrity tag", r.pos)
            out["token"] = r.raw(r.remaining() - 16, "retry token")
            out["tag"] = r.raw(16, "retry tag")
            out["header_len"] = out["packet_len"] = r.pos
            return out
        if ptype == "INITIAL":
            out["token"] = r.opaque("varint", "token")
        fpos = r.pos
        length = r.varint()
        out["length"] = length
        out["header_len"] = r.pos
        r.open(length, fpos, r.pos - fpos, "length")  # must fit in the datagram
        out["packet_len"] = r.pos + length
        return out
    out["form"] = "short"
    if not first & 0x40:
        raise RefReject("semantic", "fixed bit is zero")
    out["ptype"] = "ONE_RTT"
    out["dcid"] = r.raw(short_dcid_len, "dcid")
    out["header_len"] = r.pos
    out["packet_len"] = len(data)
    out["spin"] = (first >> 5) & 1
    out["key_phase"] = (first >> 2) & 1
    return out


# ======================================================================= transport parameters
# RFC 9000 18.2, RFC 9221 3, RFC 9368 3; 0x0c37 is a Google extension carrying opaque bytes
TP_KIND = {
    0x00: "bytes",  # original_destination_connection_id
    0x01: "int",  # max_idle_timeout
    0x02: "bytes",  # stateless_reset_token
    0x03: "int",  # max_udp_payload_size
    0x04: "int",  # initial_max_data
    0x05: "int",  # initial_max_stream_data_bidi_local
    0x06: "int",  # initial_max_stream_data_bidi_remote
    0x07: "int",  # initial_max_stream_data_uni
    0x08: "int",  # initial_max_streams_bidi
    0x09: "int",  # initial_max_streams_uni
    0x0A: "int",  # ack_delay_exponent
    0x0B: "int",  # max_ack_delay
    0x0C: "flag",  # disable_active_migration
    0x0D: "preferred_address",
    0x0E: "int",  # active_connection_id_limit
    0x0F: "bytes",  # initial_source_connection_id
    0x10: "bytes",  # retry_source_connection_id
    0x11: "version_information",
    0x20: "int",  # max_datagram_frame_size
    0x0C37: "bytes",  # quantum_readiness
}


def enc_preferred_address(w, pa):
    """pa = dict(ipv4=(4 bytes, port), ipv6=(16 bytes, port), cid=bytes, token=16 bytes)."""
    w.raw(pa["ipv4"][0])
    w.u16(pa["ipv4"][1])
    w.raw(pa["ipv6"][0])
    w.u16(pa["ipv6"][1])
    w.opaque(1, pa["cid"], "pa_cid_len")
    w.raw(pa["token"])


def enc_transport_parameters(items):
    """items: list of (id, value) in the order to be written; value is int / bytes / True /
    preferred-address dict / (chosen, [available]) according to TP_KIND; for ids not in
    TP_KIND the value must be bytes."""
    w = Writer()
    for pid, value in items:
        kind = TP_KIND.get(pid, "bytes")
        w.varint(pid)
        with w.vblock("param_len") as p:
            if kind == "int":
                p.varint(value)
            elif kind == "bytes":
                p.raw(value)
            elif kind == "flag":
                pass
            elif kind == "preferred_address":
                enc_preferred_address(p, value)
            elif kind == "version_information":
                p.u32(value[0])
                for v in value[1]:
                    p.u32(v)
    return w.done()


def dec_transport_parameters(data):
    """-> list of (id, kind, value) in wire order (kind 'unknown' for ids outside TP_KIND)."""
    r = Reader(data)
    out = []
    while not r.at_end():
        pid = r.varint()
        kind = TP_KIND.get(pid, "unknown")
        with r.block("varint", "param 0x%x" % pid) as length:
            if kind == "int":
                value = r.varint()
            elif kind in ("bytes", "unknown"):
                value = r.raw(length, "value")
            elif kind == "flag":
                value = True
            elif kind == "preferred_address":
                v4 = (r.raw(4, "ipv4"), r.u16())
                v6 = (r.raw(16, "ipv6"), r.u16())
                cid = r.opaque(1, "pa_cid")
                value = dict(ipv4=v4, ipv6=v6, cid=cid, token=r.raw(16, "pa_token"))
            else:
                chosen = r.u32()
                others = []
                while not r.at_end():
                    others.append(r.u32())
                if chosen == 0 or 0 in others:
                    raise RefReject("semantic", "version 0 in version_information")
                value = (chosen, others)
        out.append((pid, kind, value))
    return out


# ======================================================================= TLS 1.3 (RFC 8446 4)
CLIENT_HELLO = 1
SERVER_HELLO = 2
NEW_SESSION_TICKET = 4
ENCRYPTED_EXTENSIONS = 8
CERTIFICATE = 11
CERTIFICATE_REQUEST = 13
CERTIFICATE_VERIFY = 15
FINISHED = 20

EXT_SERVER_NAME = 0
EXT_SUPPORTED_GROUPS = 10
EXT_SIGNATURE_ALGORITHMS = 13
EXT_ALPN = 16
EXT_PRE_SHARED_KEY = 41
EXT_EARLY_DATA = 42
EXT_SUPPORTED_VERSIONS = 43
EXT_PSK_KEY_EXCHANGE_MODES = 45
EXT_KEY_SHARE = 51

# which extension bodies are given structure, per message (everything else: opaque bytes)
EXT_CODEC = {
    "CH": {
        EXT_SERVER_NAME: "sni_list",
        EXT_SUPPORTED_GROUPS: "u16_list_2",
        EXT_SIGNATURE_ALGORITHMS: "u16_list_2",
        EXT_ALPN: "alpn",
        EXT_PRE_SHARED_KEY: "offered_psks",
        EXT_EARLY_DATA: "empty",
        EXT_SUPPORTED_VERSIONS: "u16_list_1",
        EXT_PSK_KEY_EXCHANGE_MODES: "u8_list_1",
        EXT_KEY_SHARE: "key_share_list",
    },
    "SH": {EXT_PRE_SHARED_KEY: "u16", EXT_SUPPORTED_VERSIONS: "u16", EXT_KEY_SHARE: "key_share_entry"},
    "EE": {EXT_ALPN: "alpn", EXT_EARLY_DATA: "empty"},
    "CR": {EXT_SIGNATURE_ALGORITHMS: "u16_list_2"},
    "NST": {EXT_EARLY_DATA: "u32"},
}


def _enc_ext_body(w, codec, v):
    if codec == "empty":
        return
    if codec == "u16":
        w.u16(v)
    elif codec == "u32":
        w.u32(v)
    elif codec in ("u16_list_2", "u16_list_1"):
        with w.block(2 if codec == "u16_list_2" else 1, "list_len"):
            for x in v:
                w.u16(x)
    elif codec == "u8_list_1":
        with w.block(1, "list_len"):
            for x in v:
                w.u8(x)
    elif codec == "key_share_entry":
        w.u16(v[0])
        w.opaque(2, v[1], "key_exchange_len")
    elif codec == "key_share_list":
        with w.block(2, "list_len"):
            for g, k in v:
                w.u16(g)
                w.opaque(2, k, "key_exchange_len")
    elif codec == "alpn":
        with w.block(2, "list_len"):
            for p in v:
                w.opaque(1, p, "protocol_len")
    elif codec == "sni_list":
        with w.block(2, "list_len"):
            for name_type, name in v:
                w.u8(name_type)
                w.opaque(2, name, "host_name_len")
    elif codec == "offered_psks":
        identities, binders = v
        with w.block(2, "identities_len"):
            for ident, age in identities:
                w.opaque(2, ident, "identity_len")
                w.u32(age)
        with w.block(2, "binders_len"):
            for b in binders:
                w.opaque(1, b, "binder_len")
    else:
        raise RefError("no codec %r" % codec)


def _dec_ext_body(r, codec):
    if codec == "empty":
        return None
    if codec == "u16":
        return r.u16()
    if codec == "u32":
        return r.u32()
    if codec in ("u16_list_2", "u16_list_1"):
        out = []
        with r.block(2 if codec == "u16_list_2" else 1, "list"):
            while not r.at_end():
                out.append(r.u16())
        return out
    if codec == "u8_list_1":
        out = []
        with r.block(1, "list"):
            while not r.at_end():
                out.append(r.u8())
        return out
    if codec == "key_share_entry":
        g = r.u16()
        return (g, r.opaque(2, "key_exchange"))
    if codec == "key_share_list":
        out = []
        with r.block(2, "list"):
            while not r.at_end():
                g = r.u16()
                out.append((g, r.opaque(2, "key_exchange")))
        return out
    if codec == "alpn":
        out = []
        with r.block(2, "list"):
            while not r.at_end():
                out.append(r.opaque(1, "protocol"))
        return out
    if codec == "sni_list":
        out = []
        with r.block(2, "list"):
            while not r.at_end():
                t = r.u8()
                out.append((t, r.opaque(2, "host_name")))
        return out
    if codec == "offered_psks":
        ids, binders = [], []
        with r.block(2, "identities"):
            while not r.at_end():
                ident = r.opaque(2, "identity")
                ids.append((ident, r.u32()))
        with r.block(2, "binders"):
            while not r.at_end():
                binders.append(r.opaque(1, "binder"))
        return (ids, binders)
    raise RefError("no codec %r" % codec)


def _enc_extensions(w, ctx, exts):
    """exts: ordered list of (type, value); value bytes => written verbatim as the body."""
    with w.block(2, "extensions_len"):
        for etype, value in exts:
            w.u16(etype)
            with w.block(2, "ext_len"):
                codec = EXT_CODEC.get(ctx, {}).get(etype)
                if codec is None or isinstance(value, (bytes, bytearray)):
                    w.raw(value)
                else:
                    _enc_ext_body(w, codec, value)


def _dec_extensions(r, ctx):
    """-> ordered list of (type, raw_body, parsed) (parsed is None for opaque types)."""
    out = []
    with r.block(2, "extensions"):
        while not r.at_end():
            etype = r.u16()
            codec = EXT_CODEC.get(ctx, {}).get(etype)
            with r.block(2, "extension 0x%04x" % etype) as length:
                start = r.pos
                if codec is None:
                    parsed = None
                    r.raw(length, "extension_data")
                else:
                    parsed = _dec_ext_body(r, codec)
                    if codec == "empty":
                        parsed = True
                raw = r.d[start : r.pos]
            out.append((etype, raw, parsed))
    return out


def enc_handshake(msg):
    """msg: dict with 'type' one of CH SH EE CT CR CV FIN NST and the fields below."""
    t = msg["type"]
    w = Writer()
    code = {"CH": 1, "SH": 2, "NST": 4, "EE": 8, "CT": 11, "CR": 13, "CV": 15, "FIN": 20}[t]
    w.u8(code)
    with w.block(3, "handshake_len"):
        if t == "CH":
            w.u16(msg.get("legacy_version", 0x0303))
            w.raw(msg["random"])
            w.opaque(1, msg["session_id"], "session_id_len")
            with w.block(2, "cipher_suites_len"):
                for c in msg["cipher_suites"]:
                    w.u16(c)
            with w.block(1, "compression_methods_len"):
                for c in msg["compression_methods"]:
                    w.u8(c)
            _enc_extensions(w, "CH", msg["extensions"])
        elif t == "SH":
            w.u16(msg.get("legacy_version", 0x0303))
            w.raw(msg["random"])
            w.opaque(1, msg["session_id"], "session_id_len")
            w.u16(msg["cipher_suite"])
            w.u8(msg["compression_method"])
            _enc_extensions(w, "SH", msg["extensions"])
        elif t == "EE":
            _enc_extensions(w, "EE", msg["extensions"])
        elif t == "CT":
            w.opaque(1, msg["request_context"], "request_context_len")
            with w.block(3, "certificate_list_len"):
                for data, exts in msg["entries"]:
                    w.opaque(3, data, "cert_data_len")
                    w.opaque(2, exts, "entry_extensions_len")
        elif t == "CR":
            w.opaque(1, msg["request_context"], "request_context_len")
            _enc_extensions(w, "CR", msg["extensions"])
        elif t == "CV":
            w.u16(msg["algorithm"])
            w.opaque(2, msg["signature"], "signature_len")
        elif t == "FIN":
            w.raw(msg["verify_data"])
        elif t == "NST":
            w.u32(msg["lifetime"])
            w.u32(msg["age_add"])
            w.opaque(1, msg["nonce"], "nonce_len")
            w.opaque(2, msg["ticket"], "ticket_len")
            _enc_extensions(w, "NST", msg["extensions"])
    return w.done()


def dec_handshake(data, expect=None):
    """Strict decode of exactly one handshake message occupying all of data."""
    r = Reader(data)
    code = r.u8()
    names = {1: "CH", 2: "SH", 4: "NST", 8: "EE", 11: "CT", 13: "CR", 15: "CV", 20: "FIN"}
    if code not in names:
        raise RefReject("semantic", "unknown handshake type %d" % code)
    t = names[code]
    if expect is not None and t != expect:
        raise RefReject("semantic", "handshake type %s, expected %s" % (t, expect))
    msg = {"type": t}
    with r.block(3, "handshake") as length:
        if t in ("CH", "SH"):
            v = r.u16()
            if v != 0x0303:
                raise RefReject("semantic", "legacy_version 0x%04x" % v)
            msg["random"] = r.raw(32, "random")
            msg["session_id"] = r.opaque(1, "session_id")
            if t == "CH":
                cs = []
                with r.block(2, "cipher_suites"):
                    while not r.at_end():
                        cs.append(r.u16())
                cm = []
                with r.block(1, "compression_methods"):
                    while not r.at_end():
                        cm.append(r.u8())
                msg["cipher_suites"] = cs
                msg["compression_methods"] = cm
            else:
                msg["cipher_suite"] = r.u16()
                msg["compression_method"] = r.u8()
            msg["extensions"] = _dec_extensions(r, t)
        elif t == "EE":
            msg["extensions"] = _dec_extensions(r, "EE")
        elif t == "CT":
            msg["request_context"] = r.opaque(1, "request_context")
            entries = []
            with r.block(3, "certificate_list"):
                while not r.at_end():
                    d = r.opaque(3, "cert_data")
                    entries.append((d, r.opaque(2, "entry_extensions")))
            msg["entries"] = entries
        elif t == "CR":
            msg["request_context"] = r.opaque(1, "request_context")
            msg["extensions"] = _dec_extensions(r, "CR")
        elif t == "CV":
            msg["algorithm"] = r.u16()
            msg["signature"] = r.opaque(2, "signature")
        elif t == "FIN":
            msg["verify_data"] = r.raw(length, "verify_data")
        elif t == "NST":
            msg["lifetime"] = r.u32()
            msg["age_add"] = r.u32()
            msg["nonce"] = r.opaque(1, "nonce")
            msg["ticket"] = r.opaque(2, "ticket")
            msg["extensions"] = _dec_extensions(r, "NST")
    if r.pos != len(r.d):
        raise RefReject("trailing", "%d bytes after the handshake message" % (len(r.d) - r.pos), r.pos)
    return msg


# ======================================================================= self test (RFC vectors)
def selftest():
    """Check the reference against the examples printed in the RFCs; raises AssertionError."""
    # RFC 9000 A.1
    for hexs, val in (("c2197c5eff14e88c", 151288809941952652), ("9d7f3e7d", 494878333), ("7bbd", 15293), ("25", 37)):
        assert dec_varint(bytes.fromhex(hexs))[0] == val, hexs
        assert enc_varint(val).hex() == hexs, hexs
    assert dec_varint(bytes.fromhex("4025"))[0] == 37
    assert enc_varint(37, 2).hex() == "4025"
    # RFC 9001 A.4 and RFC 9369 A.4 (Retry)
    odcid = bytes.fromhex("8394c8f03e515708")
    v1 = bytes.fromhex("ff000000010008f067a5502a4262b5746f6b656e04a265ba2eff4d829058fb3f0f2496ba")
    got = enc_retry(V1, bytes.fromhex("f067a5502a4262b5"), b"", odcid, b"token", unused=0x0F)
    assert got == v1, got.hex()
    v2 = bytes.fromhex("cf6b3343cf0008f067a5502a4262b5746f6b656ec8646ce8bfe33952d955543665dcc7b6")
    got = enc_retry(V2, bytes.fromhex("f067a5502a4262b5"), b"", odcid, b"token", unused=0x0F)
    assert got == v2, got.hex()
    h = dec_header(v2)
    assert h["ptype"] == "RETRY" and h["token"] == b"token" and h["tag"] == v2[-16:]
    # RFC 9001 A.2: client Initial header c300000001088394c8f03e5157080000449e00000002
    hdr = enc_long_header(V1, "INITIAL", odcid, b"", b"", length=0x49E, pn=2, pn_len=4, length_size=2)
    assert hdr.hex() == "c300000001088394c8f03e5157080000449e00000002", hdr.hex()
    # RFC 9369 A.2: d36b3343cf088394c8f03e5157080000449e00000002
    hdr = enc_long_header(V2, "INITIAL", odcid, b"", b"", length=0x49E, pn=2, pn_len=4, length_size=2)
    assert hdr.hex() == "d36b3343cf088394c8f03e5157080000449e00000002", hdr.hex()
    # RFC 9000 19.3.1 worked through by hand: {1,2,3, 7,8, 10} delay 5
    e = enc_ack([(1, 4), (7, 9), (10, 11)], 5)
    assert list(e) == [10, 5, 2, 0, 0, 1, 2, 2], list(e)
    assert dec_ack(e) == ([(1, 4), (7, 9), (10, 11)], 5, 8)
    # strict nesting
    m = enc_handshake(dict(type="SH", random=bytes(32), session_id=b"", cipher_suite=0x1301, compression_method=0,
                           extensions=[(43, 0x0304)]))
    assert dec_handshake(m)["extensions"] == [(43, b"\x03\x04", 0x0304)]
    f = [x for x in m.fields if x["name"] == "ext_len"][0]
    try:
        dec_handshake(apply_lie(m, f, 0))
    except RefReject as e:
        assert e.kind == "overrun" and e.window["field"] == (f["pos"], 2), (e.kind, e.window)
    else:
        raise AssertionError("length lie accepted")
    return True
