"""Harness certificates, generated once into /verif/.cache/certs (PEM)."""
import datetime
import ipaddress
import os

from cryptography import x509
from cryptography.hazmat.primitives import hashes, serialization
from cryptography.hazmat.primitives.asymmetric import ec, ed448, ed25519, rsa
from cryptography.x509.oid import NameOID

from .build import CACHE

DIR = os.path.join(CACHE, "certs")
NOW = datetime.datetime(2026, 1, 1)


def gen_key(kind):
    if kind == "ed25519":
        return ed25519.Ed25519PrivateKey.generate()
    if kind == "ed448":
        return ed448.Ed448PrivateKey.generate()
    if kind == "p256":
        return ec.generate_private_key(ec.SECP256R1())
    if kind == "p384":
        return ec.generate_private_key(ec.SECP384R1())
    if kind == "rsa2048":
        return rsa.generate_private_key(public_exponent=65537, key_size=2048)
    if kind == "rsa3072":
        return rsa.generate_private_key(public_exponent=65537, key_size=3072)
    raise ValueError(kind)


def _alg(key):
    if isinstance(key, (ed25519.Ed25519PrivateKey, ed448.Ed448PrivateKey)):
        return None
    return hashes.SHA256()


def make_cert(cn, key, issuer_cn=None, issuer_key=None, sans=("localhost",), ca=False,
              not_before=None, not_after=None, pad=0):
    subject = x509.Name([x509.NameAttribute(NameOID.COMMON_NAME, cn)])
    issuer = x509.Name([x509.NameAttribute(NameOID.COMMON_NAME, issuer_cn or cn)])
    b = (
        x509.CertificateBuilder()
        .subject_name(subject)
        .issuer_name(issuer)
        .public_key(key.public_key())
        .serial_number(x509.random_serial_number())
        .not_valid_before(not_before or NOW - datetime.timedelta(days=3650))
        .not_valid_after(not_after or NOW + datetime.timedelta(days=3650))
    )
    if ca:
        b = b.add_extension(x509.BasicConstraints(ca=True, path_length=None), critical=True)
    else:
        names = []
        for s in sans:
            try:
                names.append(x509.IPAddress(ipaddress.ip_address(s)))
            except ValueError:
                names.append(x509.DNSName(s))
        if names:
            b = b.add_extension(x509.SubjectAlternativeName(names), critical=False)
    if pad:
        b = b.add_extension(
            x509.UnrecognizedExtension(x509.ObjectIdentifier("1.3.6.1.4.1.55555.1"), b"\x00" * pad),
            critical=False,
        )
    sk = issuer_key or key
    return b.sign(sk, _alg(sk))


def pem_key(key):
    return key.private_bytes(
        serialization.Encoding.PEM, serialization.PrivateFormat.PKCS8, serialization.NoEncryption()
    )


def pem_cert(cert):
    return cert.public_bytes(serialization.Encoding.PEM)


def _w(name, data):
    p = os.path.join(DIR, name)
    tmp = p + ".tmp%d" % os.getpid()
    with open(tmp, "wb") as f:
        f.write(data)
    os.replace(tmp, p)


def path(name):
    ensure_all()
    return os.path.join(DIR, name)


_done = False


def ensure_all():
    """ca.pem; <kind>.pem/<kind>.key leaves for localhost signed by the CA;
    chain2.pem (leaf+intermediate, key chain2.key); bigchain.pem (3 padded certs);
    otherca.pem + otherleaf.*; expired / notyet / wrongname / selfsigned leaves."""
    global _done
    if _done:
        return
    marker = os.path.join(DIR, "DONE.v2")
    if os.path.exists(marker):
        _done = True
        return
    os.makedirs(DIR, exist_ok=True)
    cak = gen_key("ed25519")
    ca = make_cert("verif-ca", cak, ca=True)
    _w("ca.pem", pem_cert(ca))
    _w("ca.key", pem_key(cak))
    for kind in ("ed25519", "ed448", "p256", "p384", "rsa2048"):
        k = gen_key(kind)
        c = make_cert("localhost", k, "verif-ca", cak, sans=("localhost", "127.0.0.1"))
        _w(kind + ".pem", pem_cert(c))
        _w(kind + ".key", pem_key(k))
    # intermediate chain
    ik = gen_key("ed25519")
    ic = make_cert("verif-intermediate", ik, "verif-ca", cak, ca=True)
    k = gen_key("ed25519")
    c = make_cert("localhost", k, "verif-intermediate", ik)
    _w("chain2.pem", pem_cert(c) + pem_cert(ic))
    _w("chain2_leafonly.pem", pem_cert(c))
    _w("chain2.key", pem_key(k))
    # big chain: padded so that the server flight spans several datagrams
    ik2 = gen_key("rsa2048")
    ic2 = make_cert("verif-int-big", ik2, "verif-ca", cak, ca=True, pad=900)
    k = gen_key("rsa2048")
    c = make_cert("localhost", k, "verif-int-big", ik2, pad=900)
    _w("bigchain.pem", pem_cert(c) + pem_cert(ic2))
    _w("bigchain.key", pem_key(k))
    # defects
    ock = gen_key("ed25519")
    oca = make_cert("other-ca", ock, ca=True)
    _w("otherca.pem", pem_cert(oca))
    k = gen_key("ed25519")
    _w("otherleaf.pem", pem_cert(make_cert("localhost", k, "other-ca", ock)))
    _w("otherleaf.key", pem_key(k))
    k = gen_key("ed25519")
    _w("expired.pem", pem_cert(make_cert("localhost", k, "verif-ca", cak,
                                         not_before=NOW - datetime.timedelta(days=800),
                                         not_after=NOW - datetime.timedelta(days=400))))
    _w("expired.key", pem_key(k))
    k = gen_key("ed25519")
    _w("notyet.pem", pem_cert(make_cert("localhost", k, "verif-ca", cak,
                                        not_before=NOW + datetime.timedelta(days=3000),
                                        not_after=NOW + datetime.timedelta(days=3650))))
    _w("notyet.key", pem_key(k))
    k = gen_key("ed25519")
    _w("wrongname.pem", pem_cert(make_cert("example.org", k, "verif-ca", cak, sans=("example.org",))))
    _w("wrongname.key", pem_key(k))
    k = gen_key("ed25519")
    _w("selfsigned.pem", pem_cert(make_cert("localhost", k)))
    _w("selfsigned.key", pem_key(k))
    # a second valid key for "wrong key" CertificateVerify experiments
    _w("spare.key", pem_key(gen_key("ed25519")))
    _w("DONE.v2", b"ok")
    _done = True
