"""Build aioquic's two C helpers from /repo's *current* sources and preload them.

/repo/src/aioquic/*.so are git-ignored build artefacts and may be stale relative
to _crypto.c/_buffer.c; every check therefore compiles the sources itself into
/verif/.cache/ext/<hash>/ and installs the result as aioquic._crypto /
aioquic._buffer before anything else imports aioquic.
"""
import hashlib
import importlib.machinery
import importlib.util
import os
import subprocess
import sys
import sysconfig

REPO = os.environ.get("VERIF_REPO", "/repo")
SRC = os.path.join(REPO, "src")
VERIF = os.path.dirname(os.path.dirname(os.path.abspath(__file__)))
CACHE = os.path.join(VERIF, ".cache")

FLAVORS = {
    "plain": dict(cc="gcc", flags=["-O2", "-std=c99", "-fPIC", "-shared"]),
    "asan": dict(
        cc="clang",
        flags=[
            "-O1",
            "-g",
            "-std=c99",
            "-fPIC",
            "-shared",
            "-fsanitize=address,undefined",
            "-fno-sanitize-recover=undefined",
            "-fno-omit-frame-pointer",
        ],
    ),
}

ASAN_RT = "/usr/lib/llvm-14/lib/clang/14.0.6/lib/linux/libclang_rt.asan-x86_64.so"


def _asan_rt():
    if os.path.exists(ASAN_RT):
        return ASAN_RT
    out = subprocess.run(
        ["clang", "-print-file-name=libclang_rt.asan-x86_64.so"],
        capture_output=True,
        text=True,
    ).stdout.strip()
    return out


def _digest(paths, extra):
    h = hashlib.sha256()
    for p in paths:
        with open(p, "rb") as f:
            h.update(f.read())
    h.update(repr(extra).encode())
    h.update(sys.version.encode())
    return h.hexdigest()[:20]


def ensure_ext(flavor="plain"):
    """Return {'_crypto': path, '_buffer': path}, building if needed."""
    spec = FLAVORS[flavor]
    srcs = {
        "_crypto": os.path.join(SRC, "aioquic", "_crypto.c"),
        "_buffer": os.path.join(SRC, "aioquic", "_buffer.c"),
    }
    d = os.path.join(
        CACHE, "ext", flavor + "-" + _digest(sorted(srcs.values()), spec)
    )
    out = {k: os.path.join(d, k + ".so") for k in srcs}
    if all(os.path.exists(p) for p in out.values()):
        return out
    os.makedirs(d, exist_ok=True)
    inc = sysconfig.get_paths()["include"]
    for name, src in srcs.items():
        tmp = out[name] + ".tmp%d" % os.getpid()
        cmd = (
            [spec["cc"]]
            + spec["flags"]
            + ["-DPy_LIMITED_API=0x030A0000", "-I" + inc, src, "-o", tmp]
        )
        if name == "_crypto":
            cmd.append("-lcrypto")
        r = subprocess.run(cmd, capture_output=True, text=True)
        if r.returncode != 0:
            sys.stderr.write(r.stdout + r.stderr)
            raise SystemExit("HARNESS-ERROR: cannot build %s (%s)" % (name, flavor))
        os.replace(tmp, out[name])
    return out


def ensure_shim():
    """libcrypto argument shim used by the sanitizer world (C04)."""
    src = os.path.join(VERIF, "shim", "cryptoshim.c")
    d = os.path.join(CACHE, "shim-" + _digest([src], "v1"))
    out = os.path.join(d, "cryptoshim.so")
    if os.path.exists(out):
        return out
    os.makedirs(d, exist_ok=True)
    tmp = out + ".tmp%d" % os.getpid()
    cmd = ["clang", "-O1", "-g", "-fPIC", "-shared", src, "-o", tmp, "-ldl"]
    r = subprocess.run(cmd, capture_output=True, text=True)
    if r.returncode != 0:
        sys.stderr.write(r.stdout + r.stderr)
        raise SystemExit("HARNESS-ERROR: cannot build cryptoshim")
    os.replace(tmp, out)
    return out


_loaded = None


def preload(flavor="plain"):
    """Install freshly built extensions as aioquic._crypto/_buffer."""
    global _loaded
    if _loaded is not None:
        if _loaded != flavor:
            raise RuntimeError("extensions already loaded as %s" % _loaded)
        return
    if SRC not in sys.path:
        sys.path.insert(0, SRC)
    for m in list(sys.modules):
        if m == "aioquic" or m.startswith("aioquic."):
            raise RuntimeError("aioquic imported before preload(): %s" % m)
    paths = ensure_ext(flavor)
    import aioquic  # trivial package __init__

    if not os.path.abspath(aioquic.__file__).startswith(os.path.abspath(SRC)):
        raise SystemExit("HARNESS-ERROR: aioquic resolved to %s" % aioquic.__file__)
    for name, path in paths.items():
        full = "aioquic." + name
        loader = importlib.machinery.ExtensionFileLoader(full, path)
        spec = importlib.util.spec_from_file_location(full, path, loader=loader)
        mod = importlib.util.module_from_spec(spec)
        loader.exec_module(mod)
        sys.modules[full] = mod
        setattr(aioquic, name, mod)
    _loaded = flavor


def asan_env(extra_preload=()):
    env = dict(os.environ)
    env["LD_PRELOAD"] = ":".join([_asan_rt()] + list(extra_preload))
    env["PYTHONMALLOC"] = "malloc"
    env["ASAN_OPTIONS"] = (
        "detect_leaks=0:halt_on_error=1:exitcode=77:abort_on_error=0:"
        "allocator_may_return_null=1:handle_segv=1"
    )
    env["UBSAN_OPTIONS"] = "halt_on_error=1:print_stacktrace=1:exitcode=78"
    env["PYTHONHASHSEED"] = "0"
    return env


if __name__ == "__main__":
    for fl in sys.argv[1:] or ["plain"]:
        print(fl, ensure_ext(fl))
