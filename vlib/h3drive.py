"""Drive real aioquic H3Connection objects on a recording fake QUIC object.

Used by C14.  Nothing here re-implements HTTP/3 parsing: the only codec pieces
are the QUIC varint and the frame header (needed to inject frames a real sender
never emits: GREASE / unknown types, truncated frames).

  RecQuic      the object handed to H3Connection instead of a QuicConnection;
               records send_stream_data / send_datagram_frame / close
  Sender       runs a shape (a Python function) against a real sending
               H3Connection, records the per-stream byte strings and what was
               submitted through the sending API (the round-trip expectation)
  NF           normal form of the H3 events of a connection
  Receiver     a fresh receiving H3Connection + its NF accumulator
"""
from . import core

from aioquic.h3.connection import H3Connection
from aioquic.h3.events import (
    DatagramReceived,
    DataReceived,
    HeadersReceived,
    PushPromiseReceived,
    WebTransportStreamDataReceived,
)
from aioquic.quic.configuration import QuicConfiguration
from aioquic.quic.events import DatagramFrameReceived, StreamDataReceived


# ------------------------------------------------------------------ tiny codec
def varint(v):
    if v < 0x40:
        return bytes([v])
    if v < 0x4000:
        return (v | 0x4000).to_bytes(2, "big")
    if v < 0x40000000:
        return (v | 0x80000000).to_bytes(4, "big")
    return (v | 0xC000000000000000).to_bytes(8, "big")


def frame_header(ftype, length):
    return varint(ftype) + varint(length)


def frame(ftype, payload):
    return frame_header(ftype, len(payload)) + payload


def stream_kind(sid, is_client_receiver=None):
    """Structural name of a stream id."""
    if sid == "d":
        return "datagrams"
    uni = bool(sid & 2)
    by_client = not (sid & 1)
    return ("uni" if uni else "bidi") + ("_client" if by_client else "_server")


# ------------------------------------------------------------------- fake QUIC
_CONFIGS = {}


def _config(is_client):
    c = _CONFIGS.get(is_client)
    if c is None:
        c = _CONFIGS[is_client] = QuicConfiguration(
            is_client=is_client, alpn_protocols=["h3"], max_datagram_frame_size=65536
        )
    return c


class RecQuic:
    """Recording stand-in for QuicConnection (the attributes H3Connection uses)."""

    def __init__(self, is_client):
        self.configuration = _config(is_client)
        self._quic_logger = None
        self._remote_max_datagram_frame_size = 65536
        self._next_bidi = 0 if is_client else 1
        self._next_uni = 2 if is_client else 3
        self.log = []  # ("s", sid, bytes, fin) | ("d", bytes)
        self.closed = None

    def get_next_available_stream_id(self, is_unidirectional=False):
        if is_unidirectional:
            sid = self._next_uni
            self._next_uni += 4
        else:
            sid = self._next_bidi
            self._next_bidi += 4
        return sid

    def send_stream_data(self, stream_id, data, end_stream=False):
        self.log.append(("s", stream_id, bytes(data), bool(end_stream)))

    def send_datagram_frame(self, data):
        self.log.append(("d", bytes(data)))

    def close(self, error_code=0, frame_type=None, reason_phrase=""):
        if self.closed is None:
            self.closed = (int(error_code), reason_phrase)


def collect(log, start=0):
    """Per-stream concatenation of a RecQuic log slice.

    Returns (order, streams): order = list of sids / "d" in order of first
    appearance; streams[sid] = dict(data, fin, bounds) where bounds are the
    offsets at which one send_stream_data call ended (frame boundaries);
    streams["d"] = dict(grams=[...])."""
    order = []
    streams = {}
    for rec in log[start:]:
        if rec[0] == "d":
            if "d" not in streams:
                streams["d"] = {"grams": []}
                order.append("d")
            streams["d"]["grams"].append(rec[1])
            continue
        _, sid, data, fin = rec
        st = streams.get(sid)
        if st is None:
            st = streams[sid] = {"data": b"", "fin": False, "bounds": []}
            order.append(sid)
        st["data"] += data
        st["fin"] = st["fin"] or fin
        if data and (not st["bounds"] or st["bounds"][-1] != len(st["data"])):
            st["bounds"].append(len(st["data"]))
    return order, streams


# ----------------------------------------------------------------- normal form
class _SNF:
    __slots__ = ("blocks", "body", "pushes", "wt", "sessions", "push_ids", "ended")

    def __init__(self):
        self.blocks = []  # (body offset at which the block arrived, headers)
        self.body = b""
        self.pushes = []  # (push_id, headers)
        self.wt = b""
        self.sessions = set()
        self.push_ids = set()
        self.ended = False

    def empty(self):
        return not (self.blocks or self.body or self.pushes or self.wt or self.ended)

    def freeze(self):
        return (
            tuple(self.blocks),
            self.body,
            tuple(self.pushes),
            self.wt,
            tuple(sorted(self.sessions, key=repr)),
            tuple(sorted(self.push_ids, key=repr)),
            self.ended,
        )


FIELDS = ("headers", "body", "push_promises", "webtransport", "session_id", "push_id", "ended")


def _hdrs(h):
    return tuple((bytes(k), bytes(v)) for k, v in h)


class NF:
    """Normal form of the events of one connection: per stream the ordered
    header blocks (each with the body offset at which it arrived, so that
    headers/trailers keep their place relative to the body), the concatenated
    body, the push promises, the concatenated WebTransport bytes and whether
    end-of-stream was reported; plus the datagrams.  The *number* of
    DataReceived events and empty DataReceived events do not appear."""

    def __init__(self):
        self.streams = {}
        self.dgrams = []
        self.raised = None
        self.n_events = 0

    def _s(self, sid):
        s = self.streams.get(sid)
        if s is None:
            s = self.streams[sid] = _SNF()
        return s

    def feed(self, events):
        for ev in events:
            self.n_events += 1
            if isinstance(ev, HeadersReceived):
                s = self._s(ev.stream_id)
                s.blocks.append((len(s.body), _hdrs(ev.headers)))
                s.push_ids.add(ev.push_id)
                s.ended = s.ended or bool(ev.stream_ended)
            elif isinstance(ev, DataReceived):
                s = self._s(ev.stream_id)
                s.body += ev.data
                s.push_ids.add(ev.push_id)
                s.ended = s.ended or bool(ev.stream_ended)
            elif isinstance(ev, PushPromiseReceived):
                s = self._s(ev.stream_id)
                s.pushes.append((ev.push_id, _hdrs(ev.headers)))
            elif isinstance(ev, WebTransportStreamDataReceived):
                s = self._s(ev.stream_id)
                s.wt += ev.data
                s.sessions.add(ev.session_id)
                s.ended = s.ended or bool(ev.stream_ended)
            elif isinstance(ev, DatagramReceived):
                self.dgrams.append((ev.stream_id, bytes(ev.data)))
            else:  # an event type this harness does not know: keep it visible
                s = self._s(getattr(ev, "stream_id", -1))
                s.blocks.append((len(s.body), (("?", repr(ev)),)))

    def freeze(self, closed=None):
        """Hashable normal form.  closed = RecQuic.closed of the receiver."""
        code = None if closed is None else closed[0]
        if code is not None:
            # the connection was closed by the receiver: only the outcome is
            # compared (handle_event drops the events of the erroring delivery)
            return ("closed", code, self.raised)
        return (
            "open",
            tuple((sid, s.freeze()) for sid, s in sorted(self.streams.items()) if not s.empty()),
            tuple(self.dgrams),
            self.raised,
        )


def nf_diff(a, b):
    """Names of the parts in which two frozen normal forms differ, and a text."""
    if a == b:
        return "", ""
    if a[0] != b[0] or a[0] == "closed":
        return "connection_outcome", "connection %s vs %s" % (_outcome(a), _outcome(b))
    names = []
    texts = []
    da, db = dict(a[1]), dict(b[1])
    for sid in sorted(set(da) | set(db)):
        x, y = da.get(sid), db.get(sid)
        if x == y:
            continue
        if x is None or y is None:
            x = x or _SNF().freeze()
            y = y or _SNF().freeze()
        for i, f in enumerate(FIELDS):
            if x[i] != y[i]:
                if f not in names:
                    names.append(f)
                texts.append("stream %d %s: %s vs %s" % (sid, f, _short(x[i]), _short(y[i])))
    if a[2] != b[2]:
        names.append("datagrams")
        texts.append("datagrams %s vs %s" % (_short(a[2]), _short(b[2])))
    if a[3] != b[3]:
        names.append("exception")
        texts.append("raised %r vs %r" % (a[3], b[3]))
    return "+".join(names), "; ".join(texts)


def _outcome(a):
    if a[0] == "closed":
        return "closed with 0x%x" % a[1]
    return "open"


def _short(v):
    r = repr(v)
    return r if len(r) <= 160 else r[:157] + "..."


def nf_json(a):
    """Readable JSON-able form of a frozen normal form."""
    if a[0] == "closed":
        return {"connection": "closed", "error_code": a[1], "raised": a[2]}
    out = {"connection": "open", "streams": {}, "datagrams": [[s, d.hex()] for s, d in a[2]]}
    for sid, s in a[1]:
        out["streams"][str(sid)] = {
            "headers": [[off, [[k.decode("latin1"), v.decode("latin1")] for k, v in h]] for off, h in s[0]],
            "body": s[1].hex(),
            "push_promises": [[p, [[k.decode("latin1"), v.decode("latin1")] for k, v in h]] for p, h in s[2]],
            "webtransport": s[3].hex(),
            "session_id": list(s[4]),
            "push_id": list(s[5]),
            "ended": s[6],
        }
    if a[3]:
        out["raised"] = a[3]
    return out


# ---------------------------------------------------------------------- sender
class Sender:
    """Runs a shape against a real sending H3Connection.

    The receiver's own first flight (SETTINGS, QPACK streams) and, for shapes
    that ask for it, its requests and decoder acknowledgements are produced by
    a *real* peer H3Connection (`self.peer`) so that the sender's QPACK encoder
    is in the state it would be in on a live connection."""

    def __init__(self, is_client, wt=False):
        self.is_client = is_client
        self.wt = wt
        self.quic = RecQuic(is_client)
        self.h3 = H3Connection(self.quic, enable_webtransport=wt)
        self.peer_quic = RecQuic(not is_client)
        self.peer = H3Connection(self.peer_quic, enable_webtransport=wt)
        self._peer_mark = 0  # peer log entries already given to the sender
        self._own_mark = 0  # own log entries already given to the peer
        self.recv_prelude = []  # ops every fresh receiver performs first
        self.exp = NF()  # what was submitted through the sending API
        self.valid = True
        self.push_of = {}  # push stream id -> push id
        self._next_push = 0

    # -- peer interaction ----------------------------------------------------
    def prime(self):
        """Give the sender everything the peer has sent so far (SETTINGS...)."""
        log = self.peer_quic.log
        for rec in log[self._peer_mark:]:
            if rec[0] == "s":
                self.h3.handle_event(
                    StreamDataReceived(data=rec[2], end_stream=rec[3], stream_id=rec[1])
                )
        self._peer_mark = len(log)

    def sync(self):
        """Full exchange: own output -> peer, peer output -> sender."""
        log = self.quic.log
        for rec in log[self._own_mark:]:
            if rec[0] == "s":
                self.peer.handle_event(
                    StreamDataReceived(data=rec[2], end_stream=rec[3], stream_id=rec[1])
                )
        self._own_mark = len(log)
        self.prime()

    def peer_request(self, headers, end_stream=True):
        """The receiving endpoint (a client) sends a request first; every fresh
        receiver repeats this before it is given the sender's bytes."""
        sid = self.peer_quic.get_next_available_stream_id()
        self.peer.send_headers(sid, list(headers), end_stream=end_stream)
        self.recv_prelude.append(("request", tuple(headers), end_stream))
        self.prime()
        return sid

    # -- sending API ---------------------------------------------------------
    def new_stream(self):
        return self.quic.get_next_available_stream_id()

    def headers(self, sid, headers, fin=False):
        self.h3.send_headers(sid, list(headers), end_stream=fin)
        s = self.exp._s(sid)
        s.blocks.append((len(s.body), _hdrs(headers)))
        s.push_ids.add(self.push_of.get(sid))
        s.ended = s.ended or fin

    def data(self, sid, data, fin=False):
        self.h3.send_data(sid, data, end_stream=fin)
        s = self.exp._s(sid)
        s.body += data
        s.push_ids.add(self.push_of.get(sid))
        s.ended = s.ended or fin

    def push(self, sid, headers):
        psid = self.h3.send_push_promise(sid, list(headers))
        pid = self._next_push
        self._next_push += 1
        self.push_of[psid] = pid
        self.exp._s(sid).pushes.append((pid, _hdrs(headers)))
        return psid

    def wt_stream(self, session_id, uni=False):
        return self.h3.create_webtransport_stream(session_id, is_unidirectional=uni)

    def wt_data(self, sid, session_id, data, fin=False):
        self.quic.send_stream_data(sid, data, fin)
        s = self.exp._s(sid)
        s.wt += data
        s.sessions.add(session_id)
        s.ended = s.ended or fin

    def datagram(self, sid, data):
        self.h3.send_datagram(sid, data)
        self.exp.dgrams.append((sid, data))

    # -- raw injection (bytes a real sender never emits) -----------------------
    def raw(self, sid, data, fin=False, ends=False):
        """Write raw bytes on a stream.  ends=True: the FIN written here ends a
        valid message (expectation: end of stream reported)."""
        self.quic.send_stream_data(sid, data, fin)
        if ends:
            s = self.exp._s(sid)
            s.push_ids.add(self.push_of.get(sid))
            s.ended = True

    def raw_uni(self, data, fin=False):
        sid = self.quic.get_next_available_stream_id(is_unidirectional=True)
        self.quic.send_stream_data(sid, data, fin)
        return sid

    def chop(self, sid, nbytes, fin=True):
        """Remove the last nbytes written on `sid` (truncated frame) and end it."""
        self.invalid()
        log = self.quic.log
        i = len(log) - 1
        while nbytes > 0 and i >= 0:
            rec = log[i]
            if rec[0] == "s" and rec[1] == sid and rec[2]:
                cut = min(nbytes, len(rec[2]))
                log[i] = ("s", sid, rec[2][: len(rec[2]) - cut], False)
                nbytes -= cut
            i -= 1
        if fin:
            self.quic.send_stream_data(sid, b"", True)

    def invalid(self):
        """The byte strings of this shape are not a valid HTTP/3 exchange: no
        round-trip expectation, only chunking/interleaving independence."""
        self.valid = False

    # -- result ----------------------------------------------------------------
    def result(self):
        order, streams = collect(self.quic.log)
        return {
            "order": order,
            "streams": streams,
            "prelude": list(self.recv_prelude),
            "expected": self.exp.freeze(None) if self.valid else None,
            "receiver_is_client": not self.is_client,
            "wt": self.wt,
        }


# -------------------------------------------------------------------- receiver
_SKIP_CONN = ("_quic", "_quic_logger", "_decoder", "_encoder", "_stream")


def _canon(v):
    if isinstance(v, (bytes, int, str, bool, type(None))):
        return v
    if isinstance(v, bytearray):
        return bytes(v)
    if isinstance(v, dict):
        return tuple(sorted((int(k), _canon(x)) for k, x in v.items()))
    if hasattr(v, "name") and hasattr(v, "value"):
        return v.name
    return repr(v)


class Receiver:
    def __init__(self, scen):
        self.quic = RecQuic(scen["receiver_is_client"])
        self.h3 = H3Connection(self.quic, enable_webtransport=scen["wt"])
        for op in scen["prelude"]:
            if op[0] == "request":
                sid = self.quic.get_next_available_stream_id()
                self.h3.send_headers(sid, list(op[1]), end_stream=op[2])
        self.nf = NF()
        self.trace = None  # list for replay printing

    def stream(self, sid, data, fin):
        if self.nf.raised is not None:
            return
        try:
            evs = self.h3.handle_event(StreamDataReceived(data=data, end_stream=fin, stream_id=sid))
        except core.HarnessError:  # watchdog
            raise
        except Exception as e:  # noqa: C16 decides exceptions; here only equality
            self.nf.raised = type(e).__name__
            evs = []
        if self.trace is not None:
            self.trace.append((sid, data, fin, evs, self.quic.closed))
        self.nf.feed(evs)

    def datagram(self, data):
        if self.nf.raised is not None:
            return
        try:
            evs = self.h3.handle_event(DatagramFrameReceived(data=data))
        except core.HarnessError:  # watchdog
            raise
        except Exception as e:  # noqa
            self.nf.raised = type(e).__name__
            evs = []
        if self.trace is not None:
            self.trace.append(("d", data, False, evs, self.quic.closed))
        self.nf.feed(evs)

    def whole(self, scen, sid):
        """Deliver one stream of the scenario in a single delivery (or all
        datagrams for the pseudo-stream "d")."""
        st = scen["streams"][sid]
        if sid == "d":
            for g in st["grams"]:
                self.datagram(g)
        else:
            self.stream(sid, st["data"], st["fin"])

    def final(self):
        return self.nf.freeze(self.quic.closed)

    def state(self):
        """Canonical parser state: every field of every H3Stream of the
        receiving connection, every scalar attribute of the connection, the
        close state and what the receiver itself has sent (QPACK decoder
        stream output: section acknowledgements)."""
        h3 = self.h3
        streams = tuple(
            (sid, tuple((k, _canon(v)) for k, v in sorted(vars(s).items())))
            for sid, s in sorted(h3._stream.items())
        )
        conn = tuple(
            (k, _canon(v)) for k, v in sorted(vars(h3).items()) if k not in _SKIP_CONN
        )
        sent = tuple(r[1:] for r in self.quic.log)
        return (streams, conn, self.quic.closed, sent)
