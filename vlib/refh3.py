"""refh3 - independent HTTP/3 helpers written from RFC 9000 §16, RFC 9114 and RFC 9204.

Nothing here imports aioquic.h3 / aioquic.buffer / pylsqpack.  Contents:

* varint()/read_varint()/varint_forced(): QUIC variable-length integers (RFC 9000 §16),
  including non-minimal encodings.
* frame(): HTTP/3 frame (RFC 9114 §7.1) whose length field may LIE.
* uni_stream(): unidirectional stream preface (RFC 9114 §6.2): type, push id / session id.
* settings_payload()/settings_frame(): SETTINGS (RFC 9114 §7.2.4); duplicates allowed.
* prefix_int()/qpack_string(): RFC 7541 §5.1 integers, RFC 9204 §4.1.2 string literals
  (H = 0, never Huffman).
* field_section(): QPACK *literal-only* encoded field section (RFC 9204 §4.5: Required
  Insert Count 0, Base 0; every line a "Literal Field Line with Literal Name" §4.5.6;
  optionally static-table references §4.5.2 / §4.5.4).  Arbitrary name/value bytes are
  representable, so they reach the receiver's decoder unchanged.
* decode_field_section(): inverse for the literal/static subset (no dynamic table, no Huffman).
* headers_frame()/push_promise_frame()/data_frame() and the other RFC 9114 §7.2 frames.
* check_headers(): header validator implementing exactly the rule list of property C15
  (see RULES), with a three-valued verdict (REJECT / ACCEPT / EITHER).
* content_length_declared(): which content-length spellings are declarations (1*DIGIT).
"""

# ------------------------------------------------------------------ constants
# RFC 9114 §11.2.1 frame types
DATA = 0x0
HEADERS = 0x1
PRIORITY_H2 = 0x2  # reserved (HTTP/2 PRIORITY)
CANCEL_PUSH = 0x3
SETTINGS = 0x4
PUSH_PROMISE = 0x5
PING_H2 = 0x6  # reserved
GOAWAY = 0x7
WINDOW_UPDATE_H2 = 0x8  # reserved
CONTINUATION_H2 = 0x9  # reserved
MAX_PUSH_ID = 0xD
DUPLICATE_PUSH_DRAFT = 0xE  # removed before RFC 9114; aioquic still names it
WEBTRANSPORT_STREAM = 0x41  # draft-ietf-webtrans-http3: bidirectional stream signal

FRAME_NAMES = {
    DATA: "DATA", HEADERS: "HEADERS", PRIORITY_H2: "PRIORITY", CANCEL_PUSH: "CANCEL_PUSH",
    SETTINGS: "SETTINGS", PUSH_PROMISE: "PUSH_PROMISE", PING_H2: "PING_H2", GOAWAY: "GOAWAY",
    WINDOW_UPDATE_H2: "WINDOW_UPDATE_H2", CONTINUATION_H2: "CONTINUATION_H2",
    MAX_PUSH_ID: "MAX_PUSH_ID", DUPLICATE_PUSH_DRAFT: "DUPLICATE_PUSH",
    WEBTRANSPORT_STREAM: "WEBTRANSPORT_STREAM",
}

# RFC 9114 §11.2.4 / RFC 9204 §8.3 unidirectional stream types
STREAM_CONTROL = 0x00
STREAM_PUSH = 0x01
STREAM_QPACK_ENCODER = 0x02
STREAM_QPACK_DECODER = 0x03
STREAM_WEBTRANSPORT = 0x54

# RFC 9114 §11.2.2 / RFC 9204 §8.1 / RFC 9220 / RFC 9297 settings
SETTINGS_QPACK_MAX_TABLE_CAPACITY = 0x01
SETTINGS_MAX_FIELD_SECTION_SIZE = 0x06
SETTINGS_QPACK_BLOCKED_STREAMS = 0x07
SETTINGS_ENABLE_CONNECT_PROTOCOL = 0x08
SETTINGS_H3_DATAGRAM = 0x33
SETTINGS_ENABLE_WEBTRANSPORT = 0x2B603742
SETTINGS_RESERVED_H2 = (0x00, 0x02, 0x03, 0x04, 0x05)

# RFC 9114 §8.1 error codes
H3_DATAGRAM_ERROR = 0x33
H3_NO_ERROR = 0x100
H3_GENERAL_PROTOCOL_ERROR = 0x101
H3_INTERNAL_ERROR = 0x102
H3_STREAM_CREATION_ERROR = 0x103
H3_CLOSED_CRITICAL_STREAM = 0x104
H3_FRAME_UNEXPECTED = 0x105
H3_FRAME_ERROR = 0x106
H3_EXCESSIVE_LOAD = 0x107
H3_ID_ERROR = 0x108
H3_SETTINGS_ERROR = 0x109
H3_MISSING_SETTINGS = 0x10A
H3_REQUEST_REJECTED = 0x10B
H3_REQUEST_CANCELLED = 0x10C
H3_REQUEST_INCOMPLETE = 0x10D
H3_MESSAGE_ERROR = 0x10E
H3_CONNECT_ERROR = 0x10F
H3_VERSION_FALLBACK = 0x110
QPACK_DECOMPRESSION_FAILED = 0x200
QPACK_ENCODER_STREAM_ERROR = 0x201
QPACK_DECODER_STREAM_ERROR = 0x202
H3_ERROR_CODES = frozenset(
    [H3_DATAGRAM_ERROR] + list(range(0x100, 0x111)) + [0x200, 0x201, 0x202]
)

VARINT_MAX = (1 << 62) - 1


def grease(n=0):
    """Reserved frame / stream / setting identifier 0x1f * N + 0x21 (RFC 9114 §7.2.8)."""
    return 0x1F * n + 0x21


# ------------------------------------------------------------------- varints
def varint(v):
    """Minimal QUIC varint encoding of v (RFC 9000 §16)."""
    if v < 0 or v > VARINT_MAX:
        raise ValueError("varint out of range: %r" % (v,))
    if v < 1 << 6:
        return bytes([v])
    if v < 1 << 14:
        return (v | 0x4000).to_bytes(2, "big")
    if v < 1 << 30:
        return (v | 0x80000000).to_bytes(4, "big")
    return (v | 0xC000000000000000).to_bytes(8, "big")


def varint_forced(v, size):
    """Encoding of v on exactly `size` in (1,2,4,8) bytes (possibly non-minimal)."""
    bits = {1: 6, 2: 14, 4: 30, 8: 62}[size]
    if v < 0 or v >= 1 << bits:
        raise ValueError("%r does not fit a %d-byte varint" % (v, size))
    prefix = {1: 0, 2: 1, 4: 2, 8: 3}[size]
    return (v | (prefix << (8 * size - 2))).to_bytes(size, "big")


def read_varint(data, pos=0):
    """-> (value, new_pos); raises ValueError when truncated."""
    if pos >= len(data):
        raise ValueError("truncated varint")
    size = 1 << (data[pos] >> 6)
    if pos + size > len(data):
        raise ValueError("truncated varint")
    v = int.from_bytes(data[pos : pos + size], "big") & ((1 << (8 * size - 2)) - 1)
    return v, pos + size


def varint_spans(data, starts):
    """Given offsets at which varints start in `data`, the list of (start, end) spans."""
    out = []
    for s in starts:
        if s < len(data):
            out.append((s, min(len(data), s + (1 << (data[s] >> 6)))))
    return out


# -------------------------------------------------------------------- frames
def frame(ftype, payload=b"", length=None, type_size=None, length_size=None):
    """HTTP/3 frame: Type (i), Length (i), Payload.  `length` overrides the length field
    (it may lie); *_size force a non-minimal varint."""
    n = len(payload) if length is None else length
    t = varint(ftype) if type_size is None else varint_forced(ftype, type_size)
    ln = varint(n) if length_size is None else varint_forced(n, length_size)
    return t + ln + bytes(payload)


def frame_header_len(ftype, length):
    return len(varint(ftype)) + len(varint(length))


def data_frame(body, length=None):
    return frame(DATA, body, length)


def settings_payload(pairs):
    """pairs: iterable of (identifier, value) - a list, so duplicates are expressible."""
    if isinstance(pairs, dict):
        pairs = pairs.items()
    return b"".join(varint(k) + varint(v) for k, v in pairs)


def settings_frame(pairs=(), length=None):
    return frame(SETTINGS, settings_payload(pairs), length)


DEFAULT_SETTINGS = (
    (SETTINGS_QPACK_MAX_TABLE_CAPACITY, 4096),
    (SETTINGS_QPACK_BLOCKED_STREAMS, 16),
)


def goaway_frame(ident):
    return frame(GOAWAY, varint(ident))


def max_push_id_frame(push_id):
    return frame(MAX_PUSH_ID, varint(push_id))


def cancel_push_frame(push_id):
    return frame(CANCEL_PUSH, varint(push_id))


def uni_stream(stream_type, ident=None, body=b""):
    """Bytes opening a unidirectional stream: Stream Type (i) [Push ID / Session ID (i)]."""
    out = varint(stream_type)
    if ident is not None:
        out += varint(ident)
    return out + bytes(body)


def control_stream(pairs=DEFAULT_SETTINGS, extra=b""):
    return uni_stream(STREAM_CONTROL) + settings_frame(pairs) + extra


def h3_datagram(quarter_stream_id, payload=b""):
    """RFC 9297 §2.1."""
    return varint(quarter_stream_id) + bytes(payload)


# --------------------------------------------------------------------- QPACK
def prefix_int(value, prefix_bits, flags=0):
    """RFC 7541 §5.1 integer with an N-bit prefix; `flags` are the high bits of byte 0."""
    limit = (1 << prefix_bits) - 1
    if value < limit:
        return bytes([flags | value])
    out = [flags | limit]
    value -= limit
    while value >= 128:
        out.append((value & 0x7F) | 0x80)
        value >>= 7
    out.append(value)
    return bytes(out)


def read_prefix_int(data, pos, prefix_bits):
    if pos >= len(data):
        raise ValueError("truncated integer")
    limit = (1 << prefix_bits) - 1
    v = data[pos] & limit
    pos += 1
    if v < limit:
        return v, pos
    shift = 0
    while True:
        if pos >= len(data):
            raise ValueError("truncated integer")
        b = data[pos]
        pos += 1
        v += (b & 0x7F) << shift
        shift += 7
        if not b & 0x80:
            return v, pos
        if shift > 62:
            raise ValueError("integer too large")


def qpack_string(s, prefix_bits=7, flags=0):
    """String literal without Huffman coding: H=0, Length (prefix_bits+), bytes."""
    return prefix_int(len(s), prefix_bits, flags) + bytes(s)


FIELD_SECTION_PREFIX = b"\x00\x00"  # Required Insert Count = 0, S = 0, Delta Base = 0


def literal_line(name, value, never_index=False):
    """RFC 9204 §4.5.6: 0 0 1 N H NameLen(3+) | name | H ValueLen(7+) | value, H = 0."""
    return (
        qpack_string(name, 3, 0x20 | (0x10 if never_index else 0)) + qpack_string(value, 7, 0)
    )


def static_indexed_line(index):
    """RFC 9204 §4.5.2: 1 T Index(6+) with T = 1 (static table)."""
    return prefix_int(index, 6, 0xC0)


def static_nameref_line(index, value, never_index=False):
    """RFC 9204 §4.5.4: 0 1 N T NameIndex(4+) | H ValueLen(7+) | value, T = 1, H = 0."""
    return prefix_int(index, 4, 0x50 | (0x20 if never_index else 0)) + qpack_string(value, 7, 0)


def dynamic_indexed_line(index):
    """RFC 9204 §4.5.2 with T = 0: a reference to the dynamic table (used to build
    field sections that block on the encoder stream)."""
    return prefix_int(index, 6, 0x80)


def section_prefix(required_insert_count_encoded=0, sign=0, delta_base=0):
    """RFC 9204 §4.5.1 with caller-supplied (already encoded) Required Insert Count."""
    return prefix_int(required_insert_count_encoded, 8) + prefix_int(
        delta_base, 7, 0x80 if sign else 0
    )


# RFC 9204 Appendix A
STATIC_TABLE = (
    (b":authority", b""), (b":path", b"/"), (b"age", b"0"), (b"content-disposition", b""),
    (b"content-length", b"0"), (b"cookie", b""), (b"date", b""), (b"etag", b""),
    (b"if-modified-since", b""), (b"if-none-match", b""), (b"last-modified", b""),
    (b"link", b""), (b"location", b""), (b"referer", b""), (b"set-cookie", b""),
    (b":method", b"CONNECT"), (b":method", b"DELETE"), (b":method", b"GET"),
    (b":method", b"HEAD"), (b":method", b"OPTIONS"), (b":method", b"POST"),
    (b":method", b"PUT"), (b":scheme", b"http"), (b":scheme", b"https"),
    (b":status", b"103"), (b":status", b"200"), (b":status", b"304"), (b":status", b"404"),
    (b":status", b"503"), (b"accept", b"*/*"), (b"accept", b"application/dns-message"),
    (b"accept-encoding", b"gzip, deflate, br"), (b"accept-ranges", b"bytes"),
    (b"access-control-allow-headers", b"cache-control"),
    (b"access-control-allow-headers", b"content-type"),
    (b"access-control-allow-origin", b"*"), (b"cache-control", b"max-age=0"),
    (b"cache-control", b"max-age=2592000"), (b"cache-control", b"max-age=604800"),
    (b"cache-control", b"no-cache"), (b"cache-control", b"no-store"),
    (b"cache-control", b"public, max-age=31536000"), (b"content-encoding", b"br"),
    (b"content-encoding", b"gzip"), (b"content-type", b"application/dns-message"),
    (b"content-type", b"application/javascript"), (b"content-type", b"application/json"),
    (b"content-type", b"application/x-www-form-urlencoded"), (b"content-type", b"image/gif"),
    (b"content-type", b"image/jpeg"), (b"content-type", b"image/png"),
    (b"content-type", b"text/css"), (b"content-type", b"text/html; charset=utf-8"),
    (b"content-type", b"text/plain"), (b"content-type", b"text/plain;charset=utf-8"),
    (b"range", b"bytes=0-"), (b"strict-transport-security", b"max-age=31536000"),
    (b"strict-transport-security", b"max-age=31536000; includesubdomains"),
    (b"strict-transport-security", b"max-age=31536000; includesubdomains; preload"),
    (b"vary", b"accept-encoding"), (b"vary", b"origin"),
    (b"x-content-type-options", b"nosniff"), (b"x-xss-protection", b"1; mode=block"),
    (b":status", b"100"), (b":status", b"204"), (b":status", b"206"), (b":status", b"302"),
    (b":status", b"400"), (b":status", b"403"), (b":status", b"421"), (b":status", b"425"),
    (b":status", b"500"), (b"accept-language", b""),
    (b"access-control-allow-credentials", b"FALSE"),
    (b"access-control-allow-credentials", b"TRUE"), (b"access-control-allow-headers", b"*"),
    (b"access-control-allow-methods", b"get"),
    (b"access-control-allow-methods", b"get, post, options"),
    (b"access-control-allow-methods", b"options"),
    (b"access-control-expose-headers", b"content-length"),
    (b"access-control-request-headers", b"content-type"),
    (b"access-control-request-method", b"get"), (b"access-control-request-method", b"post"),
    (b"alt-svc", b"clear"), (b"authorization", b""),
    (b"content-security-policy", b"script-src 'none'; object-src 'none'; base-uri 'none'"),
    (b"early-data", b"1"), (b"expect-ct", b""), (b"forwarded", b""), (b"if-range", b""),
    (b"origin", b""), (b"purpose", b"prefetch"), (b"server", b""),
    (b"timing-allow-origin", b"*"), (b"upgrade-insecure-requests", b"1"),
    (b"user-agent", b""), (b"x-forwarded-for", b""), (b"x-frame-options", b"deny"),
    (b"x-frame-options", b"sameorigin"),
)
assert len(STATIC_TABLE) == 99


def field_section(headers, use_static=False, never_index=False):
    """Encoded field section for [(name, value), ...] (bytes).

    use_static=False: every line is a literal with literal name (§4.5.6).
    use_static=True : exact (name, value) matches become static indexed lines (§4.5.2),
                      name-only matches literal-with-static-name-reference lines (§4.5.4)."""
    out = [FIELD_SECTION_PREFIX]
    for name, value in headers:
        name, value = bytes(name), bytes(value)
        if use_static:
            exact = name_only = None
            for i, (n, v) in enumerate(STATIC_TABLE):
                if n == name:
                    if v == value:
                        exact = i
                        break
                    if name_only is None:
                        name_only = i
            if exact is not None:
                out.append(static_indexed_line(exact))
                continue
            if name_only is not None:
                out.append(static_nameref_line(name_only, value, never_index))
                continue
        out.append(literal_line(name, value, never_index))
    return b"".join(out)


def decode_field_section(data):
    """Decoder for the subset produced by field_section(); ValueError on anything else
    (dynamic references, Huffman strings, truncation)."""
    ric, pos = read_prefix_int(data, 0, 8)
    if pos >= len(data) and len(data) < 2:
        raise ValueError("truncated prefix")
    base, pos = read_prefix_int(data, pos, 7)
    if ric != 0:
        raise ValueError("dynamic table not supported")
    out = []

    def string(pos, bits):
        if pos >= len(data):
            raise ValueError("truncated string")
        if data[pos] & (1 << bits):
            raise ValueError("Huffman not supported")
        n, pos = read_prefix_int(data, pos, bits)
        if pos + n > len(data):
            raise ValueError("truncated string")
        return data[pos : pos + n], pos + n

    while pos < len(data):
        b = data[pos]
        if b & 0x80:  # indexed
            if not b & 0x40:
                raise ValueError("dynamic reference")
            i, pos = read_prefix_int(data, pos, 6)
            if i >= len(STATIC_TABLE):
                raise ValueError("static index out of range")
            out.append(STATIC_TABLE[i])
        elif b & 0x40:  # literal with name reference
            if not b & 0x10:
                raise ValueError("dynamic reference")
            i, pos = read_prefix_int(data, pos, 4)
            if i >= len(STATIC_TABLE):
                raise ValueError("static index out of range")
            v, pos = string(pos, 7)
            out.append((STATIC_TABLE[i][0], v))
        elif b & 0x20:  # literal with literal name
            n, pos = string(pos, 3)
            v, pos = string(pos, 7)
            out.append((n, v))
        else:
            raise ValueError("post-base line")
    return out


def headers_frame(headers, length=None, use_static=False):
    return frame(HEADERS, field_section(headers, use_static), length)


def push_promise_frame(push_id, headers, length=None, use_static=False):
    """RFC 9114 §7.2.5: Push ID (i), Encoded Field Section."""
    return frame(PUSH_PROMISE, varint(push_id) + field_section(headers, use_static), length)


# QPACK encoder-stream instructions (RFC 9204 §4.3), enough to unblock a blocked stream
def enc_set_capacity(capacity):
    return prefix_int(capacity, 5, 0x20)


def enc_insert_literal(name, value):
    """Insert with Literal Name: 0 1 H NameLen(5+) name H ValueLen(7+) value."""
    return qpack_string(name, 5, 0x40) + qpack_string(value, 7, 0)


def enc_insert_static_nameref(index, value):
    """Insert with Name Reference, T = 1: 1 T NameIndex(6+) H ValueLen(7+) value."""
    return prefix_int(index, 6, 0xC0) + qpack_string(value, 7, 0)


def blocked_field_section(max_table_capacity=4096):
    """A field section referring to dynamic-table entry 0 with Required Insert Count 1
    (RFC 9204 §4.5.1.1: encoded RIC = (1 mod 2*MaxEntries) + 1 = 2; Base = RIC + 0,
    relative index 0 = the entry inserted last)."""
    max_entries = max_table_capacity // 32
    enc_ric = (1 % (2 * max_entries)) + 1
    return section_prefix(enc_ric, 0, 0) + dynamic_indexed_line(0)


# ----------------------------------------------------------- header validator
# Rule list of property C15, as worded there.
RULES = {
    "name-uppercase": "names are lower-case (no 'A'..'Z')",
    "name-control": "names are free of control characters (0x00-0x1f, 0x7f)",
    "name-space": "names are free of the space character (0x20)",
    "name-non-ascii": "names are free of non-ASCII characters (>= 0x80)",
    "value-nul-cr-lf": "values are free of NUL, CR and LF",
    "value-leading-ws": "values have no leading whitespace (SP / HTAB)",
    "value-trailing-ws": "values have no trailing whitespace (SP / HTAB)",
    "pseudo-after-regular": "all pseudo-headers come before regular headers",
    "pseudo-repeated": "no pseudo-header is repeated",
    "pseudo-unknown": "no pseudo-header is unknown",
    "method-missing": "requests (and promised requests) carry :method",
    "status-missing": "responses carry :status",
    "pseudo-in-trailers": "trailers carry no pseudo-header",
    "content-length-mismatch": "at end of stream a declared content-length equals the body",
}

REQUEST, RESPONSE, TRAILERS, PUSH_PROMISE_KIND = "request", "response", "trailers", "push_promise"
KINDS = (REQUEST, RESPONSE, TRAILERS, PUSH_PROMISE_KIND)

REQUEST_PSEUDO = frozenset([b":method", b":scheme", b":authority", b":path"])
RESPONSE_PSEUDO = frozenset([b":status"])
# ":protocol" (RFC 8441 / RFC 9220 extended CONNECT) is a request pseudo-header that exists
# only when negotiated; whether it is "known" is left open (EITHER) except in a response
# or in trailers, where no request pseudo-header may appear (RFC 9114 §4.3).
OPTIONAL_REQUEST_PSEUDO = frozenset([b":protocol"])

REJECT, ACCEPT, EITHER = "reject", "accept", "either"
WS = (0x20, 0x09)


def name_rule_breaks(name):
    out = set()
    for c in name:
        if 0x41 <= c <= 0x5A:
            out.add("name-uppercase")
        if c < 0x20 or c == 0x7F:
            out.add("name-control")
        if c == 0x20:
            out.add("name-space")
        if c >= 0x80:
            out.add("name-non-ascii")
    return out


def value_rule_breaks(value):
    out = set()
    for c in value:
        if c in (0x00, 0x0D, 0x0A):
            out.add("value-nul-cr-lf")
    if value:
        if value[0] in WS:
            out.add("value-leading-ws")
        if value[-1] in WS:
            out.add("value-trailing-ws")
    return out


def content_length_declared(value):
    """-> int when value is 1*DIGIT (RFC 9110 §8.6), else None (not judged)."""
    if len(value) > 0 and all(0x30 <= c <= 0x39 for c in value):
        return int(value)
    return None


class Verdict:
    __slots__ = ("verdict", "broken", "unjudged", "content_length")

    def __init__(self, verdict, broken, unjudged, content_length):
        self.verdict = verdict  # REJECT / ACCEPT / EITHER
        self.broken = tuple(sorted(broken))  # rule ids definitely broken
        self.unjudged = tuple(sorted(unjudged))  # aspects the property is silent about
        # declared body size: int, None (nothing declared) or "unjudged"
        self.content_length = content_length

    def __repr__(self):
        return "Verdict(%s broken=%r unjudged=%r cl=%r)" % (
            self.verdict, self.broken, self.unjudged, self.content_length)


def check_headers(headers, kind):
    """Judge one header block ([(name, value)] bytes) of the given kind against the rule
    list of property C15.

    REJECT: at least one listed rule is definitely broken (the block must not reach the
            application; the connection closes with H3_MESSAGE_ERROR).
    ACCEPT: no rule broken and nothing the property leaves open.
    EITHER: no listed rule is definitely broken, but the block has an aspect on which the
            property is silent and an implementation may legitimately be stricter
            (listed in .unjudged); both outcomes are conforming."""
    broken, unjudged = set(), set()
    seen = set()
    regular_seen = False
    declared = []
    if kind not in KINDS:
        raise ValueError(kind)
    if len(headers) == 0:
        # an empty field section: decoders may refuse it before any header rule applies
        unjudged.add("empty-block")
    for name, value in headers:
        name, value = bytes(name), bytes(value)
        broken |= name_rule_breaks(name)
        broken |= value_rule_breaks(value)
        if len(name) == 0:
            unjudged.add("empty-name")
        if name[:1] == b":":
            if regular_seen:
                broken.add("pseudo-after-regular")
            if name in seen:
                broken.add("pseudo-repeated")
            seen.add(name)
            if kind == TRAILERS:
                broken.add("pseudo-in-trailers")
            elif kind == RESPONSE:
                if name not in RESPONSE_PSEUDO:
                    broken.add("pseudo-unknown")
            else:
                if name in REQUEST_PSEUDO:
                    pass
                elif name in OPTIONAL_REQUEST_PSEUDO:
                    unjudged.add("optional-pseudo:" + name.decode())
                else:
                    broken.add("pseudo-unknown")
        else:
            regular_seen = True
            if b":" in name:
                unjudged.add("colon-inside-name")
            if name == b"content-length":
                d = content_length_declared(value)
                if d is None:
                    unjudged.add("content-length-not-digits")
                declared.append(d)
            if name == b"transfer-encoding":
                unjudged.add("transfer-encoding")
    if kind in (REQUEST, PUSH_PROMISE_KIND):
        if b":method" not in seen:
            broken.add("method-missing")
        # RFC 9114 §4.3.1 demands more (:scheme, :path, :authority/host; all four in a
        # promise); the property only names :method.
        if not REQUEST_PSEUDO <= seen:
            unjudged.add("other-request-pseudo-missing")
        d = dict((n, v) for n, v in headers if bytes(n)[:1] == b":")
        if d.get(b":scheme") in (b"http", b"https") and (
            not d.get(b":authority") or not d.get(b":path")
        ):
            unjudged.add("empty-authority-or-path")
    elif kind == RESPONSE:
        if b":status" not in seen:
            broken.add("status-missing")
    # body size declaration
    if not declared:
        cl = None
    elif any(d is None for d in declared) or len(set(declared)) > 1:
        cl = "unjudged"
        if len(set(declared)) > 1:
            unjudged.add("conflicting-content-length")
    else:
        cl = declared[0]
    if kind in (TRAILERS, PUSH_PROMISE_KIND) and declared:
        # a content-length inside trailers / a promise declares nothing about this stream
        cl = None
    if broken:
        v = REJECT
    elif unjudged:
        v = EITHER
    else:
        v = ACCEPT
    return Verdict(v, broken, unjudged, cl)
