import os
import sys

from . import build


def main():
    print("plain:", build.ensure_ext("plain"))
    try:
        print("asan:", build.ensure_ext("asan"))
    except SystemExit as e:
        print("asan build failed:", e)
    if os.path.exists(os.path.join(build.VERIF, "shim", "cryptoshim.c")):
        print("shim:", build.ensure_shim())
    try:
        from . import certs
        certs.ensure_all()
        print("certs ok")
    except ImportError:
        pass


if __name__ == "__main__":
    main()
