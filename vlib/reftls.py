"""reftls - an independent, minimal TLS 1.3 reference written from RFC 8446.

Nothing here imports or copies aioquic code.  Primitives come from `hashlib`,
`hmac`, `struct`, `zlib` and the `cryptography` package (asymmetric keys only).

Layers (each usable on its own):

1. byte codec helpers          `Reader`, `vec`, `DecodeError`
2. handshake message codec     `ClientHello` ... `RawMessage`, `parse_message`,
                               `split_messages`, `encode_handshake`
3. extension codecs            `ext_*` builders / `parse_ext_*` parsers; messages
                               carry extensions as an ordered list of
                               `(type, opaque bytes)` so that every message
                               round-trips byte-exactly
4. key schedule (RFC 8446 7.1) `hkdf_extract`, `hkdf_expand_label`,
                               `derive_secret`, `KeySchedule`, `finished_verify_data`,
                               `psk_binder`, `ticket_psk`, `traffic_keys`,
                               `transcript_hash`, `derive_all_secrets` (NSS key-log
                               labels from an observed transcript)
5. CertificateVerify           `certificate_verify_content`, `sign_certificate_verify`,
                               `verify_certificate_verify`, `default_scheme`
6. key-holding adversaries     `ServerAdversary` (plays the server against a real
                               client), `ClientAdversary` (plays the client against a
                               real server).  They complete the key exchange, track
                               the transcript *as the victim accepted it* and can emit
                               any handshake message kind next, with MAC / signature /
                               binder computed over that transcript.

There is no record layer: QUIC carries bare handshake messages per encryption
level, which is also what `aioquic.tls.Context.handle_message` consumes.
"""
import hashlib
import hmac as _hmac
import struct
import zlib
from dataclasses import dataclass, field

from cryptography import x509
from cryptography.exceptions import InvalidSignature
from cryptography.hazmat.primitives import hashes, serialization
from cryptography.hazmat.primitives.asymmetric import (
    ec,
    ed448,
    ed25519,
    padding,
    rsa,
    x448,
    x25519,
)

# ------------------------------------------------------------------ constants
TLS12 = 0x0303
TLS13 = 0x0304

# HandshakeType (RFC 8446 section 4 / B.3, RFC 8879)
HT_CLIENT_HELLO = 1
HT_SERVER_HELLO = 2
HT_NEW_SESSION_TICKET = 4
HT_END_OF_EARLY_DATA = 5
HT_ENCRYPTED_EXTENSIONS = 8
HT_CERTIFICATE = 11
HT_CERTIFICATE_REQUEST = 13
HT_CERTIFICATE_VERIFY = 15
HT_FINISHED = 20
HT_KEY_UPDATE = 24
HT_COMPRESSED_CERTIFICATE = 25
HT_MESSAGE_HASH = 254

HANDSHAKE_TYPE_NAMES = {
    1: "client_hello", 2: "server_hello", 4: "new_session_ticket", 5: "end_of_early_data",
    8: "encrypted_extensions", 11: "certificate", 13: "certificate_request",
    15: "certificate_verify", 20: "finished", 24: "key_update",
    25: "compressed_certificate", 254: "message_hash",
}

# ExtensionType
EXT_SERVER_NAME = 0
EXT_SUPPORTED_GROUPS = 10
EXT_SIGNATURE_ALGORITHMS = 13
EXT_ALPN = 16
EXT_COMPRESS_CERTIFICATE = 27
EXT_PRE_SHARED_KEY = 41
EXT_EARLY_DATA = 42
EXT_SUPPORTED_VERSIONS = 43
EXT_COOKIE = 44
EXT_PSK_KEY_EXCHANGE_MODES = 45
EXT_KEY_SHARE = 51
EXT_QUIC_TRANSPORT_PARAMETERS = 0x39

# NamedGroup
GROUP_SECP256R1 = 0x0017
GROUP_SECP384R1 = 0x0018
GROUP_X25519 = 0x001D
GROUP_X448 = 0x001E

# SignatureScheme
SIG_RSA_PKCS1_SHA256 = 0x0401
SIG_ECDSA_SECP256R1_SHA256 = 0x0403
SIG_ECDSA_SECP384R1_SHA384 = 0x0503
SIG_ECDSA_SECP521R1_SHA512 = 0x0603
SIG_RSA_PSS_RSAE_SHA256 = 0x0804
SIG_RSA_PSS_RSAE_SHA384 = 0x0805
SIG_RSA_PSS_RSAE_SHA512 = 0x0806
SIG_ED25519 = 0x0807
SIG_ED448 = 0x0808

# CipherSuite -> (hash name, AEAD key length)
CS_AES_128_GCM_SHA256 = 0x1301
CS_AES_256_GCM_SHA384 = 0x1302
CS_CHACHA20_POLY1305_SHA256 = 0x1303
CIPHER_SUITES = {
    CS_AES_128_GCM_SHA256: ("sha256", 16),
    CS_AES_256_GCM_SHA384: ("sha384", 32),
    CS_CHACHA20_POLY1305_SHA256: ("sha256", 32),
}

PSK_KE = 0
PSK_DHE_KE = 1

# RFC 8446 4.1.3: ServerHello.random of a HelloRetryRequest = SHA-256("HelloRetryRequest")
HRR_RANDOM = hashlib.sha256(b"HelloRetryRequest").digest()

SERVER_CV_CONTEXT = b"TLS 1.3, server CertificateVerify"
CLIENT_CV_CONTEXT = b"TLS 1.3, client CertificateVerify"

# NSS key-log labels
NSS_CLIENT_EARLY = "CLIENT_EARLY_TRAFFIC_SECRET"
NSS_EARLY_EXPORTER = "EARLY_EXPORTER_SECRET"
NSS_CLIENT_HS = "CLIENT_HANDSHAKE_TRAFFIC_SECRET"
NSS_SERVER_HS = "SERVER_HANDSHAKE_TRAFFIC_SECRET"
NSS_CLIENT_AP = "CLIENT_TRAFFIC_SECRET_0"
NSS_SERVER_AP = "SERVER_TRAFFIC_SECRET_0"
NSS_EXPORTER = "EXPORTER_SECRET"
RESUMPTION_MASTER = "RESUMPTION_MASTER_SECRET"  # not an NSS label; reported for completeness


class DecodeError(Exception):
    """A byte string is not a well-formed encoding (strict nested-length decoder)."""


# ------------------------------------------------------------- byte-level codec
class Reader:
    """Strict big-endian reader over `data[pos:end]`.  Every nested vector is read
    through `sub()` and must be consumed exactly (`finish()`)."""

    __slots__ = ("data", "pos", "end")

    def __init__(self, data, pos=0, end=None):
        self.data = bytes(data)
        self.pos = pos
        self.end = len(self.data) if end is None else end

    def remaining(self):
        """Number of unread bytes in this block."""
        return self.end - self.pos

    def eof(self):
        """True when the block is fully consumed."""
        return self.pos >= self.end

    def take(self, n):
        """Read exactly n bytes."""
        if n < 0 or self.pos + n > self.end:
            raise DecodeError("truncated: need %d bytes, have %d" % (n, self.end - self.pos))
        out = self.data[self.pos : self.pos + n]
        self.pos += n
        return out

    def uint(self, nbytes):
        """Read an unsigned big-endian integer of nbytes bytes."""
        return int.from_bytes(self.take(nbytes), "big")

    def u8(self):
        """Read a uint8."""
        return self.uint(1)

    def u16(self):
        """Read a uint16."""
        return self.uint(2)

    def u24(self):
        """Read a uint24."""
        return self.uint(3)

    def u32(self):
        """Read a uint32."""
        return self.uint(4)

    def vec(self, nlen):
        """Read opaque<..> prefixed by an nlen-byte length."""
        return self.take(self.uint(nlen))

    def sub(self, nlen):
        """Reader over a vector prefixed by an nlen-byte length (consumed from self)."""
        n = self.uint(nlen)
        if self.pos + n > self.end:
            raise DecodeError("vector length %d exceeds enclosing block" % n)
        r = Reader(self.data, self.pos, self.pos + n)
        self.pos += n
        return r

    def finish(self):
        """Raise unless everything was consumed."""
        if self.pos != self.end:
            raise DecodeError("%d trailing bytes" % (self.end - self.pos))


def vec(nlen, data):
    """Encode opaque data with an nlen-byte length prefix."""
    data = bytes(data)
    if len(data) >= 1 << (8 * nlen):
        raise ValueError("vector too long for %d-byte length" % nlen)
    return len(data).to_bytes(nlen, "big") + data


def u8(v):
    """Encode a uint8."""
    return struct.pack("!B", v)


def u16(v):
    """Encode a uint16."""
    return struct.pack("!H", v)


def u32(v):
    """Encode a uint32."""
    return struct.pack("!I", v)


def encode_extensions(exts):
    """Encode an ordered list of (type, opaque) as `Extension extensions<0..2^16-1>`."""
    return vec(2, b"".join(u16(t) + vec(2, d) for t, d in exts))


def read_extensions(r):
    """Read `Extension extensions<0..2^16-1>` from Reader r -> list of (type, bytes)."""
    out = []
    s = r.sub(2)
    while not s.eof():
        t = s.u16()
        out.append((t, s.vec(2)))
    return out


def get_ext(exts, ext_type):
    """First extension payload of that type in a list of (type, bytes), or None."""
    for t, d in exts:
        if t == ext_type:
            return d
    return None


def encode_handshake(msg_type, body):
    """Handshake framing: msg_type(1) length(3) body (RFC 8446 section 4)."""
    return u8(msg_type) + vec(3, body)


def split_messages(data, allow_partial=False):
    """Split concatenated handshake messages -> list of raw messages (header included).
    Trailing partial message raises DecodeError unless allow_partial (then it is
    returned as second element of a tuple (messages, rest))."""
    data = bytes(data)
    out = []
    pos = 0
    while len(data) - pos >= 4:
        n = 4 + int.from_bytes(data[pos + 1 : pos + 4], "big")
        if pos + n > len(data):
            break
        out.append(data[pos : pos + n])
        pos += n
    rest = data[pos:]
    if allow_partial:
        return out, rest
    if rest:
        raise DecodeError("partial handshake message at the end (%d bytes)" % len(rest))
    return out


# ---------------------------------------------------------- handshake messages
class _Msg:
    msg_type = None

    def body(self):
        """Message body (without the 4-byte handshake header)."""
        raise NotImplementedError

    def encode(self):
        """Full handshake message bytes (type, 24-bit length, body)."""
        return encode_handshake(self.msg_type, self.body())

    def ext(self, ext_type):
        """Payload of the first extension of that type or None."""
        return get_ext(getattr(self, "extensions", []), ext_type)


@dataclass
class ClientHello(_Msg):
    """RFC 8446 4.1.2.  `extensions` is the ordered list of (type, opaque)."""

    random: bytes
    legacy_session_id: bytes = b""
    cipher_suites: list = field(default_factory=lambda: [CS_AES_128_GCM_SHA256])
    legacy_compression_methods: list = field(default_factory=lambda: [0])
    extensions: list = field(default_factory=list)
    legacy_version: int = TLS12
    msg_type = HT_CLIENT_HELLO

    def body(self):
        """Message body (without the 4-byte handshake header)."""
        return (
            u16(self.legacy_version)
            + self.random
            + vec(1, self.legacy_session_id)
            + vec(2, b"".join(u16(c) for c in self.cipher_suites))
            + vec(1, bytes(self.legacy_compression_methods))
            + encode_extensions(self.extensions)
        )

    @classmethod
    def parse_body(cls, body):
        """Strictly decode a message body (without the handshake header) -> instance; DecodeError on any length lie or trailing bytes."""
        r = Reader(body)
        ver = r.u16()
        rnd = r.take(32)
        sid = r.vec(1)
        if len(sid) > 32:
            raise DecodeError("legacy_session_id longer than 32")
        cs = r.sub(2)
        suites = []
        while not cs.eof():
            suites.append(cs.u16())
        comp = list(r.vec(1))
        exts = read_extensions(r)
        r.finish()
        return cls(rnd, sid, suites, comp, exts, ver)


@dataclass
class ServerHello(_Msg):
    """RFC 8446 4.1.3 (also HelloRetryRequest: random == HRR_RANDOM)."""

    random: bytes
    legacy_session_id_echo: bytes = b""
    cipher_suite: int = CS_AES_128_GCM_SHA256
    legacy_compression_method: int = 0
    extensions: list = field(default_factory=list)
    legacy_version: int = TLS12
    msg_type = HT_SERVER_HELLO

    @property
    def is_hello_retry_request(self):
        """True iff random is the HelloRetryRequest magic (RFC 8446 4.1.3)."""
        return self.random == HRR_RANDOM

    def body(self):
        """Message body (without the 4-byte handshake header)."""
        return (
            u16(self.legacy_version)
            + self.random
            + vec(1, self.legacy_session_id_echo)
            + u16(self.cipher_suite)
            + u8(self.legacy_compression_method)
            + encode_extensions(self.extensions)
        )

    @classmethod
    def parse_body(cls, body):
        """Strictly decode a message body (without the handshake header) -> instance; DecodeError on any length lie or trailing bytes."""
        r = Reader(body)
        ver = r.u16()
        rnd = r.take(32)
        sid = r.vec(1)
        suite = r.u16()
        comp = r.u8()
        exts = read_extensions(r)
        r.finish()
        return cls(rnd, sid, suite, comp, exts, ver)


@dataclass
class EncryptedExtensions(_Msg):
    """RFC 8446 4.3.1."""

    extensions: list = field(default_factory=list)
    msg_type = HT_ENCRYPTED_EXTENSIONS

    def body(self):
        """Message body (without the 4-byte handshake header)."""
        return encode_extensions(self.extensions)

    @classmethod
    def parse_body(cls, body):
        """Strictly decode a message body (without the handshake header) -> instance; DecodeError on any length lie or trailing bytes."""
        r = Reader(body)
        exts = read_extensions(r)
        r.finish()
        return cls(exts)


@dataclass
class CertificateRequest(_Msg):
    """RFC 8446 4.3.2."""

    certificate_request_context: bytes = b""
    extensions: list = field(default_factory=list)
    msg_type = HT_CERTIFICATE_REQUEST

    def body(self):
        """Message body (without the 4-byte handshake header)."""
        return vec(1, self.certificate_request_context) + encode_extensions(self.extensions)

    @classmethod
    def parse_body(cls, body):
        """Strictly decode a message body (without the handshake header) -> instance; DecodeError on any length lie or trailing bytes."""
        r = Reader(body)
        ctx = r.vec(1)
        exts = read_extensions(r)
        r.finish()
        return cls(ctx, exts)


@dataclass
class Certificate(_Msg):
    """RFC 8446 4.4.2.  entries = [(cert_der, [(ext_type, opaque), ...]), ...]."""

    certificate_request_context: bytes = b""
    entries: list = field(default_factory=list)
    msg_type = HT_CERTIFICATE

    def body(self):
        """Message body (without the 4-byte handshake header)."""
        lst = b"".join(vec(3, der) + encode_extensions(exts) for der, exts in self.entries)
        return vec(1, self.certificate_request_context) + vec(3, lst)

    @classmethod
    def parse_body(cls, body):
        """Strictly decode a message body (without the handshake header) -> instance; DecodeError on any length lie or trailing bytes."""
        r = Reader(body)
        ctx = r.vec(1)
        lst = r.sub(3)
        entries = []
        while not lst.eof():
            der = lst.vec(3)
            entries.append((der, read_extensions(lst)))
        r.finish()
        return cls(ctx, entries)


@dataclass
class CertificateVerify(_Msg):
    """RFC 8446 4.4.3."""

    algorithm: int = SIG_ED25519
    signature: bytes = b""
    msg_type = HT_CERTIFICATE_VERIFY

    def body(self):
        """Message body (without the 4-byte handshake header)."""
        return u16(self.algorithm) + vec(2, self.signature)

    @classmethod
    def parse_body(cls, body):
        """Strictly decode a message body (without the handshake header) -> instance; DecodeError on any length lie or trailing bytes."""
        r = Reader(body)
        alg = r.u16()
        sig = r.vec(2)
        r.finish()
        return cls(alg, sig)


@dataclass
class Finished(_Msg):
    """RFC 8446 4.4.4 (verify_data is the whole body)."""

    verify_data: bytes = b""
    msg_type = HT_FINISHED

    def body(self):
        """Message body (without the 4-byte handshake header)."""
        return self.verify_data

    @classmethod
    def parse_body(cls, body):
        """Strictly decode a message body (without the handshake header) -> instance; DecodeError on any length lie or trailing bytes."""
        return cls(bytes(body))


@dataclass
class NewSessionTicket(_Msg):
    """RFC 8446 4.6.1."""

    ticket_lifetime: int = 0
    ticket_age_add: int = 0
    ticket_nonce: bytes = b""
    ticket: bytes = b""
    extensions: list = field(default_factory=list)
    msg_type = HT_NEW_SESSION_TICKET

    def body(self):
        """Message body (without the 4-byte handshake header)."""
        return (
            u32(self.ticket_lifetime)
            + u32(self.ticket_age_add)
            + vec(1, self.ticket_nonce)
            + vec(2, self.ticket)
            + encode_extensions(self.extensions)
        )

    @classmethod
    def parse_body(cls, body):
        """Strictly decode a message body (without the handshake header) -> instance; DecodeError on any length lie or trailing bytes."""
        r = Reader(body)
        life = r.u32()
        add = r.u32()
        nonce = r.vec(1)
        ticket = r.vec(2)
        exts = read_extensions(r)
        r.finish()
        return cls(life, add, nonce, ticket, exts)


@dataclass
class KeyUpdate(_Msg):
    """RFC 8446 4.6.3 (0 = update_not_requested, 1 = update_requested)."""

    request_update: int = 0
    msg_type = HT_KEY_UPDATE

    def body(self):
        """Message body (without the 4-byte handshake header)."""
        return u8(self.request_update)

    @classmethod
    def parse_body(cls, body):
        """Strictly decode a message body (without the handshake header) -> instance; DecodeError on any length lie or trailing bytes."""
        r = Reader(body)
        v = r.u8()
        r.finish()
        return cls(v)


@dataclass
class EndOfEarlyData(_Msg):
    """RFC 8446 4.5 (empty body)."""

    msg_type = HT_END_OF_EARLY_DATA

    def body(self):
        """Message body (without the 4-byte handshake header)."""
        return b""

    @classmethod
    def parse_body(cls, body):
        """Strictly decode a message body (without the handshake header) -> instance; DecodeError on any length lie or trailing bytes."""
        if body:
            raise DecodeError("EndOfEarlyData has a body")
        return cls()


@dataclass
class CompressedCertificate(_Msg):
    """RFC 8879 section 4 (algorithm 1 = zlib)."""

    algorithm: int = 1
    uncompressed_length: int = 0
    compressed: bytes = b""
    msg_type = HT_COMPRESSED_CERTIFICATE

    def body(self):
        """Message body (without the 4-byte handshake header)."""
        return u16(self.algorithm) + self.uncompressed_length.to_bytes(3, "big") + vec(3, self.compressed)

    @classmethod
    def parse_body(cls, body):
        """Strictly decode a message body (without the handshake header) -> instance; DecodeError on any length lie or trailing bytes."""
        r = Reader(body)
        alg = r.u16()
        n = r.u24()
        data = r.vec(3)
        r.finish()
        return cls(alg, n, data)

    @classmethod
    def from_certificate(cls, cert_msg):
        """zlib-compress the body of a Certificate message."""
        b = cert_msg.body()
        return cls(1, len(b), zlib.compress(b))


@dataclass
class RawMessage(_Msg):
    """Any handshake message kept as (type, body): unknown types, message_hash, or a
    known type whose body is deliberately not interpreted."""

    msg_type: int = 99
    raw_body: bytes = b""

    def body(self):
        """Message body (without the 4-byte handshake header)."""
        return self.raw_body


_PARSERS = {
    HT_CLIENT_HELLO: ClientHello,
    HT_SERVER_HELLO: ServerHello,
    HT_NEW_SESSION_TICKET: NewSessionTicket,
    HT_END_OF_EARLY_DATA: EndOfEarlyData,
    HT_ENCRYPTED_EXTENSIONS: EncryptedExtensions,
    HT_CERTIFICATE: Certificate,
    HT_CERTIFICATE_REQUEST: CertificateRequest,
    HT_CERTIFICATE_VERIFY: CertificateVerify,
    HT_FINISHED: Finished,
    HT_KEY_UPDATE: KeyUpdate,
    HT_COMPRESSED_CERTIFICATE: CompressedCertificate,
}


def parse_message(raw):
    """Parse ONE complete handshake message (header included) into its dataclass;
    unknown types give RawMessage.  Strict: DecodeError on any length lie / trailing
    bytes.  `parse_message(m).encode() == m` for every accepted m."""
    raw = bytes(raw)
    if len(raw) < 4:
        raise DecodeError("handshake header truncated")
    n = int.from_bytes(raw[1:4], "big")
    if len(raw) != 4 + n:
        raise DecodeError("handshake length field %d but %d body bytes" % (n, len(raw) - 4))
    cls = _PARSERS.get(raw[0])
    if cls is None:
        return RawMessage(raw[0], raw[4:])
    return cls.parse_body(raw[4:])


def message_type(raw):
    """HandshakeType of a raw message."""
    return raw[0]


# ------------------------------------------------------------- extension codecs
def ext_supported_versions_client(versions=(TLS13,)):
    """ClientHello supported_versions payload."""
    return vec(1, b"".join(u16(v) for v in versions))


def parse_ext_supported_versions_client(data):
    """ClientHello supported_versions payload -> list of versions."""
    r = Reader(data)
    s = r.sub(1)
    out = []
    while not s.eof():
        out.append(s.u16())
    r.finish()
    return out


def ext_supported_versions_server(version=TLS13):
    """ServerHello / HRR supported_versions payload (selected_version)."""
    return u16(version)


def parse_ext_supported_versions_server(data):
    """ServerHello/HRR supported_versions payload -> selected version."""
    r = Reader(data)
    v = r.u16()
    r.finish()
    return v


def ext_key_share_client(shares):
    """ClientHello key_share payload from [(group, key_exchange bytes), ...]."""
    return vec(2, b"".join(u16(g) + vec(2, k) for g, k in shares))


def parse_ext_key_share_client(data):
    """ClientHello key_share payload -> [(group, key_exchange)]."""
    r = Reader(data)
    s = r.sub(2)
    out = []
    while not s.eof():
        g = s.u16()
        out.append((g, s.vec(2)))
    r.finish()
    return out


def ext_key_share_server(group, key_exchange):
    """ServerHello key_share payload (one KeyShareEntry)."""
    return u16(group) + vec(2, key_exchange)


def parse_ext_key_share_server(data):
    """ServerHello key_share payload -> (group, key_exchange)."""
    r = Reader(data)
    g = r.u16()
    k = r.vec(2)
    r.finish()
    return g, k


def ext_key_share_hrr(group):
    """HelloRetryRequest key_share payload (selected_group only)."""
    return u16(group)


def ext_u16_list(values):
    """signature_algorithms / supported_groups payload: uint16 list<2..2^16-2>."""
    return vec(2, b"".join(u16(v) for v in values))


ext_signature_algorithms = ext_u16_list
ext_supported_groups = ext_u16_list


def parse_ext_u16_list(data):
    """signature_algorithms / supported_groups payload -> list of uint16."""
    r = Reader(data)
    s = r.sub(2)
    out = []
    while not s.eof():
        out.append(s.u16())
    r.finish()
    return out


def ext_server_name(host):
    """server_name payload with a single host_name entry (RFC 6066 section 3)."""
    if isinstance(host, str):
        host = host.encode("ascii")
    return vec(2, u8(0) + vec(2, host))


def parse_ext_server_name(data):
    """-> list of (name_type, name bytes)."""
    r = Reader(data)
    s = r.sub(2)
    out = []
    while not s.eof():
        t = s.u8()
        out.append((t, s.vec(2)))
    r.finish()
    return out


def ext_alpn(protocols):
    """ALPN payload (RFC 7301) from a list of str/bytes."""
    items = [p.encode("ascii") if isinstance(p, str) else p for p in protocols]
    return vec(2, b"".join(vec(1, p) for p in items))


def parse_ext_alpn(data):
    """ALPN payload -> list of protocol names (bytes)."""
    r = Reader(data)
    s = r.sub(2)
    out = []
    while not s.eof():
        out.append(s.vec(1))
    r.finish()
    return out


def ext_psk_key_exchange_modes(modes=(PSK_DHE_KE,)):
    """psk_key_exchange_modes payload (RFC 8446 4.2.9)."""
    return vec(1, bytes(modes))


def parse_ext_psk_key_exchange_modes(data):
    """psk_key_exchange_modes payload -> list of modes."""
    r = Reader(data)
    out = list(r.vec(1))
    r.finish()
    return out


def ext_pre_shared_key_client(identities, binders):
    """ClientHello pre_shared_key payload; identities = [(identity, obfuscated_age)],
    binders = [bytes]."""
    ids = b"".join(vec(2, i) + u32(a) for i, a in identities)
    bnd = b"".join(vec(1, b) for b in binders)
    return vec(2, ids) + vec(2, bnd)


def parse_ext_pre_shared_key_client(data):
    """-> (identities [(identity, age)], binders [bytes])."""
    r = Reader(data)
    s = r.sub(2)
    ids = []
    while not s.eof():
        i = s.vec(2)
        ids.append((i, s.u32()))
    s = r.sub(2)
    binders = []
    while not s.eof():
        binders.append(s.vec(1))
    r.finish()
    return ids, binders


def binders_block_length(binders):
    """Length of the encoded `PskBinderEntry binders<33..2^16-1>` including its 2-byte
    length prefix: what Truncate(ClientHello) removes (RFC 8446 4.2.11.2)."""
    return 2 + sum(1 + len(b) for b in binders)


def ext_pre_shared_key_server(selected_identity):
    """ServerHello pre_shared_key payload (selected_identity)."""
    return u16(selected_identity)


def parse_ext_pre_shared_key_server(data):
    """ServerHello pre_shared_key payload -> selected identity index."""
    r = Reader(data)
    v = r.u16()
    r.finish()
    return v


def ext_early_data_ticket(max_early_data_size):
    """early_data payload inside NewSessionTicket."""
    return u32(max_early_data_size)


# ------------------------------------------------------------------ key schedule
def hash_len(hash_name):
    """Digest size in bytes of a hashlib hash name."""
    return hashlib.new(hash_name).digest_size


def hkdf_extract(hash_name, salt, ikm):
    """HKDF-Extract (RFC 5869 2.2)."""
    return _hmac.new(salt, ikm, hash_name).digest()


def hkdf_expand(hash_name, prk, info, length):
    """HKDF-Expand (RFC 5869 2.3)."""
    out = b""
    t = b""
    i = 1
    while len(out) < length:
        t = _hmac.new(prk, t + info + bytes([i]), hash_name).digest()
        out += t
        i += 1
    return out[:length]


def hkdf_expand_label(hash_name, secret, label, context, length):
    """HKDF-Expand-Label (RFC 8446 7.1); label without the "tls13 " prefix."""
    if isinstance(label, str):
        label = label.encode("ascii")
    info = u16(length) + vec(1, b"tls13 " + label) + vec(1, context)
    return hkdf_expand(hash_name, secret, info, length)


def derive_secret(hash_name, secret, label, transcript_hash_value):
    """Derive-Secret (RFC 8446 7.1) given the already computed Transcript-Hash."""
    return hkdf_expand_label(hash_name, secret, label, transcript_hash_value, hash_len(hash_name))


def transcript_hash(hash_name, messages):
    """Transcript-Hash over raw handshake messages (RFC 8446 4.4.1), including the
    HelloRetryRequest rule: if the second message is a HRR, ClientHello1 is replaced
    by message_hash || 00 00 Hash.length || Hash(ClientHello1)."""
    msgs = [bytes(m) for m in messages]
    if len(msgs) >= 2 and msgs[1][:1] == bytes([HT_SERVER_HELLO]) and msgs[1][6:38] == HRR_RANDOM:
        h1 = hashlib.new(hash_name, msgs[0]).digest()
        msgs = [encode_handshake(HT_MESSAGE_HASH, h1)] + msgs[1:]
    return hashlib.new(hash_name, b"".join(msgs)).digest()


def finished_key(hash_name, base_key):
    """finished_key = HKDF-Expand-Label(BaseKey, "finished", "", Hash.length)."""
    return hkdf_expand_label(hash_name, base_key, "finished", b"", hash_len(hash_name))


def finished_verify_data(hash_name, base_key, transcript_hash_value):
    """verify_data = HMAC(finished_key, Transcript-Hash(...)) (RFC 8446 4.4.4)."""
    return _hmac.new(finished_key(hash_name, base_key), transcript_hash_value, hash_name).digest()


def ticket_psk(hash_name, resumption_master_secret, ticket_nonce):
    """PSK of a NewSessionTicket (RFC 8446 4.6.1)."""
    return hkdf_expand_label(hash_name, resumption_master_secret, "resumption", ticket_nonce,
                             hash_len(hash_name))


def traffic_keys(cipher_suite, traffic_secret):
    """(write_key, write_iv) of the TLS record layer for a traffic secret (RFC 8446 7.3).
    (QUIC derives its packet keys with other labels: that is refquic's business.)"""
    hn, klen = CIPHER_SUITES[cipher_suite]
    return (hkdf_expand_label(hn, traffic_secret, "key", b"", klen),
            hkdf_expand_label(hn, traffic_secret, "iv", b"", 12))


def next_traffic_secret(hash_name, traffic_secret):
    """application_traffic_secret_N+1 (RFC 8446 7.2)."""
    return hkdf_expand_label(hash_name, traffic_secret, "traffic upd", b"", hash_len(hash_name))


class KeySchedule:
    """RFC 8446 section 7.1, driven with explicit transcript hashes.

        ks = KeySchedule(cipher_suite, psk=None)
        ks.binder_key(external=False)
        ks.early(th_ch)                       -> client_early_traffic, early_exporter
        ks.handshake(shared_secret, th_ch_sh) -> client_hs, server_hs
        ks.master(th_ch_sfin)                 -> client_ap, server_ap, exporter
        ks.resumption(th_ch_cfin)             -> resumption_master
    """

    def __init__(self, cipher_suite, psk=None):
        self.cipher_suite = cipher_suite
        self.hash_name = CIPHER_SUITES[cipher_suite][0]
        self.hlen = hash_len(self.hash_name)
        self.zero = bytes(self.hlen)
        self.empty_hash = hashlib.new(self.hash_name, b"").digest()
        self.psk = psk
        self.early_secret = hkdf_extract(self.hash_name, self.zero, psk if psk is not None else self.zero)
        self.handshake_secret = None
        self.master_secret = None
        self.client_early_traffic = None
        self.early_exporter = None
        self.client_hs = None
        self.server_hs = None
        self.client_ap = None
        self.server_ap = None
        self.exporter = None
        self.resumption_master = None

    def _ds(self, secret, label, th):
        return derive_secret(self.hash_name, secret, label, th)

    def binder_key(self, external=False):
        """binder_key for resumption ("res binder") or external ("ext binder") PSKs."""
        return self._ds(self.early_secret, "ext binder" if external else "res binder", self.empty_hash)

    def early(self, th_client_hello):
        """client_early_traffic_secret and early_exporter_master_secret (transcript = ClientHello)."""
        self.client_early_traffic = self._ds(self.early_secret, "c e traffic", th_client_hello)
        self.early_exporter = self._ds(self.early_secret, "e exp master", th_client_hello)
        return self.client_early_traffic

    def handshake(self, shared_secret, th_ch_sh):
        """Handshake Secret and both handshake traffic secrets (transcript CH..SH)."""
        derived = self._ds(self.early_secret, "derived", self.empty_hash)
        self.handshake_secret = hkdf_extract(self.hash_name, derived, shared_secret)
        self.client_hs = self._ds(self.handshake_secret, "c hs traffic", th_ch_sh)
        self.server_hs = self._ds(self.handshake_secret, "s hs traffic", th_ch_sh)
        return self.client_hs, self.server_hs

    def master(self, th_ch_server_finished):
        """Master Secret and application traffic secrets (transcript CH..server Finished)."""
        derived = self._ds(self.handshake_secret, "derived", self.empty_hash)
        self.master_secret = hkdf_extract(self.hash_name, derived, self.zero)
        self.client_ap = self._ds(self.master_secret, "c ap traffic", th_ch_server_finished)
        self.server_ap = self._ds(self.master_secret, "s ap traffic", th_ch_server_finished)
        self.exporter = self._ds(self.master_secret, "exp master", th_ch_server_finished)
        return self.client_ap, self.server_ap

    def resumption(self, th_ch_client_finished):
        """resumption_master_secret (transcript CH..client Finished)."""
        self.resumption_master = self._ds(self.master_secret, "res master", th_ch_client_finished)
        return self.resumption_master

    def nss(self):
        """Secrets computed so far under their NSS key-log labels."""
        out = {}
        for label, v in (
            (NSS_CLIENT_EARLY, self.client_early_traffic), (NSS_EARLY_EXPORTER, self.early_exporter),
            (NSS_CLIENT_HS, self.client_hs), (NSS_SERVER_HS, self.server_hs),
            (NSS_CLIENT_AP, self.client_ap), (NSS_SERVER_AP, self.server_ap),
            (NSS_EXPORTER, self.exporter), (RESUMPTION_MASTER, self.resumption_master),
        ):
            if v is not None:
                out[label] = v
        return out


def psk_binder(hash_name, psk, truncated_client_hello, external=False, prior_messages=()):
    """PSK binder (RFC 8446 4.2.11.2): HMAC under finished_key(binder_key) of
    Transcript-Hash(prior_messages + Truncate(ClientHello)).  `truncated_client_hello`
    is the full handshake message (header with the *final* length) cut just before the
    binders list (see `binders_block_length`)."""
    hl = hash_len(hash_name)
    early = hkdf_extract(hash_name, bytes(hl), psk)
    bk = derive_secret(hash_name, early, "ext binder" if external else "res binder",
                       hashlib.new(hash_name, b"").digest())
    th = hashlib.new(hash_name, b"".join(prior_messages) + truncated_client_hello).digest()
    return finished_verify_data(hash_name, bk, th)


# --------------------------------------------------------------- key exchange
_CURVES = {GROUP_SECP256R1: ec.SECP256R1, GROUP_SECP384R1: ec.SECP384R1}
GROUP_NAMES = {GROUP_X25519: "x25519", GROUP_X448: "x448", GROUP_SECP256R1: "secp256r1",
               GROUP_SECP384R1: "secp384r1"}


def dh_private_from_seed(group, seed=b"reftls"):
    """Deterministic private key object for a named group from a seed (the adversary's
    key material must not vary between replays of the same history)."""
    material = hashlib.sha512(b"reftls-dh|%d|" % group + seed).digest()
    if group == GROUP_X25519:
        return x25519.X25519PrivateKey.from_private_bytes(material[:32])
    if group == GROUP_X448:
        return x448.X448PrivateKey.from_private_bytes((material + material)[:56])
    if group in _CURVES:
        curve = _CURVES[group]()
        order_bytes = (curve.key_size + 7) // 8
        v = int.from_bytes((material + material)[:order_bytes], "big") >> 8
        return ec.derive_private_key(v + 1, curve)
    raise ValueError("unsupported group 0x%04x" % group)


def dh_public_bytes(private_key):
    """key_exchange bytes of a private key (raw for X25519/X448, uncompressed point for
    NIST curves; RFC 8446 4.2.8.2)."""
    pub = private_key.public_key()
    if isinstance(pub, (x25519.X25519PublicKey, x448.X448PublicKey)):
        return pub.public_bytes(serialization.Encoding.Raw, serialization.PublicFormat.Raw)
    return pub.public_bytes(serialization.Encoding.X962, serialization.PublicFormat.UncompressedPoint)


def dh_shared(private_key, group, peer_key_exchange):
    """(EC)DHE shared secret between our private key and the peer's key_exchange bytes."""
    if group == GROUP_X25519:
        return private_key.exchange(x25519.X25519PublicKey.from_public_bytes(peer_key_exchange))
    if group == GROUP_X448:
        return private_key.exchange(x448.X448PublicKey.from_public_bytes(peer_key_exchange))
    if group in _CURVES:
        peer = ec.EllipticCurvePublicKey.from_encoded_point(_CURVES[group](), peer_key_exchange)
        return private_key.exchange(ec.ECDH(), peer)
    raise ValueError("unsupported group 0x%04x" % group)


# ------------------------------------------------------------ CertificateVerify
_SIG_HASH = {
    SIG_RSA_PKCS1_SHA256: hashes.SHA256, SIG_RSA_PSS_RSAE_SHA256: hashes.SHA256,
    SIG_RSA_PSS_RSAE_SHA384: hashes.SHA384, SIG_RSA_PSS_RSAE_SHA512: hashes.SHA512,
    SIG_ECDSA_SECP256R1_SHA256: hashes.SHA256, SIG_ECDSA_SECP384R1_SHA384: hashes.SHA384,
    SIG_ECDSA_SECP521R1_SHA512: hashes.SHA512,
}


def default_scheme(private_or_public_key):
    """The TLS 1.3 SignatureScheme that goes with a key type."""
    k = private_or_public_key
    if isinstance(k, (ed25519.Ed25519PrivateKey, ed25519.Ed25519PublicKey)):
        return SIG_ED25519
    if isinstance(k, (ed448.Ed448PrivateKey, ed448.Ed448PublicKey)):
        return SIG_ED448
    if isinstance(k, (rsa.RSAPrivateKey, rsa.RSAPublicKey)):
        return SIG_RSA_PSS_RSAE_SHA256
    if isinstance(k, (ec.EllipticCurvePrivateKey, ec.EllipticCurvePublicKey)):
        return {256: SIG_ECDSA_SECP256R1_SHA256, 384: SIG_ECDSA_SECP384R1_SHA384,
                521: SIG_ECDSA_SECP521R1_SHA512}[k.curve.key_size]
    raise ValueError("no signature scheme for %r" % (k,))


def certificate_verify_content(is_server, transcript_hash_value):
    """The signed content of CertificateVerify (RFC 8446 4.4.3): 64 spaces, context
    string, a zero byte, Transcript-Hash(Handshake Context, Certificate)."""
    return b"\x20" * 64 + (SERVER_CV_CONTEXT if is_server else CLIENT_CV_CONTEXT) + b"\x00" + transcript_hash_value


def _sig_args(scheme):
    if scheme in (SIG_ED25519, SIG_ED448):
        return ()
    h = _SIG_HASH[scheme]()
    if scheme in (SIG_RSA_PSS_RSAE_SHA256, SIG_RSA_PSS_RSAE_SHA384, SIG_RSA_PSS_RSAE_SHA512):
        return (padding.PSS(mgf=padding.MGF1(h), salt_length=h.digest_size), h)
    if scheme == SIG_RSA_PKCS1_SHA256:
        return (padding.PKCS1v15(), h)
    return (ec.ECDSA(h),)


def sign_certificate_verify(private_key, scheme, is_server, transcript_hash_value):
    """Signature of a CertificateVerify made by the server (is_server) or the client."""
    return private_key.sign(certificate_verify_content(is_server, transcript_hash_value), *_sig_args(scheme))


def verify_certificate_verify(public_key, scheme, signature, is_server, transcript_hash_value):
    """True iff `signature` is a valid CertificateVerify signature under public_key
    (a `cryptography` public key, or DER certificate bytes)."""
    if isinstance(public_key, (bytes, bytearray)):
        public_key = x509.load_der_x509_certificate(bytes(public_key)).public_key()
    try:
        public_key.verify(signature, certificate_verify_content(is_server, transcript_hash_value),
                          *_sig_args(scheme))
        return True
    except (InvalidSignature, KeyError, TypeError, ValueError):
        return False


def load_pem_chain(pem_bytes):
    """PEM bundle -> list of DER certificates."""
    out = []
    end = b"-----END CERTIFICATE-----"
    for chunk in pem_bytes.split(end):
        if b"-----BEGIN CERTIFICATE-----" in chunk:
            out.append(x509.load_pem_x509_certificate(chunk + end + b"\n")
                       .public_bytes(serialization.Encoding.DER))
    return out


def load_pem_key(pem_bytes):
    """PEM private key -> cryptography private key object."""
    return serialization.load_pem_private_key(pem_bytes, password=None)


# ---------------------------------------- third-opinion derivation from a transcript
def derive_all_secrets(messages, shared_secret=None, private_key=None, private_key_role="server",
                       psk=None):
    """Derive every TLS 1.3 secret from an *observed* handshake, independently of
    either endpoint.

    messages   raw handshake messages in wire order: ClientHello, ServerHello,
               EncryptedExtensions, ..., server Finished, [client Certificate,
               CertificateVerify,] client Finished (a prefix is fine: only the secrets
               whose transcript is complete are returned).  A leading
               ClientHello1 + HelloRetryRequest pair is handled.
    shared_secret   the (EC)DHE shared secret, or
    private_key     the ephemeral private key object of `private_key_role`
               ("server" or "client"); the peer's share is taken from the hellos.
    psk        the PSK if ServerHello selected one (else None).

    Returns {NSS label: secret} with CLIENT_HANDSHAKE_TRAFFIC_SECRET,
    SERVER_HANDSHAKE_TRAFFIC_SECRET, CLIENT_TRAFFIC_SECRET_0, SERVER_TRAFFIC_SECRET_0,
    EXPORTER_SECRET, (CLIENT_EARLY_TRAFFIC_SECRET, EARLY_EXPORTER_SECRET with a psk),
    RESUMPTION_MASTER_SECRET, plus "cipher_suite", "client_random".
    """
    msgs = [bytes(m) for m in messages]
    base = 0
    if len(msgs) >= 2 and msgs[1][0] == HT_SERVER_HELLO and parse_message(msgs[1]).is_hello_retry_request:
        base = 2  # CH1, HRR, CH2, SH ...
    ch = parse_message(msgs[base])
    if not isinstance(ch, ClientHello):
        raise DecodeError("first message is not a ClientHello")
    out = {"client_random": ch.random}
    if len(msgs) < base + 2:
        return out
    sh = parse_message(msgs[base + 1])
    if not isinstance(sh, ServerHello):
        raise DecodeError("second message is not a ServerHello")
    cs = sh.cipher_suite
    out["cipher_suite"] = cs
    hn = CIPHER_SUITES[cs][0]
    if sh.ext(EXT_PRE_SHARED_KEY) is None:
        psk = None
    ks = KeySchedule(cs, psk)
    if psk is not None:
        ks.early(transcript_hash(hn, msgs[: base + 1]))
    if shared_secret is None:
        ksd = sh.ext(EXT_KEY_SHARE)
        if ksd is None:
            shared_secret = bytes(ks.hlen)  # psk_ke
        else:
            group, skey = parse_ext_key_share_server(ksd)
            if private_key is None:
                raise ValueError("need shared_secret or private_key")
            if private_key_role == "server":
                peer = dict(parse_ext_key_share_client(ch.ext(EXT_KEY_SHARE)))[group]
            else:
                peer = skey
            shared_secret = dh_shared(private_key, group, peer)
    ks.handshake(shared_secret, transcript_hash(hn, msgs[: base + 2]))
    fins = [i for i, m in enumerate(msgs) if i > base + 1 and m[0] == HT_FINISHED]
    if fins:
        ks.master(transcript_hash(hn, msgs[: fins[0] + 1]))
    if len(fins) >= 2:
        ks.resumption(transcript_hash(hn, msgs[: fins[1] + 1]))
    out.update(ks.nss())
    return out


def format_keylog(secrets):
    """NSS key-log text for a dict returned by derive_all_secrets()."""
    cr = secrets["client_random"].hex()
    lines = []
    for label in (NSS_CLIENT_EARLY, NSS_EARLY_EXPORTER, NSS_CLIENT_HS, NSS_SERVER_HS, NSS_CLIENT_AP,
                  NSS_SERVER_AP, NSS_EXPORTER):
        if label in secrets:
            lines.append("%s %s %s" % (label, cr, secrets[label].hex()))
    return "\n".join(lines) + "\n"


# ------------------------------------------------------------------- adversaries
DEFAULT_SERVER_RANDOM = hashlib.sha256(b"reftls server random").digest()
DEFAULT_CLIENT_RANDOM = hashlib.sha256(b"reftls client random").digest()

#: message kinds every adversary can emit (`make(kind)`)
KINDS = (
    "client_hello", "server_hello", "hello_retry_request", "new_session_ticket",
    "end_of_early_data", "encrypted_extensions", "certificate_request", "certificate",
    "certificate_verify", "finished", "key_update", "compressed_certificate",
    "message_hash", "unknown",
)


class _AdversaryBase:
    """State shared by both adversaries.

    transcript  list of raw handshake messages *as the victim has accepted them* (own
                messages are appended only through `accepted()`, the victim's through
                the `receive_*` methods)
    ks          `KeySchedule` once ServerHello is in the transcript
    secrets()   NSS-labelled secrets known so far
    """

    is_server = None

    def __init__(self, cert_chain, leaf_key, other_key, sig_scheme=None):
        self.cert_chain = list(cert_chain or [])
        self.leaf_key = leaf_key
        self.other_key = other_key
        self.sig_scheme = sig_scheme
        self.transcript = []
        self.ks = None
        self.cipher_suite = None
        self.shared_secret = None
        self.group = None
        self.client_hello = None
        self.server_hello = None
        self._pending = {}

    # -- helpers
    @property
    def hash_name(self):
        """hashlib name of the negotiated cipher suite's hash (sha256 before negotiation)."""
        return CIPHER_SUITES[self.cipher_suite or CS_AES_128_GCM_SHA256][0]

    def th(self, extra=()):
        """Transcript-Hash of the accepted transcript (+ extra raw messages)."""
        return transcript_hash(self.hash_name, self.transcript + list(extra))

    def secrets(self):
        """NSS-labelled secrets known so far."""
        return self.ks.nss() if self.ks else {}

    def _key(self, which):
        if which in (None, "leaf", "real"):
            return self.leaf_key
        if which in ("other", "spare"):
            return self.other_key
        return which  # a key object

    def _base_secret(self, own):
        """Handshake traffic secret that MACs Finished of the adversary's own side; a
        dummy (all-zero handshake) before keys exist, so that a Finished can be emitted
        in any state."""
        if self.ks is not None and self.ks.server_hs is not None:
            return self.ks.server_hs if own == "server" else self.ks.client_hs
        ks = KeySchedule(self.cipher_suite or CS_AES_128_GCM_SHA256)
        ks.handshake(bytes(ks.hlen), self.th())
        return ks.server_hs if own == "server" else ks.client_hs

    def _finished(self, own, kw):
        """Finished of side `own` over the accepted transcript; corrupt=True flips one bit
        of verify_data (a Finished that does NOT verify)."""
        vd = finished_verify_data(self.hash_name, self._base_secret(own), self.th())
        if kw.get("corrupt"):
            vd = vd[:-1] + bytes([vd[-1] ^ 0x01])
        return Finished(vd)

    def _certificate(self, context=b"", chain=None):
        chain = self.cert_chain if chain is None else chain
        return Certificate(context, [(der, []) for der in chain])

    def _certificate_verify(self, key=None, scheme=None, over=None):
        k = self._key(key)
        scheme = scheme or (self.sig_scheme if k is self.leaf_key and self.sig_scheme else default_scheme(k))
        th = self.th() if over is None else over
        return CertificateVerify(scheme, sign_certificate_verify(k, scheme, self.is_server, th))

    def _common(self, kind, kw):
        """Kinds whose encoding does not depend on the role."""
        if kind == "end_of_early_data":
            return EndOfEarlyData()
        if kind == "key_update":
            return KeyUpdate(kw.get("request_update", 0))
        if kind == "message_hash":
            return RawMessage(HT_MESSAGE_HASH, self.th())
        if kind == "unknown":
            return RawMessage(kw.get("msg_type", 99), kw.get("body", b"\x00\x01\x02\x03"))
        if kind == "compressed_certificate":
            return CompressedCertificate.from_certificate(self._certificate(kw.get("context", b"")))
        if kind == "certificate_verify":
            return self._certificate_verify(kw.get("key"), kw.get("scheme"))
        if kind == "certificate_request":
            return CertificateRequest(kw.get("context", b""), [
                (EXT_SIGNATURE_ALGORITHMS, ext_signature_algorithms(
                    kw.get("signature_algorithms", (SIG_ED25519, SIG_ECDSA_SECP256R1_SHA256,
                                                    SIG_RSA_PSS_RSAE_SHA256))))])
        if kind == "new_session_ticket":
            exts = []
            if kw.get("max_early_data_size") is not None:
                exts.append((EXT_EARLY_DATA, ext_early_data_ticket(kw["max_early_data_size"])))
            return NewSessionTicket(kw.get("lifetime", 86400), kw.get("age_add", 0x01020304),
                                    kw.get("nonce", b"\x01"), kw.get("ticket", b"reftls-ticket-0001"), exts)
        return None

    def make(self, kind, **kw):
        """Build a well-formed handshake message of `kind` (one of KINDS) whose MAC /
        signature is computed over the transcript accepted so far.  Returns raw bytes;
        the transcript is NOT advanced - call `accepted(raw)` once the victim took it."""
        raise NotImplementedError

    def accepted(self, raw):
        """The victim accepted `raw`: append it to the transcript and advance the key
        schedule where the message is a key-schedule boundary."""
        raise NotImplementedError


class ServerAdversary(_AdversaryBase):
    """Key-holding adversary playing the SERVER against a real TLS 1.3 client.

        adv = ServerAdversary(chain_der, leaf_key, other_key, alpn="h3",
                              ee_extensions=[(0x39, tp_bytes)])
        adv.receive_client_hello(raw_ch)          # completes ECDHE with a fixed key
        m = adv.make("server_hello"); victim <- m; adv.accepted(m)
        m = adv.make("finished") ...              # any kind, any time

    psk_lookup(identity bytes) -> psk bytes or None lets it honour (or abuse) offered
    PSKs: `make("server_hello", psk_index=0)` selects the first offered identity,
    `psk_index=n, psk=...` selects anything, offered or not.
    After the client's Finished was passed to `receive_client_flight`, `ticket_psk_for
    (nonce)` gives the PSK of a NewSessionTicket sent with that nonce.
    """

    is_server = True

    def __init__(self, cert_chain, leaf_key, other_key=None, alpn=None, ee_extensions=(),
                 cipher_suite=None, group=None, dh_seed=b"server", random=DEFAULT_SERVER_RANDOM,
                 psk_lookup=None, sig_scheme=None):
        super().__init__(cert_chain, leaf_key, other_key, sig_scheme)
        self.alpn = alpn
        self.ee_extensions = list(ee_extensions)
        self.want_cipher_suite = cipher_suite
        self.want_group = group
        self.dh_seed = dh_seed
        self.random = random
        self.psk_lookup = psk_lookup
        self.offered_psks = ([], [])
        self.binder_ok = None
        self.selected_psk = None
        self.client_flight_report = None

    def receive_client_hello(self, raw):
        """Take the victim's ClientHello: pick cipher suite and group, complete the key
        exchange with the deterministic private key, verify PSK binders we know."""
        ch = parse_message(raw)
        if not isinstance(ch, ClientHello):
            raise DecodeError("not a ClientHello")
        self.client_hello = ch
        self.transcript = [bytes(raw)]
        known = [c for c in ch.cipher_suites if c in CIPHER_SUITES]
        self.cipher_suite = self.want_cipher_suite or known[0]
        shares = parse_ext_key_share_client(ch.ext(EXT_KEY_SHARE) or vec(2, b""))
        groups = [g for g, _ in shares]
        if self.want_group is not None:
            self.group = self.want_group
        else:
            self.group = GROUP_X25519 if GROUP_X25519 in groups else next(g for g in groups if g in GROUP_NAMES)
        self.dh_private = dh_private_from_seed(self.group, self.dh_seed)
        if self.group in groups:
            self.shared_secret = dh_shared(self.dh_private, self.group, dict(shares)[self.group])
        psk_ext = ch.ext(EXT_PRE_SHARED_KEY)
        if psk_ext is not None:
            self.offered_psks = parse_ext_pre_shared_key_client(psk_ext)
            ids, binders = self.offered_psks
            if self.psk_lookup is not None and ids:
                psk = self.psk_lookup(ids[0][0])
                if psk is not None:
                    trunc = bytes(raw)[: len(raw) - binders_block_length(binders)]
                    self.binder_ok = psk_binder(self.hash_name, psk, trunc) == binders[0]
        return ch

    def _server_hello(self, kw):
        exts = [(EXT_SUPPORTED_VERSIONS, ext_supported_versions_server(kw.get("version", TLS13))),
                (EXT_KEY_SHARE, ext_key_share_server(self.group, dh_public_bytes(self.dh_private)))]
        info = {"psk": None}
        if kw.get("psk_index") is not None:
            idx = kw["psk_index"]
            psk = kw.get("psk")
            if psk is None and self.psk_lookup is not None and idx < len(self.offered_psks[0]):
                psk = self.psk_lookup(self.offered_psks[0][idx][0])
            if psk is None:
                psk = hashlib.new(self.hash_name, b"reftls never-offered psk").digest()
            exts.append((EXT_PRE_SHARED_KEY, ext_pre_shared_key_server(idx)))
            info["psk"] = psk
        sid = self.client_hello.legacy_session_id if self.client_hello else b""
        sh = ServerHello(kw.get("random", self.random), sid, self.cipher_suite or CS_AES_128_GCM_SHA256,
                         0, exts + list(kw.get("extra_extensions", ())))
        return sh, info

    def make(self, kind, **kw):
        """See _AdversaryBase.make: build a message of `kind` over the accepted transcript (not committed)."""
        info = None
        if kind == "server_hello":
            msg, info = self._server_hello(kw)
        elif kind == "hello_retry_request":
            sid = self.client_hello.legacy_session_id if self.client_hello else b""
            msg = ServerHello(HRR_RANDOM, sid, self.cipher_suite or CS_AES_128_GCM_SHA256, 0, [
                (EXT_SUPPORTED_VERSIONS, ext_supported_versions_server(TLS13)),
                (EXT_KEY_SHARE, ext_key_share_hrr(kw.get("group", GROUP_SECP384R1)))])
        elif kind == "client_hello":
            # a ClientHello sent *to the client*: echo the victim's own, else a synthetic one
            if self.client_hello is not None and not kw.get("synthetic"):
                msg = self.client_hello
            else:
                msg = ClientHello(DEFAULT_CLIENT_RANDOM, b"", [CS_AES_128_GCM_SHA256], [0], [
                    (EXT_SUPPORTED_VERSIONS, ext_supported_versions_client())])
        elif kind == "encrypted_extensions":
            exts = []
            if self.alpn is not None:
                exts.append((EXT_ALPN, ext_alpn([self.alpn])))
            msg = EncryptedExtensions(exts + self.ee_extensions + list(kw.get("extra_extensions", ())))
        elif kind == "certificate":
            msg = self._certificate(kw.get("context", b""), kw.get("chain"))
        elif kind == "finished":
            msg = self._finished("server", kw)
        else:
            msg = self._common(kind, kw)
            if msg is None:
                raise ValueError("unknown kind %r" % kind)
        raw = msg.encode()
        if info is not None:
            self._pending[raw] = info
        return raw

    def accepted(self, raw):
        """See _AdversaryBase.accepted: the victim took `raw`; extend transcript / advance key schedule."""
        raw = bytes(raw)
        t = raw[0]
        if t == HT_SERVER_HELLO and raw[6:38] != HRR_RANDOM and self.server_hello is None:
            self.transcript.append(raw)
            self.server_hello = parse_message(raw)
            info = self._pending.get(raw, {"psk": None})
            self.selected_psk = info["psk"]
            self.ks = KeySchedule(self.cipher_suite, self.selected_psk)
            if self.selected_psk is not None:
                self.ks.early(transcript_hash(self.hash_name, self.transcript[:1]))
            self.ks.handshake(self.shared_secret, self.th())
            return
        if t == HT_NEW_SESSION_TICKET and self.ks is not None and self.ks.master_secret is not None:
            return  # post-handshake messages are not part of the transcript
        self.transcript.append(raw)
        if t == HT_FINISHED and self.ks is not None and self.ks.master_secret is None:
            self.ks.master(self.th())

    def receive_client_flight(self, data):
        """Parse the victim client's second flight ([Certificate, [CertificateVerify]],
        Finished), verify signature and MAC independently, extend the transcript and
        derive resumption_master_secret.  Returns a report dict."""
        rep = {"kinds": [], "cv_ok": None, "finished_ok": None}
        for raw in split_messages(data):
            m = parse_message(raw)
            rep["kinds"].append(HANDSHAKE_TYPE_NAMES.get(raw[0], raw[0]))
            if isinstance(m, Certificate):
                rep["client_chain"] = [e[0] for e in m.entries]
            elif isinstance(m, CertificateVerify):
                rep["cv_ok"] = bool(rep.get("client_chain")) and verify_certificate_verify(
                    rep["client_chain"][0], m.algorithm, m.signature, False, self.th())
            elif isinstance(m, Finished):
                rep["finished_ok"] = m.verify_data == finished_verify_data(
                    self.hash_name, self.ks.client_hs, self.th())
            self.transcript.append(raw)
            if isinstance(m, Finished):
                self.ks.resumption(self.th())
        self.client_flight_report = rep
        return rep

    def ticket_psk_for(self, nonce):
        """PSK the client will associate with a NewSessionTicket carrying `nonce`
        (requires the client Finished: `receive_client_flight`)."""
        return ticket_psk(self.hash_name, self.ks.resumption_master, nonce)


class ClientAdversary(_AdversaryBase):
    """Key-holding adversary playing the CLIENT against a real TLS 1.3 server.

        adv = ClientAdversary("localhost", alpn=["h3"], extensions=[(0x39, tp)],
                              cert_chain=chain_der, leaf_key=key, other_key=spare)
        ch = adv.make("client_hello"); server <- ch; adv.accepted(ch)
        adv.receive_server_flight(initial_bytes, handshake_bytes, onertt_bytes)
        m = adv.make("finished") ...              # any kind, any time

    offer_psk = dict(identity=..., psk=..., obfuscated_age=..., cipher_suite=...) adds
    psk_key_exchange_modes + pre_shared_key with a correct binder.
    """

    is_server = False

    def __init__(self, server_name="localhost", alpn=None, extensions=(), cert_chain=None,
                 leaf_key=None, other_key=None, cipher_suites=(CS_AES_256_GCM_SHA384,
                                                               CS_AES_128_GCM_SHA256,
                                                               CS_CHACHA20_POLY1305_SHA256),
                 groups=(GROUP_X25519,), dh_seed=b"client", random=DEFAULT_CLIENT_RANDOM,
                 offer_psk=None, signature_algorithms=(SIG_ED25519, SIG_ECDSA_SECP256R1_SHA256,
                                                       SIG_RSA_PSS_RSAE_SHA256, SIG_ED448,
                                                       SIG_ECDSA_SECP384R1_SHA384),
                 psk_modes=(PSK_DHE_KE,), sig_scheme=None):
        super().__init__(cert_chain, leaf_key, other_key, sig_scheme)
        self.server_name = server_name
        self.alpn = alpn
        self.extensions = list(extensions)
        self.cipher_suites = list(cipher_suites)
        self.groups = list(groups)
        self.random = random
        self.offer_psk = offer_psk
        self.signature_algorithms = list(signature_algorithms)
        self.psk_modes = psk_modes
        self.dh_privates = {g: dh_private_from_seed(g, dh_seed) for g in self.groups}
        self.certificate_request = None
        self.server_flight_report = None
        self.tickets = []
        self.psk_selected = False

    def _client_hello(self, kw):
        exts = [
            (EXT_KEY_SHARE, ext_key_share_client([(g, dh_public_bytes(k)) for g, k in self.dh_privates.items()])),
            (EXT_SUPPORTED_VERSIONS, ext_supported_versions_client()),
            (EXT_SIGNATURE_ALGORITHMS, ext_signature_algorithms(self.signature_algorithms)),
            (EXT_SUPPORTED_GROUPS, ext_supported_groups(self.groups)),
        ]
        if self.psk_modes is not None:
            exts.append((EXT_PSK_KEY_EXCHANGE_MODES, ext_psk_key_exchange_modes(self.psk_modes)))
        if self.server_name is not None:
            exts.append((EXT_SERVER_NAME, ext_server_name(self.server_name)))
        if self.alpn is not None:
            exts.append((EXT_ALPN, ext_alpn(self.alpn)))
        exts += self.extensions + list(kw.get("extra_extensions", ()))
        ch = ClientHello(self.random, b"", self.cipher_suites, [0], exts)
        if self.offer_psk is None:
            return ch.encode()
        p = self.offer_psk
        hn = CIPHER_SUITES[p.get("cipher_suite", self.cipher_suites[0])][0]
        binders = [bytes(hash_len(hn))]
        ids = [(p["identity"], p.get("obfuscated_age", 0))]
        ch.extensions = exts + [(EXT_PRE_SHARED_KEY, ext_pre_shared_key_client(ids, binders))]
        raw = ch.encode()
        trunc = raw[: len(raw) - binders_block_length(binders)]
        binder = psk_binder(hn, p["psk"], trunc)
        if kw.get("bad_binder"):
            binder = bytes(len(binder))
        ch.extensions[-1] = (EXT_PRE_SHARED_KEY, ext_pre_shared_key_client(ids, [binder]))
        return ch.encode()

    def make(self, kind, **kw):
        """See _AdversaryBase.make: build a message of `kind` over the accepted transcript (not committed)."""
        if kind == "client_hello":
            return self._client_hello(kw)
        if kind == "server_hello" or kind == "hello_retry_request":
            # a ServerHello sent *to the server*
            rnd = HRR_RANDOM if kind == "hello_retry_request" else DEFAULT_SERVER_RANDOM
            g = self.groups[0]
            ks = ext_key_share_hrr(g) if kind == "hello_retry_request" else ext_key_share_server(
                g, dh_public_bytes(self.dh_privates[g]))
            msg = ServerHello(rnd, b"", self.cipher_suite or self.cipher_suites[0], 0, [
                (EXT_SUPPORTED_VERSIONS, ext_supported_versions_server(TLS13)), (EXT_KEY_SHARE, ks)])
        elif kind == "encrypted_extensions":
            msg = EncryptedExtensions(list(self.extensions))
        elif kind == "certificate":
            ctx = kw.get("context")
            if ctx is None:
                ctx = self.certificate_request.certificate_request_context if self.certificate_request else b""
            chain = kw.get("chain")
            if kw.get("empty"):
                chain = []
            msg = self._certificate(ctx, chain)
        elif kind == "finished":
            msg = self._finished("client", kw)
        else:
            msg = self._common(kind, kw)
            if msg is None:
                raise ValueError("unknown kind %r" % kind)
        return msg.encode()

    def accepted(self, raw):
        """See _AdversaryBase.accepted: the victim took `raw`; extend transcript / advance key schedule."""
        raw = bytes(raw)
        if raw[0] == HT_CLIENT_HELLO and not self.transcript:
            self.client_hello = parse_message(raw)
        self.transcript.append(raw)
        if raw[0] == HT_FINISHED and self.ks is not None and self.ks.master_secret is not None \
                and self.ks.resumption_master is None:
            self.ks.resumption(self.th())

    def receive_server_flight(self, initial, handshake, onertt=b""):
        """Take the victim server's flight: ServerHello (Initial level), EncryptedExtensions
        [CertificateRequest] [Certificate CertificateVerify] Finished (Handshake level) and
        NewSessionTicket(s) (1-RTT level).  Completes the key exchange, verifies signature
        and MAC independently, extends the transcript.  Returns a report dict."""
        rep = {"kinds": [], "cv_ok": None, "finished_ok": None, "psk_selected": False}
        (sh_raw,) = split_messages(initial)
        sh = parse_message(sh_raw)
        if not isinstance(sh, ServerHello):
            raise DecodeError("Initial level does not carry a ServerHello")
        self.server_hello = sh
        self.cipher_suite = sh.cipher_suite
        rep["kinds"].append("server_hello")
        psk = None
        if sh.ext(EXT_PRE_SHARED_KEY) is not None and self.offer_psk is not None:
            psk = self.offer_psk["psk"]
            self.psk_selected = rep["psk_selected"] = True
        self.group, skey = parse_ext_key_share_server(sh.ext(EXT_KEY_SHARE))
        self.shared_secret = dh_shared(self.dh_privates[self.group], self.group, skey)
        self.ks = KeySchedule(self.cipher_suite, psk)
        if psk is not None:
            self.ks.early(transcript_hash(self.hash_name, self.transcript[:1]))
        self.transcript.append(sh_raw)
        self.ks.handshake(self.shared_secret, self.th())
        chain = None
        for raw in split_messages(handshake):
            m = parse_message(raw)
            rep["kinds"].append(HANDSHAKE_TYPE_NAMES.get(raw[0], raw[0]))
            if isinstance(m, CertificateRequest):
                self.certificate_request = m
            elif isinstance(m, Certificate):
                chain = [e[0] for e in m.entries]
                rep["server_chain"] = chain
            elif isinstance(m, CertificateVerify):
                rep["cv_ok"] = bool(chain) and verify_certificate_verify(
                    chain[0], m.algorithm, m.signature, True, self.th())
            elif isinstance(m, Finished):
                rep["finished_ok"] = m.verify_data == finished_verify_data(
                    self.hash_name, self.ks.server_hs, self.th())
            self.transcript.append(raw)
            if isinstance(m, Finished):
                self.ks.master(self.th())
        for raw in split_messages(onertt):
            m = parse_message(raw)
            rep["kinds"].append(HANDSHAKE_TYPE_NAMES.get(raw[0], raw[0]))
            if isinstance(m, NewSessionTicket):
                self.tickets.append(m)
        self.server_flight_report = rep
        return rep

    def ticket_psk_for(self, nst):
        """PSK for a received NewSessionTicket (needs our Finished accepted first)."""
        return ticket_psk(self.hash_name, self.ks.resumption_master, nst.ticket_nonce)
