"""refquic - independent QUIC wire reference (RFC 9000 / 9001 / 9369).

Written from the RFC text; shares no code with aioquic.  Provides: varints,
HKDF-Expand-Label, Initial secrets (v1/v2), packet protection keys incl. key
update, AEAD seal/open (via `cryptography` primitives), header protection
masks, long/short header parsing and building, Retry integrity tag, packet
number expansion by brute force, all RFC 9000 section 19 frames (parse/build),
transport parameters, NSS key-log parsing.
"""
import hashlib
import hmac
import struct

from cryptography.hazmat.primitives.ciphers import Cipher, algorithms, modes
from cryptography.hazmat.primitives.ciphers.aead import AESGCM, ChaCha20Poly1305

V1 = 0x00000001
V2 = 0x6B3343CF

SALT = {
    V1: bytes.fromhex("38762cf7f55934b34d179ae6a4c80cadccbb7f0a"),
    V2: bytes.fromhex("0dede3def700a6db819381be6e269dcbf9bd2ed9"),
}
RETRY_KEY = {
    V1: bytes.fromhex("be0c690b9f66575a1d766b54e368c84e"),
    V2: bytes.fromhex("8fb4b01b56ac48e260fbcbcead7ccc92"),
}
RETRY_NONCE = {
    V1: bytes.fromhex("461599d35d632bf2239825bb"),
    V2: bytes.fromhex("d86969bc2d7c6d9990efb04a"),
}

# long header packet type bits (RFC 9000 17.2, RFC 9369 3.2)
LONG_TYPES = {
    V1: {0: "initial", 1: "0rtt", 2: "handshake", 3: "retry"},
    V2: {1: "initial", 2: "0rtt", 3: "handshake", 0: "retry"},
}
LONG_TYPE_BITS = {v: {n: b for b, n in m.items()} for v, m in LONG_TYPES.items()}

# cipher suites: name -> (hash, key length, aead kind, hp kind)
SUITES = {
    "aes128": ("sha256", 16, "aesgcm", "aes"),
    "aes256": ("sha384", 32, "aesgcm", "aes"),
    "chacha20": ("sha256", 32, "chacha", "chacha"),
}
TLS_SUITE_IDS = {0x1301: "aes128", 0x1302: "aes256", 0x1303: "chacha20"}


class ParseError(Exception):
    pass


# ------------------------------------------------------------------ varints
def enc_varint(v, size=None):
    if v < 0 or v >= 1 << 62:
        raise ValueError("varint out of range: %r" % v)
    if size is None:
        size = 1 if v < 1 << 6 else 2 if v < 1 << 14 else 4 if v < 1 << 30 else 8
    if size == 1:
        if v >= 1 << 6:
            raise ValueError
        return bytes([v])
    if size == 2:
        if v >= 1 << 14:
            raise ValueError
        return struct.pack(">H", v | 0x4000)
    if size == 4:
        if v >= 1 << 30:
            raise ValueError
        return struct.pack(">I", v | 0x80000000)
    return struct.pack(">Q", v | 0xC000000000000000)


class Reader:
    def __init__(self, data, pos=0, end=None):
        self.d = bytes(data)
        self.p = pos
        self.end = len(self.d) if end is None else end

    def eof(self):
        return self.p >= self.end

    def left(self):
        return self.end - self.p

    def u8(self):
        if self.p + 1 > self.end:
            raise ParseError("truncated u8")
        v = self.d[self.p]
        self.p += 1
        return v

    def u16(self):
        return int.from_bytes(self.take(2), "big")

    def u32(self):
        return int.from_bytes(self.take(4), "big")

    def take(self, n):
        if n < 0 or self.p + n > self.end:
            raise ParseError("truncated bytes(%d)" % n)
        v = self.d[self.p : self.p + n]
        self.p += n
        return v

    def varint(self):
        b0 = self.u8()
        ln = 1 << (b0 >> 6)
        v = b0 & 0x3F
        for _ in range(ln - 1):
            v = (v << 8) | self.u8()
        return v


# --------------------------------------------------------------------- HKDF
def hkdf_extract(hashname, salt, ikm):
    return hmac.new(salt, ikm, hashname).digest()


def hkdf_expand(hashname, prk, info, length):
    out = b""
    t = b""
    i = 1
    while len(out) < length:
        t = hmac.new(prk, t + info + bytes([i]), hashname).digest()
        out += t
        i += 1
    return out[:length]


def hkdf_expand_label(hashname, secret, label, context, length):
    full = b"tls13 " + label
    info = struct.pack(">H", length) + bytes([len(full)]) + full + bytes([len(context)]) + context
    return hkdf_expand(hashname, secret, info, length)


def initial_secrets(version, client_dcid):
    """(client_initial_secret, server_initial_secret) - RFC 9001 5.2."""
    init = hkdf_extract("sha256", SALT[version], client_dcid)
    return (
        hkdf_expand_label("sha256", init, b"client in", b"", 32),
        hkdf_expand_label("sha256", init, b"server in", b"", 32),
    )


class Keys:
    """Packet protection keys derived from a traffic secret."""

    def __init__(self, suite, secret, version, hp=None, phase=0):
        self.suite = suite
        self.secret = secret
        self.version = version
        self.phase = phase
        hashname, klen, self.aead_kind, self.hp_kind = SUITES[suite]
        self.hashname = hashname
        pfx = b"quicv2 " if version == V2 else b"quic "
        self.key = hkdf_expand_label(hashname, secret, pfx + b"key", b"", klen)
        self.iv = hkdf_expand_label(hashname, secret, pfx + b"iv", b"", 12)
        # the header protection key is NOT updated on key update (RFC 9001 6.1)
        self.hp = hp if hp is not None else hkdf_expand_label(hashname, secret, pfx + b"hp", b"", klen)
        self._aead = AESGCM(self.key) if self.aead_kind == "aesgcm" else ChaCha20Poly1305(self.key)

    def next(self):
        """Keys of the next key phase (RFC 9001 6.1, label changes in RFC 9369 3.3.2)."""
        label = b"quicv2 ku" if self.version == V2 else b"quic ku"
        hlen = hashlib.new(self.hashname).digest_size
        sec = hkdf_expand_label(self.hashname, self.secret, label, b"", hlen)
        return Keys(self.suite, sec, self.version, hp=self.hp, phase=self.phase ^ 1)

    def nonce(self, pn):
        return bytes(a ^ b for a, b in zip(self.iv, pn.to_bytes(12, "big")))

    def seal(self, header, payload, pn):
        return self._aead.encrypt(self.nonce(pn), payload, header)

    def open(self, header, ciphertext, pn):
        try:
            return self._aead.decrypt(self.nonce(pn), ciphertext, header)
        except Exception:
            return None

    def mask(self, sample):
        if len(sample) != 16:
            raise ParseError("short sample")
        if self.hp_kind == "aes":
            enc = Cipher(algorithms.AES(self.hp), modes.ECB()).encryptor()
            return enc.update(sample)[:5]
        enc = Cipher(algorithms.ChaCha20(self.hp, sample), mode=None).encryptor()
        return enc.update(bytes(5))


def decode_pn_bruteforce(truncated, nbits, expected):
    """The value congruent to `truncated` mod 2^nbits closest to `expected`
    (RFC 9000 A.3), restricted to [0, 2^62)."""
    win = 1 << nbits
    base = expected - (expected % win)
    best = None
    for k in (-1, 0, 1):
        c = base + k * win + truncated
        if c < 0 or c >= 1 << 62:
            continue
        d = abs(c - expected)
        # A.3: ties (distance exactly half a window) resolve to the higher value
        # for candidates below expected (candidate <= expected - half => +win).
        if best is None or d < best[0] or (d == best[0] and c > best[1]):
            best = (d, c)
    return best[1]


# ------------------------------------------------------------------ headers
class Pkt:
    """A packet located inside a datagram."""

    __slots__ = ("form", "type", "version", "dcid", "scid", "token", "start", "pn_offset",
                 "end", "raw", "first", "versions", "tag")

    def __repr__(self):
        return "<Pkt %s v=%s len=%d>" % (self.type, self.version, self.end - self.start)


def split_datagram(data, short_dcid_len):
    """Parse the (unprotected parts of the) packets coalesced in a datagram.
    Returns (list of Pkt, trailing_garbage_len)."""
    out = []
    pos = 0
    n = len(data)
    while pos < n:
        p = Pkt()
        p.start = pos
        p.first = data[pos]
        p.token = b""
        p.versions = None
        p.tag = b""
        p.scid = b""
        try:
            if p.first & 0x80:
                r = Reader(data, pos + 1)
                p.form = "long"
                p.version = r.u32()
                p.dcid = r.take(r.u8())
                p.scid = r.take(r.u8())
                if p.version == 0:
                    p.type = "vn"
                    p.versions = []
                    while r.left() >= 4:
                        p.versions.append(r.u32())
                    p.pn_offset = None
                    p.end = n
                elif p.version not in LONG_TYPES:
                    p.type = "unknown_version"
                    p.pn_offset = None
                    p.end = n
                else:
                    p.type = LONG_TYPES[p.version][(p.first >> 4) & 3]
                    if p.type == "retry":
                        if r.left() < 16:
                            raise ParseError("short retry")
                        p.token = data[r.p : n - 16]
                        p.tag = data[n - 16 : n]
                        p.pn_offset = None
                        p.end = n
                    else:
                        if p.type == "initial":
                            p.token = r.take(r.varint())
                        ln = r.varint()
                        p.pn_offset = r.p
                        p.end = r.p + ln
                        if p.end > n:
                            raise ParseError("length beyond datagram")
            else:
                p.form = "short"
                p.type = "1rtt"
                p.version = None
                if pos + 1 + short_dcid_len > n:
                    raise ParseError("short header truncated")
                p.dcid = data[pos + 1 : pos + 1 + short_dcid_len]
                p.pn_offset = pos + 1 + short_dcid_len
                p.end = n
        except ParseError:
            return out, n - pos
        p.raw = data[p.start : p.end]
        out.append(p)
        pos = p.end
        if p.form == "long" and p.type in ("initial", "0rtt", "handshake"):
            # remaining bytes may be padding (all zero) after the last packet
            if pos < n and data[pos] == 0 and not any(data[pos:]):
                return out, n - pos
    return out, 0


def unprotect(data, pkt, keys, expected_pn, allow_next_phase=None):
    """Remove header and payload protection.  Returns
    (header_bytes, pn, pn_len, plaintext, keys_used) or None."""
    po = pkt.pn_offset
    if po is None or po + 4 + 16 > pkt.end:
        return None
    sample = data[po + 4 : po + 20]
    mask = keys.mask(sample)
    first = pkt.first ^ (mask[0] & (0x0F if pkt.form == "long" else 0x1F))
    pn_len = (first & 3) + 1
    pnb = bytes(data[po + i] ^ mask[1 + i] for i in range(pn_len))
    trunc = int.from_bytes(pnb, "big")
    pn = decode_pn_bruteforce(trunc, 8 * pn_len, expected_pn)
    header = bytes([first]) + data[pkt.start + 1 : po] + pnb
    ct = data[po + pn_len : pkt.end]
    use = keys
    if pkt.form == "short":
        phase = (first >> 2) & 1
        if phase != keys.phase:
            if allow_next_phase is None:
                return None
            use = allow_next_phase
    pt = use.open(header, ct, pn)
    if pt is None:
        return None
    return header, pn, pn_len, pt, use


def build_long(version, ptype, dcid, scid, pn, pn_len, payload, keys, token=b"", reserved=0,
               length_override=None):
    """Build and protect a long header packet (Initial/0-RTT/Handshake)."""
    first = 0xC0 | (LONG_TYPE_BITS[version][ptype] << 4) | (reserved << 2) | (pn_len - 1)
    hdr = bytes([first]) + struct.pack(">I", version) + bytes([len(dcid)]) + dcid + bytes([len(scid)]) + scid
    if ptype == "initial":
        hdr += enc_varint(len(token)) + token
    min_payload = max(0, 4 - pn_len)
    if len(payload) < min_payload:
        payload = payload + bytes(min_payload - len(payload))
    length = pn_len + len(payload) + 16
    hdr += enc_varint(length if length_override is None else length_override, 2 if length < 16384 else 4)
    pnb = (pn & ((1 << (8 * pn_len)) - 1)).to_bytes(pn_len, "big")
    header = hdr + pnb
    ct = keys.seal(header, payload, pn)
    return _apply_hp(header, ct, pn_len, keys, long=True)


def build_short(dcid, pn, pn_len, payload, keys, spin=0, reserved=0, key_phase=None):
    kp = keys.phase if key_phase is None else key_phase
    first = 0x40 | (spin << 5) | (reserved << 3) | (kp << 2) | (pn_len - 1)
    min_payload = max(0, 4 - pn_len)
    if len(payload) < min_payload:
        payload = payload + bytes(min_payload - len(payload))
    pnb = (pn & ((1 << (8 * pn_len)) - 1)).to_bytes(pn_len, "big")
    header = bytes([first]) + dcid + pnb
    ct = keys.seal(header, payload, pn)
    return _apply_hp(header, ct, pn_len, keys, long=False)


def _apply_hp(header, ct, pn_len, keys, long):
    po = len(header) - pn_len
    pkt = bytearray(header + ct)
    sample = bytes(pkt[po + 4 : po + 20])
    mask = keys.mask(sample)
    pkt[0] ^= mask[0] & (0x0F if long else 0x1F)
    for i in range(pn_len):
        pkt[po + i] ^= mask[1 + i]
    return bytes(pkt)


def retry_tag(version, odcid, retry_without_tag):
    pseudo = bytes([len(odcid)]) + odcid + retry_without_tag
    return AESGCM(RETRY_KEY[version]).encrypt(RETRY_NONCE[version], b"", pseudo)


def build_retry(version, dcid, scid, odcid, token, unused=0):
    first = 0xC0 | (LONG_TYPE_BITS[version]["retry"] << 4) | (unused & 0x0F)
    body = bytes([first]) + struct.pack(">I", version) + bytes([len(dcid)]) + dcid + bytes([len(scid)]) + scid + token
    return body + retry_tag(version, odcid, body)


def build_vn(dcid, scid, versions, first=0x80):
    out = bytes([first | 0x80]) + bytes(4) + bytes([len(dcid)]) + dcid + bytes([len(scid)]) + scid
    for v in versions:
        out += struct.pack(">I", v)
    return out


# ------------------------------------------------------------------- frames
ACK_ELICITING_EXCEPT = ("PADDING", "ACK", "CONNECTION_CLOSE")
NOT_IN_FLIGHT = ("ACK", "CONNECTION_CLOSE")


def parse_frames(payload):
    """Parse a packet payload into a list of frame dicts (RFC 9000 section 19)."""
    r = Reader(payload)
    out = []
    while not r.eof():
        t = r.varint()
        if t == 0x00:
            n = 1
            while not r.eof() and r.d[r.p] == 0:
                r.p += 1
                n += 1
            out.append({"t": "PADDING", "n": n})
        elif t == 0x01:
            out.append({"t": "PING"})
        elif t in (0x02, 0x03):
            largest = r.varint()
            delay = r.varint()
            cnt = r.varint()
            first = r.varint()
            ranges = [(largest - first, largest)]
            lo = largest - first
            for _ in range(cnt):
                gap = r.varint()
                ln = r.varint()
                hi = lo - gap - 2
                lo = hi - ln
                ranges.append((lo, hi))
            f = {"t": "ACK", "largest": largest, "delay": delay, "ranges": ranges}
            if t == 0x03:
                f["ecn"] = (r.varint(), r.varint(), r.varint())
            out.append(f)
        elif t == 0x04:
            out.append({"t": "RESET_STREAM", "id": r.varint(), "err": r.varint(), "final": r.varint()})
        elif t == 0x05:
            out.append({"t": "STOP_SENDING", "id": r.varint(), "err": r.varint()})
        elif t == 0x06:
            off = r.varint()
            ln = r.varint()
            out.append({"t": "CRYPTO", "off": off, "data": r.take(ln)})
        elif t == 0x07:
            out.append({"t": "NEW_TOKEN", "token": r.take(r.varint())})
        elif 0x08 <= t <= 0x0F:
            sid = r.varint()
            off = r.varint() if t & 4 else 0
            data = r.take(r.varint()) if t & 2 else r.take(r.left())
            out.append({"t": "STREAM", "id": sid, "off": off, "data": data, "fin": bool(t & 1)})
        elif t == 0x10:
            out.append({"t": "MAX_DATA", "max": r.varint()})
        elif t == 0x11:
            out.append({"t": "MAX_STREAM_DATA", "id": r.varint(), "max": r.varint()})
        elif t in (0x12, 0x13):
            out.append({"t": "MAX_STREAMS", "uni": t == 0x13, "max": r.varint()})
        elif t == 0x14:
            out.append({"t": "DATA_BLOCKED", "max": r.varint()})
        elif t == 0x15:
            out.append({"t": "STREAM_DATA_BLOCKED", "id": r.varint(), "max": r.varint()})
        elif t in (0x16, 0x17):
            out.append({"t": "STREAMS_BLOCKED", "uni": t == 0x17, "max": r.varint()})
        elif t == 0x18:
            seq = r.varint()
            rpt = r.varint()
            cid = r.take(r.u8())
            out.append({"t": "NEW_CONNECTION_ID", "seq": seq, "rpt": rpt, "cid": cid, "token": r.take(16)})
        elif t == 0x19:
            out.append({"t": "RETIRE_CONNECTION_ID", "seq": r.varint()})
        elif t == 0x1A:
            out.append({"t": "PATH_CHALLENGE", "data": r.take(8)})
        elif t == 0x1B:
            out.append({"t": "PATH_RESPONSE", "data": r.take(8)})
        elif t == 0x1C:
            err = r.varint()
            ft = r.varint()
            out.append({"t": "CONNECTION_CLOSE", "app": False, "err": err, "ftype": ft,
                        "reason": r.take(r.varint())})
        elif t == 0x1D:
            err = r.varint()
            out.append({"t": "CONNECTION_CLOSE", "app": True, "err": err, "ftype": None,
                        "reason": r.take(r.varint())})
        elif t == 0x1E:
            out.append({"t": "HANDSHAKE_DONE"})
        elif t in (0x30, 0x31):
            data = r.take(r.varint()) if t & 1 else r.take(r.left())
            out.append({"t": "DATAGRAM", "data": data})
        else:
            raise ParseError("unknown frame type 0x%x" % t)
    return out


def is_ack_eliciting(frames):
    return any(f["t"] not in ACK_ELICITING_EXCEPT for f in frames)


def is_in_flight(frames):
    """RFC 9002 2: ack-eliciting packets or packets containing PADDING."""
    return any(f["t"] not in NOT_IN_FLIGHT for f in frames)


def enc_frame(f):
    """Encode one frame dict (inverse of parse_frames); `raw` passes bytes through."""
    t = f["t"]
    v = enc_varint
    if t == "RAW":
        return f["raw"]
    if t == "PADDING":
        return bytes(f.get("n", 1))
    if t == "PING":
        return b"\x01"
    if t == "ACK":
        ranges = sorted(f["ranges"], reverse=True)  # (lo, hi) descending
        largest = ranges[0][1]
        out = v(0x03 if "ecn" in f else 0x02) + v(largest) + v(f.get("delay", 0)) + v(len(ranges) - 1)
        out += v(ranges[0][1] - ranges[0][0])
        prev_lo = ranges[0][0]
        for lo, hi in ranges[1:]:
            out += v(prev_lo - hi - 2) + v(hi - lo)
            prev_lo = lo
        if "ecn" in f:
            out += b"".join(v(x) for x in f["ecn"])
        return out
    if t == "RESET_STREAM":
        return v(0x04) + v(f["id"]) + v(f["err"]) + v(f["final"])
    if t == "STOP_SENDING":
        return v(0x05) + v(f["id"]) + v(f["err"])
    if t == "CRYPTO":
        return v(0x06) + v(f["off"]) + v(len(f["data"])) + f["data"]
    if t == "NEW_TOKEN":
        return v(0x07) + v(len(f["token"])) + f["token"]
    if t == "STREAM":
        ft = 0x08 | 2 | (4 if f.get("off", 0) or f.get("force_off") else 0) | (1 if f.get("fin") else 0)
        out = v(ft) + v(f["id"])
        if ft & 4:
            out += v(f.get("off", 0))
        return out + v(len(f["data"])) + f["data"]
    if t == "MAX_DATA":
        return v(0x10) + v(f["max"])
    if t == "MAX_STREAM_DATA":
        return v(0x11) + v(f["id"]) + v(f["max"])
    if t == "MAX_STREAMS":
        return v(0x13 if f["uni"] else 0x12) + v(f["max"])
    if t == "DATA_BLOCKED":
        return v(0x14) + v(f["max"])
    if t == "STREAM_DATA_BLOCKED":
        return v(0x15) + v(f["id"]) + v(f["max"])
    if t == "STREAMS_BLOCKED":
        return v(0x17 if f["uni"] else 0x16) + v(f["max"])
    if t == "NEW_CONNECTION_ID":
        return v(0x18) + v(f["seq"]) + v(f["rpt"]) + bytes([len(f["cid"])]) + f["cid"] + f["token"]
    if t == "RETIRE_CONNECTION_ID":
        return v(0x19) + v(f["seq"])
    if t == "PATH_CHALLENGE":
        return v(0x1A) + f["data"]
    if t == "PATH_RESPONSE":
        return v(0x1B) + f["data"]
    if t == "CONNECTION_CLOSE":
        if f.get("app"):
            return v(0x1D) + v(f["err"]) + v(len(f["reason"])) + f["reason"]
        return v(0x1C) + v(f["err"]) + v(f.get("ftype") or 0) + v(len(f["reason"])) + f["reason"]
    if t == "HANDSHAKE_DONE":
        return v(0x1E)
    if t == "DATAGRAM":
        return v(0x31) + v(len(f["data"])) + f["data"]
    raise ValueError("cannot encode %r" % (t,))


def enc_frames(frames):
    return b"".join(enc_frame(f) for f in frames)


# ------------------------------------------------------ transport parameters
TP_NAMES = {
    0x00: "original_destination_connection_id",
    0x01: "max_idle_timeout",
    0x02: "stateless_reset_token",
    0x03: "max_udp_payload_size",
    0x04: "initial_max_data",
    0x05: "initial_max_stream_data_bidi_local",
    0x06: "initial_max_stream_data_bidi_remote",
    0x07: "initial_max_stream_data_uni",
    0x08: "initial_max_streams_bidi",
    0x09: "initial_max_streams_uni",
    0x0A: "ack_delay_exponent",
    0x0B: "max_ack_delay",
    0x0C: "disable_active_migration",
    0x0D: "preferred_address",
    0x0E: "active_connection_id_limit",
    0x0F: "initial_source_connection_id",
    0x10: "retry_source_connection_id",
    0x11: "version_information",
    0x20: "max_datagram_frame_size",
}
TP_INT = {0x01, 0x03, 0x04, 0x05, 0x06, 0x07, 0x08, 0x09, 0x0A, 0x0B, 0x0E, 0x20}


def parse_transport_parameters(data):
    r = Reader(data)
    out = {}
    while not r.eof():
        pid = r.varint()
        val = r.take(r.varint())
        name = TP_NAMES.get(pid, pid)
        if pid in TP_INT:
            out[name] = Reader(val).varint()
        elif pid == 0x0C:
            out[name] = True
        else:
            out[name] = val
    return out


def find_transport_parameters(tls_hello_or_ee):
    """Locate extension 0x39 inside a ClientHello / EncryptedExtensions message
    (a complete handshake message with its 4-byte header). Returns dict or None."""
    r = Reader(tls_hello_or_ee)
    mt = r.u8()
    ln = int.from_bytes(r.take(3), "big")
    body = Reader(r.take(ln))
    if mt == 1:  # ClientHello
        body.take(2 + 32)
        body.take(body.u8())
        body.take(body.u16())
        body.take(body.u8())
    elif mt == 8:
        pass
    else:
        return None
    exts = Reader(body.take(body.u16()))
    while not exts.eof():
        et = exts.u16()
        ed = exts.take(exts.u16())
        if et == 0x39:
            return parse_transport_parameters(ed)
    return None


# ------------------------------------------------------------------- keylog
def parse_keylog(text):
    """NSS key log -> {label: secret bytes} (last occurrence wins)."""
    out = {}
    for line in text.splitlines():
        parts = line.split()
        if len(parts) == 3:
            out[parts[0]] = bytes.fromhex(parts[2])
    return out


def suites_for_secret(secret):
    return ["aes256"] if len(secret) == 48 else ["aes128", "chacha20"]
