"""Sanitizer-world worker for C04 (DESIGN §3.5).

Run as ``/venv/bin/python -m vlib.asanworker`` with the environment from
``build.asan_env([shim])`` + ``VERIF_EXT=asan``: the ASan+UBSan flavour of the
two C helpers is preloaded, the libcrypto argument shim is interposed.  The
worker reads one JSON *batch spec* per line on stdin, enumerates the cases of
that batch deterministically, runs them against the real helpers and prints
JSON lines: ``{"t":"viol",...}`` for the first case of every violation
signature (flushed at once) and one ``{"t":"done",...}`` summary per batch.

Before every case the case index is stored in a small mmap'ed progress file
(``VERIF_C04_PROGRESS``); before every out-of-contract ("risky") helper call a
note naming function / argument class is stored there too.  When the process
is killed by a sanitizer the controller reads that file and knows the case in
flight without bisecting; the single case is then re-run alone to confirm it
(and a prefix is bisected if it does not reproduce alone).

The module is also imported by ``checks/c04.py`` (plain extension flavour) for
the pure parts: constants, contract classes, grammar sizes.

Observers (all four are evaluated for every helper call, direct or made by
the library through the proxies installed over ``aioquic.quic.crypto.AEAD`` /
``HeaderProtection``):
  sanitizer     process death (ASan / UBSan / SEGV / fatal shim report)
  shim          libcrypto was handed a range that is not fully addressable
  contract      arguments make the C code leave the argument objects or its
                scratch buffer, and the call RETURNED NORMALLY (a Python
                exception is the accepted rejection)
  differential  in-contract call returned something else than the independent
                computation with `cryptography` (RFC 9001 §5.3/§5.4)
  followup      a fixed-vector call on the same object after the case differs
                from the same call made when the object was created
"""
import collections
import ctypes
import json
import mmap
import os
import re
import struct
import sys

from . import build, core

_MAIN = __name__ == "__main__"
FLAVOR = os.environ.get("VERIF_EXT") or ("asan" if _MAIN else "plain")
build.preload(FLAVOR)

from aioquic import _buffer as CB  # noqa: E402
from aioquic import _crypto as CC  # noqa: E402
from cryptography.exceptions import InvalidTag  # noqa: E402
from cryptography.hazmat.primitives.ciphers import Cipher, algorithms, modes  # noqa: E402
from cryptography.hazmat.primitives.ciphers.aead import AESGCM, ChaCha20Poly1305  # noqa: E402

M64 = (1 << 64) - 1


# ------------------------------------------------------------------ constants
class Consts:
    """Sizes parsed out of the *current* _crypto.c (never hard-coded)."""

    NAMES = ("AEAD_KEY_LENGTH_MAX", "AEAD_NONCE_LENGTH", "AEAD_TAG_LENGTH",
             "PACKET_LENGTH_MAX", "PACKET_NUMBER_LENGTH_MAX", "SAMPLE_LENGTH")

    def __init__(self, path=None):
        path = path or os.path.join(build.SRC, "aioquic", "_crypto.c")
        with open(path) as f:
            src = f.read()
        self.defs = {}
        for m in re.finditer(r"^#define\s+([A-Z][A-Z0-9_]*)\s+(\d+)\s*$", src, re.M):
            self.defs[m.group(1)] = int(m.group(2))
        # object-like macros defined as arithmetic over other macros, e.g.
        # `#define X (PACKET_LENGTH_MAX - AEAD_TAG_LENGTH)`: resolve to a fixpoint
        pending = dict(re.findall(r"^#define\s+([A-Z][A-Z0-9_]*)\s+([A-Za-z0-9_+\-*() ]+?)\s*(?:/\*.*)?$", src, re.M))
        for _ in range(8):
            for name, expr in list(pending.items()):
                if name in self.defs:
                    del pending[name]
                    continue
                try:
                    self.defs[name] = int(eval(expr, {"__builtins__": {}}, dict(self.defs)))
                    del pending[name]
                except Exception:  # noqa: refers to something not resolved (yet)
                    pass
        for n in self.NAMES:
            if n not in self.defs:
                raise core.HarnessError("cannot parse #define %s from %s" % (n, path))
        self.KEYMAX = self.defs["AEAD_KEY_LENGTH_MAX"]
        self.NONCE = self.defs["AEAD_NONCE_LENGTH"]
        self.TAG = self.defs["AEAD_TAG_LENGTH"]
        self.PMAX = self.defs["PACKET_LENGTH_MAX"]
        self.PNMAX = self.defs["PACKET_NUMBER_LENGTH_MAX"]
        self.SAMPLE = self.defs["SAMPLE_LENGTH"]
        # the scratch arrays themselves: `unsigned char buffer[<expr>];` inside the
        # two object structs (so a fix that enlarges the array instead of tightening
        # the check is understood as well)
        self.AEAD_SCRATCH = self._array(src, "AEADObject", "buffer")
        self.HP_SCRATCH = self._array(src, "HeaderProtectionObject", "buffer")

    def _array(self, src, struct_name, field):
        m = re.search(r"typedef\s+struct\s*\{([^{}]*)\}\s*%s\s*;" % struct_name, src, re.S)
        if not m:
            raise core.HarnessError("cannot find struct %s in _crypto.c" % struct_name)
        a = re.search(r"unsigned\s+char\s+%s\s*\[([^\]]+)\]" % field, m.group(1))
        if not a:
            raise core.HarnessError("cannot find %s.%s[] in _crypto.c" % (struct_name, field))
        expr = a.group(1)
        if not re.fullmatch(r"[A-Za-z0-9_+\-*() ]+", expr):
            raise core.HarnessError("unsupported array size expression %r" % expr)
        try:
            return int(eval(expr, {"__builtins__": {}}, dict(self.defs)))
        except Exception as e:  # noqa
            raise core.HarnessError("cannot evaluate %s.%s[%s]: %s" % (struct_name, field, expr, e))

    def as_dict(self):
        return {"AEAD_KEY_LENGTH_MAX": self.KEYMAX, "AEAD_NONCE_LENGTH": self.NONCE,
                "AEAD_TAG_LENGTH": self.TAG, "PACKET_LENGTH_MAX": self.PMAX,
                "PACKET_NUMBER_LENGTH_MAX": self.PNMAX, "SAMPLE_LENGTH": self.SAMPLE,
                "AEAD.buffer[]": self.AEAD_SCRATCH, "HeaderProtection.buffer[]": self.HP_SCRATCH}


# ----------------------------------------------------------- contract classes
# Every function returns None (all accesses stay inside the argument objects and
# the scratch array) or (arg_class, access, excess): which rule is broken, whether
# the first stray access is a read or a write, and by how many bytes.
F_REMOVE = "HeaderProtection.remove"
F_APPLY = "HeaderProtection.apply"
F_ENC = "AEAD.encrypt"
F_DEC = "AEAD.decrypt"
F_AEAD_INIT = "AEAD.__init__"
F_HP_INIT = "HeaderProtection.__init__"
F_BUF_INIT = "Buffer.__init__"


def wrap32(v):
    """what `int pn_offset` holds after PyArg_ParseTuple("I") stored v."""
    return ((v & 0xFFFFFFFF) ^ 0x80000000) - 0x80000000


def remove_class(K, plen, off):
    o = wrap32(off)
    if o < 0:
        return ("negative_offset", "write", -o)
    need = o + K.PNMAX + K.SAMPLE
    if need > plen:
        if o > plen + 4096:
            return ("offset_far_beyond_packet", "read", need - plen)
        return ("sample_beyond_packet", "read", need - plen)
    if o + K.PNMAX > K.HP_SCRATCH:
        return ("offset_beyond_scratch", "write", o + K.PNMAX - K.HP_SCRATCH)
    return None


def apply_class(K, hlen, first_byte, paylen):
    pnl = (first_byte & 3) + 1
    if hlen < pnl:
        return ("header_shorter_than_pn", "write", pnl - hlen)
    need = K.PNMAX - pnl + K.SAMPLE
    if paylen < need:
        return ("sample_beyond_payload", "read", need - paylen)
    if hlen + paylen > K.HP_SCRATCH:
        return ("total_beyond_scratch", "write", hlen + paylen - K.HP_SCRATCH)
    return None


def encrypt_class(K, n):
    if n + K.TAG > K.AEAD_SCRATCH:
        return ("ciphertext_beyond_scratch", "write", n + K.TAG - K.AEAD_SCRATCH)
    return None


def decrypt_class(K, n):
    if n < K.TAG:
        return ("shorter_than_tag", "read", K.TAG - n)
    if n - K.TAG > K.AEAD_SCRATCH:
        return ("plaintext_beyond_scratch", "write", n - K.TAG - K.AEAD_SCRATCH)
    return None


def bucket(excess):
    """power-of-two bucket of the overshoot (pruning granularity)."""
    if excess <= 0:
        return "0"
    hi = 8
    while excess > hi:
        hi *= 2
    return "<=%d" % hi


def prune_key(func, arg_class, excess, entry):
    return "%s|%s|%s|%s" % (func, arg_class, bucket(excess), entry)


# ---------------------------------------------------------- reference crypto
class Unsupported(Exception):
    pass


class RefAEAD:
    """RFC 9001 §5.3 with `cryptography` (shares nothing with _crypto.c)."""

    def __init__(self, cipher, key, iv):
        if cipher == b"aes-128-gcm" and len(key) == 16:
            self.a = AESGCM(key)
        elif cipher == b"aes-256-gcm" and len(key) == 32:
            self.a = AESGCM(key)
        elif cipher == b"chacha20-poly1305" and len(key) == 32:
            self.a = ChaCha20Poly1305(key)
        else:
            raise Unsupported()
        if len(iv) > 12:
            raise Unsupported()
        self.iv = int.from_bytes(iv.ljust(12, b"\0"), "big")

    def nonce(self, pn):
        return (self.iv ^ (pn & M64)).to_bytes(12, "big")

    def encrypt(self, data, aad, pn):
        return self.a.encrypt(self.nonce(pn), data, aad)

    def decrypt(self, data, aad, pn):
        return self.a.decrypt(self.nonce(pn), data, aad)  # raises InvalidTag


class RefHP:
    """RFC 9001 §5.4.3 / §5.4.4 header-protection masks."""

    def __init__(self, cipher, key):
        self.cache = {}
        if cipher == b"aes-128-ecb" and len(key) == 16 or cipher == b"aes-256-ecb" and len(key) == 32:
            enc = Cipher(algorithms.AES(key), modes.ECB()).encryptor()
            self._mask = lambda s: enc.update(s)[:5]
        elif cipher == b"chacha20" and len(key) == 32:
            self._mask = lambda s: Cipher(algorithms.ChaCha20(key, s), mode=None).encryptor().update(
                b"\0\0\0\0\0")
        else:
            raise Unsupported()

    def mask(self, sample):
        m = self.cache.get(sample)
        if m is None:
            if len(self.cache) > 4096:
                self.cache.clear()
            m = self.cache[sample] = self._mask(sample)
        return m

    def remove(self, packet, off):
        # RFC 9001 §5.4.1 pseudo-code: first byte, then pn length, then pn bytes
        m = self.mask(packet[off + 4:off + 20])
        first = packet[0]
        first ^= m[0] & (0x0F if first & 0x80 else 0x1F)
        pnl = (first & 3) + 1
        if off >= 1:
            pn = bytes(a ^ b for a, b in zip(packet[off:off + pnl], m[1:1 + pnl]))
            return bytes([first]) + packet[1:off] + pn, int.from_bytes(pn, "big")
        # degenerate pn_offset 0: the pn bytes overlap the first byte; done in place
        out = bytearray(packet[:off + 4])
        out[0] = first
        pn = 0
        for i in range(pnl):
            out[off + i] ^= m[1 + i]
            pn = (pn << 8) | out[off + i]
        return bytes(out[:off + pnl]), pn

    def apply(self, header, payload):
        first = header[0]
        pnl = (first & 3) + 1
        m = self.mask(payload[4 - pnl:20 - pnl])
        out = bytearray(header + payload)
        # same order as the helper: first byte, then the pn bytes (they can overlap
        # when the header consists of pn bytes only)
        out[0] ^= m[0] & (0x0F if first & 0x80 else 0x1F)
        o = len(header) - pnl
        for i in range(pnl):
            out[o + i] ^= m[1 + i]
        return bytes(out)


# ------------------------------------------------------------------------ env
class Pruned(BaseException):
    """An out-of-contract call of a class already known to kill the process
    (or a dry run) was requested: the case is cut here and counted."""


def emit(obj):
    sys.stdout.write(json.dumps(obj, default=core.jdefault) + "\n")
    sys.stdout.flush()


class Env:
    def __init__(self, K):
        self.K = K
        self.entry = "direct"
        self.mm = None
        p = os.environ.get("VERIF_C04_PROGRESS")
        if p:
            fd = os.open(p, os.O_RDWR | os.O_CREAT, 0o644)
            os.ftruncate(fd, 4096)
            self.mm = mmap.mmap(fd, 4096)
            os.close(fd)
        self.shim = None
        self._shim_count = None
        self._shim_seen = 0
        self._shim_buf = ctypes.create_string_buffer(4096)
        try:
            lib = ctypes.CDLL(None)
            lib.cryptoshim_take.restype = ctypes.c_ulong
            lib.cryptoshim_calls.restype = ctypes.c_ulong
            lib.cryptoshim_checked.restype = ctypes.c_ulong
            self._shim_count = ctypes.c_ulong.in_dll(lib, "cryptoshim_report_count")
            self.shim = lib
        except (AttributeError, ValueError, OSError):
            self.shim = None
        self.seq = 0
        self._noted = False
        self.reset({})

    def reset(self, spec):
        self.spec = spec
        self.pruned = set(spec.get("pruned") or ())
        only = spec.get("only")
        self.only = set(only) if only is not None else None
        self.only_max = max(self.only) if self.only else -1
        self.skip = set(spec.get("skip") or ())
        self.dry = bool(spec.get("dry"))
        self.trace = bool(spec.get("trace"))
        self.followups = spec.get("followups", True)
        self.idx = -1
        self.counts = collections.Counter()
        self.viol = {}
        self.keys = {}
        self.seq += 1
        self.note(-1, b"")

    # -- progress file ---------------------------------------------------
    def note(self, idx, text):
        if self.mm is not None:
            t = text[:4000]
            self.mm[0:20] = struct.pack("<qqI", idx, self.seq, len(t))
            if t:
                self.mm[20:20 + len(t)] = t

    def begin(self, i):
        """start case i; False = filtered out (only / skip lists)."""
        if self.only is not None and i not in self.only:
            return False
        if i in self.skip:
            self.counts["skipped_crashing_case"] += 1
            return False
        self.idx = i
        if self.mm is not None:
            self.mm[0:8] = struct.pack("<q", i)
            self.mm[16:20] = b"\0\0\0\0"
        self.counts["cases"] += 1
        return True

    def past_only(self, i):
        return self.only is not None and i > self.only_max

    # -- risky calls -----------------------------------------------------
    def risky(self, func, cls, detail):
        """cls = (arg_class, access, excess).  True = go ahead and make the call."""
        key = prune_key(func, cls[0], cls[2], self.entry)
        if self.dry:
            k = self.keys.get(key)
            if k is None:
                self.keys[key] = [self.idx, self.idx, 1]
            else:
                k[1] = self.idx
                k[2] += 1
            return False
        if key in self.pruned:
            self.counts["pruned_by_finding"] += 1
            return False
        self.counts["out_of_contract_calls"] += 1
        if self.mm is not None:
            t = json.dumps({"func": func, "arg_class": cls[0], "access": cls[1], "excess": cls[2],
                            "entry": self.entry, "key": key, "detail": detail},
                           default=core.jdefault).encode()
            self.mm[16:20] = struct.pack("<I", len(t))
            self.mm[20:20 + len(t)] = t
            self._noted = True
        if self.trace:
            self.tr("OUT-OF-CONTRACT %s %s (%s, %d byte(s) beyond) args=%s" % (func, cls[0], cls[1], cls[2], detail))
        return True

    def unnote(self):
        """the risky call came back: a later death is not its doing."""
        self._noted = False
        if self.mm is not None:
            self.mm[16:20] = b"\0\0\0\0"

    def tr(self, msg):
        emit({"t": "trace", "i": self.idx, "entry": self.entry, "msg": msg})

    # -- observers ---------------------------------------------------------
    def shim_poll(self, func, cls, detail):
        """True when the shim reported something since the last poll."""
        if self._noted:
            self.unnote()
        c = self._shim_count
        if c is None or c.value == self._shim_seen:
            return False
        self._shim_seen = c.value
        self.shim.cryptoshim_take(self._shim_buf, 4096)
        text = self._shim_buf.value.decode("ascii", "replace").strip()
        first = text.split("\n")[0]
        parts = first.split()
        kind = " ".join(parts[:2]) if len(parts) >= 2 else first
        self.violation("shim", func, cls, kind,
                       "libcrypto was handed a range outside the argument object: %s (%s%s)"
                       % (first, func, detail), detail)
        return True

    def violation(self, monitor, func, cls, kind, what, detail):
        sig = {"monitor": monitor, "func": func, "access": cls[1] if cls else "none",
               "arg_class": cls[0] if cls else "in_contract", "entry": self.entry, "kind": kind}
        key = (monitor, func, sig["access"], sig["arg_class"], self.entry, kind)
        rec = self.viol.get(key)
        if rec is None:
            rec = self.viol[key] = {"sig": sig, "what": what, "index": self.idx, "detail": detail,
                                    "count": 0}
            emit({"t": "viol", "sig": sig, "what": what, "index": self.idx, "detail": detail})
        rec["count"] += 1
        self.counts["viol_" + monitor] += 1
        if self.trace:
            self.tr("VIOLATION[%s] %s" % (monitor, what))

    def done(self, extra=None):
        out = {"t": "done", "counts": dict(self.counts),
               "viol": [dict(v) for v in self.viol.values()]}
        if self.dry:
            out["keys"] = self.keys
        if self.shim is not None:
            out["shim_calls"] = int(self.shim.cryptoshim_calls())
            out["shim_checked"] = int(self.shim.cryptoshim_checked())
        if extra:
            out.update(extra)
        emit(out)


def pattern(n, salt=0):
    """deterministic non-repeating-ish bytes (period 256 so that header-protection
    samples take few distinct values and reference masks can be cached)."""
    base = _PAT[salt & 3]
    return base[:n] if n <= len(base) else (base * (n // len(base) + 1))[:n]


_PAT = [bytes(((i * 37 + 11 + 101 * s) & 0xFF) for i in range(256)) * 8 for s in range(4)]


# ------------------------------------------------------- monitored wrappers
REAL_AEAD = CC.AEAD
REAL_HP = CC.HeaderProtection
_REJECT = object()


def _exc_name(e):
    return type(e).__name__


class MonAEAD:
    """The real AEAD object with all four observers around every call.  Used
    directly by the grids and, through install_proxies(), by the library."""

    FU = (bytes(range(48)), b"followup-aad", 0x0123456789)

    def __init__(self, env, cipher, key, iv):
        self.env = env
        self.args = (cipher, len(key), len(iv))
        self.real = REAL_AEAD(cipher, key, iv)  # exceptions propagate to the caller
        env.shim_poll(F_AEAD_INIT, None, self.args)
        try:
            self.ref = RefAEAD(cipher, key, iv)
        except Unsupported:
            self.ref = None
        self.broken = False
        self.base = self._fu()
        if self.ref is not None and self.base[0] == "ok":
            if self.base[1] != self.ref.encrypt(*self.FU):
                env.violation("differential", F_ENC, None, "result_mismatch",
                              "fixed vector sealed by a fresh AEAD%s differs from the reference"
                              % (self.args,), self.args)

    def _fu(self):
        try:
            return ("ok", self.real.encrypt(*self.FU))
        except Exception as e:  # noqa
            return ("exc", _exc_name(e))

    def _followup(self, func, cls, detail):
        env = self.env
        if not env.followups:
            return
        r = self._fu()
        env.shim_poll(func, cls, detail)
        if r != self.base:
            self.broken = True
            self.ref = None  # consequences of the damage are not separate findings
            env.violation("followup", func, cls, "state_corrupted_after_call",
                          "after %s%s the same AEAD object no longer seals the fixed vector as it did "
                          "when it was created (scratch write ran into key/iv fields?)" % (func, detail),
                          detail)
            self.base = r
        elif env.trace:
            env.tr("follow-up fixed-vector encrypt: unchanged")

    def encrypt(self, data, aad, pn):
        env = self.env
        n = len(data)
        cls = encrypt_class(env.K, n)
        detail = (n, len(aad), pn)
        if cls is not None:
            if not env.risky(F_ENC, cls, detail):
                raise Pruned()
        elif env.dry:
            raise Pruned()
        exc = None
        try:
            res = self.real.encrypt(data, aad, pn)
        except Exception as e:  # noqa
            exc = e
        if env.trace:
            env.tr("AEAD.encrypt(data=%d, aad=%d, pn=%d) -> %s" % (
                n, len(aad), pn, ("raised " + _exc_name(exc)) if exc else "%d bytes" % len(res)))
        if env.shim_poll(F_ENC, cls, detail):
            pass
        elif exc is None:
            if cls is not None:
                env.violation("contract", F_ENC, cls, "returned_normally",
                              "AEAD.encrypt(data=%d bytes) returned normally although ciphertext+tag "
                              "(%d) exceeds its %d-byte scratch buffer" % (n, n + env.K.TAG,
                                                                           env.K.AEAD_SCRATCH), detail)
            elif self.ref is not None:
                if res != self.ref.encrypt(data, aad, pn):
                    env.violation("differential", F_ENC, None, "result_mismatch",
                                  "AEAD.encrypt(data=%d, aad=%d, pn=%d) differs from the reference"
                                  % detail, detail)
                else:
                    env.counts["ok"] += 1
            else:
                env.counts["ok_noref"] += 1
        else:
            env.counts["rejected" if cls is not None else "in_contract_rejected"] += 1
        self._followup(F_ENC, cls, detail)
        if exc is not None:
            raise exc
        return res

    def decrypt(self, data, aad, pn):
        env = self.env
        n = len(data)
        cls = decrypt_class(env.K, n)
        detail = (n, len(aad), pn)
        if cls is not None:
            if not env.risky(F_DEC, cls, detail):
                raise Pruned()
        elif env.dry:
            raise Pruned()
        exc = None
        try:
            res = self.real.decrypt(data, aad, pn)
        except Exception as e:  # noqa
            exc = e
        if env.trace:
            env.tr("AEAD.decrypt(data=%d, aad=%d, pn=%d) -> %s" % (
                n, len(aad), pn, ("raised " + _exc_name(exc)) if exc else "%d bytes" % len(res)))
        if env.shim_poll(F_DEC, cls, detail):
            pass
        elif exc is None:
            if cls is not None:
                env.violation("contract", F_DEC, cls, "returned_normally",
                              "AEAD.decrypt(data=%d bytes) returned normally although the arguments "
                              "do not fit the argument object / the %d-byte scratch buffer"
                              % (n, env.K.AEAD_SCRATCH), detail)
            elif self.ref is not None:
                try:
                    exp = self.ref.decrypt(data, aad, pn)
                except InvalidTag:
                    exp = _REJECT
                if exp is _REJECT or exp != res:
                    env.violation("differential", F_DEC, None, "result_mismatch",
                                  "AEAD.decrypt(data=%d, aad=%d, pn=%d) returned a plaintext the "
                                  "reference does not" % detail, detail)
                else:
                    env.counts["ok"] += 1
            else:
                env.counts["ok_noref"] += 1
        else:
            env.counts["rejected" if cls is not None else "in_contract_rejected"] += 1
        self._followup(F_DEC, cls, detail)
        if exc is not None:
            raise exc
        return res


class MonHP:
    # follow-up vector: a short-header apply with a 4-byte pn observes every mask bit
    # the helper ever uses (mask[0] & 0x1f, mask[1..4])
    FU_HEADER = bytes([0x43]) + pattern(12, 2)
    FU_PAYLOAD = pattern(40, 3)

    def __init__(self, env, cipher, key):
        self.env = env
        self.args = (cipher, len(key))
        self.real = REAL_HP(cipher, key)
        env.shim_poll(F_HP_INIT, None, self.args)
        try:
            self.ref = RefHP(cipher, key)
        except Unsupported:
            self.ref = None
        self.broken = False
        self.base = self._fu()
        if self.ref is not None and self.base[0] == "ok":
            if self.base[1] != self.ref.apply(self.FU_HEADER, self.FU_PAYLOAD):
                env.violation("differential", F_APPLY, None, "result_mismatch",
                              "fixed vector protected by a fresh HeaderProtection%s differs from the "
                              "reference" % (self.args,), self.args)

    def _fu(self):
        try:
            return ("ok", self.real.apply(self.FU_HEADER, self.FU_PAYLOAD))
        except Exception as e:  # noqa
            return ("exc", _exc_name(e))

    def _followup(self, func, cls, detail):
        env = self.env
        if not env.followups:
            return
        r = self._fu()
        env.shim_poll(func, cls, detail)
        if r != self.base:
            self.broken = True
            self.ref = None
            env.violation("followup", func, cls, "state_corrupted_after_call",
                          "after %s%s the same HeaderProtection object no longer protects the fixed "
                          "vector as it did when it was created (scratch write ran into mask/zero "
                          "fields?)" % (func, detail), detail)
            self.base = r
        elif env.trace:
            env.tr("follow-up fixed-vector apply: unchanged")

    def remove(self, packet, off):
        env = self.env
        plen = len(packet)
        cls = remove_class(env.K, plen, off)
        detail = (plen, off)
        if cls is not None:
            if not env.risky(F_REMOVE, cls, detail):
                raise Pruned()
        elif env.dry:
            raise Pruned()
        exc = None
        try:
            res = self.real.remove(packet, off)
        except Exception as e:  # noqa
            exc = e
        if env.trace:
            env.tr("HeaderProtection.remove(packet=%d bytes, pn_offset=%d) -> %s" % (
                plen, off, ("raised " + _exc_name(exc)) if exc else
                "header %d bytes, pn %d" % (len(res[0]), res[1])))
        if env.shim_poll(F_REMOVE, cls, detail):
            pass
        elif exc is None:
            if cls is not None:
                env.violation("contract", F_REMOVE, cls, "returned_normally",
                              "HeaderProtection.remove(packet=%d bytes, pn_offset=%d) returned normally "
                              "although sample/copy (%s, %d byte(s) beyond) cannot stay inside the packet "
                              "and the %d-byte scratch buffer" % (plen, off, cls[0], cls[2],
                                                                 env.K.HP_SCRATCH), detail)
            elif self.ref is not None:
                h, pn = self.ref.remove(packet, off)
                if res[0] != h or (res[1] & 0xFFFFFFFF) != pn:
                    env.violation("differential", F_REMOVE, None, "result_mismatch",
                                  "HeaderProtection.remove(packet=%d, pn_offset=%d) differs from the "
                                  "reference" % detail, detail)
                else:
                    env.counts["ok"] += 1
            else:
                env.counts["ok_noref"] += 1
        else:
            env.counts["rejected" if cls is not None else "in_contract_rejected"] += 1
        self._followup(F_REMOVE, cls, detail)
        if exc is not None:
            raise exc
        return res

    def apply(self, header, payload):
        env = self.env
        hlen = len(header)
        paylen = len(payload)
        # with an empty header the helper reads the NUL terminator of the bytes object
        first = header[0] if hlen else 0
        cls = apply_class(env.K, hlen, first, paylen)
        detail = (hlen, first, paylen)
        if cls is not None:
            if not env.risky(F_APPLY, cls, detail):
                raise Pruned()
        elif env.dry:
            raise Pruned()
        exc = None
        try:
            res = self.real.apply(header, payload)
        except Exception as e:  # noqa
            exc = e
        if env.trace:
            env.tr("HeaderProtection.apply(header=%d bytes first=0x%02x, payload=%d bytes) -> %s" % (
                hlen, first, paylen, ("raised " + _exc_name(exc)) if exc else "%d bytes" % len(res)))
        if env.shim_poll(F_APPLY, cls, detail):
            pass
        elif exc is None:
            if cls is not None:
                env.violation("contract", F_APPLY, cls, "returned_normally",
                              "HeaderProtection.apply(header=%d bytes, payload=%d bytes) returned normally "
                              "although sample/copy (%s, %d byte(s) beyond) cannot stay inside the "
                              "arguments and the %d-byte scratch buffer" % (hlen, paylen, cls[0], cls[2],
                                                                           env.K.HP_SCRATCH), detail)
            elif self.ref is not None:
                if res != self.ref.apply(header, payload):
                    env.violation("differential", F_APPLY, None, "result_mismatch",
                                  "HeaderProtection.apply(header=%d, first=0x%02x, payload=%d) differs "
                                  "from the reference" % detail, detail)
                else:
                    env.counts["ok"] += 1
            else:
                env.counts["ok_noref"] += 1
        else:
            env.counts["rejected" if cls is not None else "in_contract_rejected"] += 1
        self._followup(F_APPLY, cls, detail)
        if exc is not None:
            raise exc
        return res


_PROXY_ENV = [None]


def install_proxies(env):
    """Library paths: every AEAD / HeaderProtection the library creates is a
    monitored one (names patched in aioquic.quic.crypto, no file is touched)."""
    import aioquic.quic.crypto as qc

    _PROXY_ENV[0] = env
    qc.AEAD = lambda cipher, key, iv: MonAEAD(_PROXY_ENV[0], cipher, key, iv)
    qc.HeaderProtection = lambda cipher, key: MonHP(_PROXY_ENV[0], cipher, key)


# ------------------------------------------------------------ direct grids
HP_KEYS = {b"aes-128-ecb": pattern(16, 1), b"aes-256-ecb": pattern(32, 1), b"chacha20": pattern(32, 3)}
AEAD_KEYS = {b"aes-128-gcm": pattern(16, 1), b"aes-256-gcm": pattern(32, 1),
             b"chacha20-poly1305": pattern(32, 3)}
AEAD_IV = pattern(12, 2)
# offsets the C `int` sees as negative (PyArg "I" does not range-check); far positive
# offsets are left out: where such a wild read lands depends on the heap layout
OFF_EXTREMES = [-1, -4, -20, 2 ** 32 - 1]


def remove_offsets(K, L, mode):
    if mode == "all":
        return range(0, L + 25)
    s = set(range(0, 9))
    s.update(range(L - 28, L + 25))
    s.update(range(K.HP_SCRATCH - 12, K.HP_SCRATCH + 6))
    s.update(range(K.HP_SCRATCH + 30, K.HP_SCRATCH + 46))
    return sorted(x for x in s if 0 <= x <= L + 24)


def h_hp_remove(spec, env):
    """spec: cipher, lens (list or [lo,hi) via lo/hi), offs 'all'|'edge', extremes bool.
    case = (packet length L, pn_offset); first byte alternates long/short header."""
    cipher = spec["cipher"].encode()
    lens = spec["lens"] if "lens" in spec else range(spec["lo"], spec["hi"])
    mode = spec.get("offs", "all")
    K = env.K
    mon = MonHP(env, cipher, HP_KEYS[cipher])
    i = -1
    for L in lens:
        packet = pattern(L, L & 1)
        if L:
            packet = bytes([(0xC0 if L & 2 else 0x40) | (packet[0] & 0x3F)]) + packet[1:]
        offs = list(remove_offsets(K, L, mode))
        if spec.get("extremes") and L in (0, 40, 1600):
            offs += OFF_EXTREMES
        for off in offs:
            i += 1
            if not env.begin(i):
                continue
            try:
                mon.remove(packet, off)
            except Pruned:
                continue
            except Exception:  # noqa  (rejection, already counted)
                pass
            if mon.broken:
                mon = MonHP(env, cipher, HP_KEYS[cipher])
        if env.past_only(i):
            break
    return {"total": i + 1}


def apply_paylens(K, h, mode):
    if mode == "all":
        return range(0, 1601)
    s = set(range(0, 40))
    s.update(range(K.HP_SCRATCH - h - 8, K.HP_SCRATCH - h + 6))
    s.update(range(K.HP_SCRATCH - h + 30, K.HP_SCRATCH - h + 46))
    s.update((1200, 1400, 1600, 2048, 4096, 16383, 16384, 65535))
    return sorted(x for x in s if x >= 0)


def h_hp_apply(spec, env):
    """case = (header length h, pn-length bits, payload length)."""
    cipher = spec["cipher"].encode()
    mode = spec.get("plens", "all")
    K = env.K
    mon = MonHP(env, cipher, HP_KEYS[cipher])
    i = -1
    for h in range(spec["hlo"], spec["hhi"]):
        for pnbits in range(4):
            if h == 0:
                if pnbits:
                    continue
                header = b""
            else:
                header = bytes([(0xC0 if h & 1 else 0x40) | pnbits]) + pattern(h - 1, 1)
            for p in apply_paylens(K, h, mode):
                i += 1
                if not env.begin(i):
                    continue
                try:
                    mon.apply(header, pattern(p, p & 3))
                except Pruned:
                    continue
                except Exception:  # noqa
                    pass
                if mon.broken:
                    mon = MonHP(env, cipher, HP_KEYS[cipher])
        if env.past_only(i):
            break
    return {"total": i + 1}


AADS = (0, 1, 20, 64, 1500)
PNS = (0, 1, 2 ** 32, 2 ** 62 - 1, 2 ** 64 - 1)


def h_aead(spec, env):
    """case = (data length n, aad length, pn, op) with op in enc / dec of a packet
    sealed by the reference / dec of garbage.  Valid ciphertexts longer than the
    helper can produce are sealed by the reference, so that an over-long decrypt
    that is not rejected up front returns normally (and is seen)."""
    cipher = spec["cipher"].encode()
    key = AEAD_KEYS[cipher]
    lens = spec["lens"] if "lens" in spec else range(spec["lo"], spec["hi"])
    full = spec.get("full", True)
    K = env.K
    ref = RefAEAD(cipher, key, AEAD_IV)
    mon = MonAEAD(env, cipher, key, AEAD_IV)
    i = -1
    for n in lens:
        data = pattern(n, n & 3)
        for ai, alen in enumerate(AADS):
            aad = pattern(alen, 2)
            for pi, pn in enumerate(PNS):
                if not full and (ai + pi + n) % 5:
                    continue
                for op in ("enc", "dec", "junk"):
                    i += 1
                    if not env.begin(i):
                        continue
                    try:
                        if op == "enc":
                            mon.encrypt(data, aad, pn)
                        elif op == "dec":
                            if n >= K.TAG and not env.dry:
                                ct = ref.encrypt(data[:n - K.TAG], aad, pn)
                            else:
                                ct = data
                            mon.decrypt(ct, aad, pn)
                        else:
                            mon.decrypt(data, aad, pn)
                    except Pruned:
                        continue
                    except Exception:  # noqa
                        pass
                    if mon.broken:
                        mon = MonAEAD(env, cipher, key, AEAD_IV)
        if env.past_only(i):
            break
    return {"total": i + 1}


# The library only ever passes the six names of aioquic.quic.crypto.CIPHER_SUITES.
# Besides those: the 192-bit siblings (same modes) and names OpenSSL does not know.
# Names of *other* OpenSSL modes (ECB as an AEAD, CTR/GCM as a mask cipher ...) are
# programmer misuse outside the property and are deliberately not enumerated.
AEAD_NAMES = [b"aes-128-gcm", b"aes-256-gcm", b"chacha20-poly1305", b"aes-192-gcm",
              b"", b"nope", b"aes-128-gcm-x", b"aes-128-gcm\0junk", b"AES-128-GCM", b"x" * 300]
HP_NAMES = [b"aes-128-ecb", b"aes-256-ecb", b"chacha20", b"aes-192-ecb",
            b"", b"nope", b"chacha20-x", b"x" * 300]


def h_ctor(spec, env):
    """constructors: cipher names x key lengths 0..40 (x iv lengths 0..40 for AEAD);
    every object that could be created runs an in-contract probe under all observers."""
    K = env.K
    i = -1
    made = 0
    which = spec.get("which", "both")
    lens = list(range(0, 41)) + [64, 4096]
    if which in ("both", "aead"):
        for name in AEAD_NAMES:
            for kl in lens:
                for il in lens:
                    i += 1
                    if not env.begin(i):
                        continue
                    cls = None
                    if kl > K.KEYMAX:
                        cls = ("key_longer_than_field", "write", kl - K.KEYMAX)
                    elif il > K.NONCE:
                        cls = ("iv_longer_than_field", "write", il - K.NONCE)
                    if cls is not None:
                        if not env.risky(F_AEAD_INIT, cls, (name, kl, il)):
                            continue
                    elif env.dry:
                        continue
                    try:
                        mon = MonAEAD(env, name, pattern(kl, 1), pattern(il, 2))
                    except Exception as e:  # noqa
                        env.shim_poll(F_AEAD_INIT, cls, (name, kl, il))
                        env.counts["rejected" if cls is not None else "ctor_rejected"] += 1
                        if env.trace:
                            env.tr("AEAD(%r, key=%d, iv=%d) raised %s" % (name, kl, il, _exc_name(e)))
                        continue
                    made += 1
                    env.counts["ctor_ok"] += 1
                    if cls is not None:
                        env.violation("contract", F_AEAD_INIT, cls, "returned_normally",
                                      "AEAD(%r, key=%d bytes, iv=%d bytes) was constructed although key/iv do "
                                      "not fit the %d/%d-byte fields" % (name, kl, il, K.KEYMAX, K.NONCE),
                                      (name, kl, il))
                    try:
                        ct = mon.encrypt(pattern(33, 0), b"aad", 7)
                        mon.decrypt(ct, b"aad", 7)
                    except Exception:  # noqa
                        pass
    if which in ("both", "hp"):
        for name in HP_NAMES:
            for kl in lens:
                i += 1
                if not env.begin(i):
                    continue
                if env.dry:
                    continue
                try:
                    mon = MonHP(env, name, pattern(kl, 1))
                except Exception as e:  # noqa
                    env.shim_poll(F_HP_INIT, None, (name, kl))
                    env.counts["ctor_rejected"] += 1
                    if env.trace:
                        env.tr("HeaderProtection(%r, key=%d) raised %s" % (name, kl, _exc_name(e)))
                    continue
                made += 1
                env.counts["ctor_ok"] += 1
                try:
                    mon.remove(pattern(64, 1), 20)
                    mon.apply(b"\xc1" + pattern(20, 1), pattern(40, 2))
                except Exception:  # noqa
                    pass
    return {"total": i + 1, "constructed": made}


# ------------------------------------------------------------------- Buffer
SSIZE_MIN, SSIZE_MAX = -(1 << 63), (1 << 63) - 1
BUF_ROOTS = [("cap", 0), ("cap", 1), ("cap", 2), ("cap", 3), ("cap", 8),
             ("data", b""), ("data", b"\x40"), ("data", b"\x80\x01\x02")]
PUSH_PAT = bytes([0x41, 0x82, 0xC3, 0x04, 0x45, 0x86, 0xC7, 0x08, 0x49, 0x8A, 0xCB, 0x0C])
_UINT = {"uint8": 1, "uint16": 2, "uint32": 4, "uint64": 8}


def buffer_ops(cap):
    """operation alphabet for a Buffer of this capacity, simplest first."""
    V = sorted({-2 ** 63, -1, 0, 1, cap - 1, cap, cap + 1, 255, 256, 65535, 65536, 2 ** 32 - 1, 2 ** 32,
                2 ** 62 - 1, 2 ** 62, 2 ** 63 - 1, 2 ** 64 - 1, 2 ** 64}, key=lambda v: (abs(v), v))
    S = sorted({-2 ** 63, -1, 0, 1, cap - 1, cap, cap + 1, 2 ** 63 - 1, 2 ** 64}, key=lambda v: (abs(v), v))
    ops = [("tell",), ("eof",), ("capacity",), ("data",), ("pull_uint8",), ("pull_uint16",),
           ("pull_uint32",), ("pull_uint64",), ("pull_uint_var",)]
    for m in ("seek", "pull_bytes", "push_uint8", "push_uint16", "push_uint32", "push_uint64",
              "push_uint_var"):
        ops += [(m, v) for v in V]
    ops += [("push_bytes", n) for n in sorted({0, 1, cap, cap + 1})]
    ops += [("data_slice", a, b) for a in S for b in S]
    return ops


class RefBuf:
    """bytearray + cursor.  `defd[i]` = 0 while byte i was never written (a fresh
    Buffer(capacity=n) holds uninitialised memory; such bytes are never compared)."""

    __slots__ = ("cap", "pos", "mem", "defd")

    def __init__(self, root):
        if root[0] == "cap":
            self.cap = root[1]
            self.mem = bytearray(self.cap)
            self.defd = bytearray(self.cap)
        else:
            self.cap = len(root[1])
            self.mem = bytearray(root[1])
            self.defd = bytearray(b"\x01" * self.cap)
        self.pos = 0

    def key(self):
        return "%d:%s:%s" % (self.pos, self.mem.hex(), self.defd.hex() if 0 in self.defd else "")

    def _rd(self, a, b):
        return bytes(self.mem[a:b]), bytes(self.defd[a:b])

    def apply(self, op):
        """-> ("ok", kind, value, mask) | ("rej", arg_class, access) | ("any",)
        kind: 'int' / 'bytes' / 'none' / 'bool'.  The state is updated on ok."""
        m = op[0]
        cap, pos = self.cap, self.pos
        if m == "tell":
            return ("ok", "int", pos, None)
        if m == "eof":
            return ("ok", "bool", pos == cap, None)
        if m == "capacity":
            return ("ok", "int", cap, None)
        if m == "data":
            v, d = self._rd(0, pos)
            return ("ok", "bytes", v, d)
        if m == "data_slice":
            a, b = op[1], op[2]
            if not (SSIZE_MIN <= a <= SSIZE_MAX and SSIZE_MIN <= b <= SSIZE_MAX):
                return ("rej", "argument_not_ssize_t", "read")
            if a < 0 or a > cap or b < 0 or b > cap or b < a:
                return ("rej", "slice_out_of_range", "read")
            v, d = self._rd(a, b)
            return ("ok", "bytes", v, d)
        if m == "seek":
            p = op[1]
            if not SSIZE_MIN <= p <= SSIZE_MAX:
                return ("rej", "argument_not_ssize_t", "write")
            if p < 0 or p > cap:
                return ("rej", "position_out_of_range", "write")
            self.pos = p
            return ("ok", "none", None, None)
        if m == "pull_bytes":
            n = op[1]
            if not SSIZE_MIN <= n <= SSIZE_MAX:
                return ("rej", "argument_not_ssize_t", "read")
            if n < 0:
                return ("rej", "negative_length", "read")
            if pos + n > cap:
                return ("rej", "read_beyond_end", "read")
            v, d = self._rd(pos, pos + n)
            self.pos = pos + n
            return ("ok", "bytes", v, d)
        if m == "pull_uint_var":
            if pos + 1 > cap:
                return ("rej", "read_beyond_end", "read")
            if not self.defd[pos]:
                return ("any",)  # length prefix is uninitialised memory
            n = 1 << (self.mem[pos] >> 6)
            if pos + n > cap:
                return ("rej", "read_beyond_end", "read")
            v, d = self._rd(pos, pos + n)
            self.pos = pos + n
            val = int.from_bytes(v, "big") & ((1 << (8 * n - 2)) - 1)
            mask = int.from_bytes(bytes(0xFF if x else 0 for x in d), "big") & ((1 << (8 * n - 2)) - 1)
            return ("ok", "int", val, mask)
        if m.startswith("pull_uint"):
            n = _UINT[m[5:]]
            if pos + n > cap:
                return ("rej", "read_beyond_end", "read")
            v, d = self._rd(pos, pos + n)
            self.pos = pos + n
            return ("ok", "int", int.from_bytes(v, "big"),
                    int.from_bytes(bytes(0xFF if x else 0 for x in d), "big"))
        if m == "push_bytes":
            data = PUSH_PAT[:op[1]]
            n = len(data)
        elif m == "push_uint_var":
            v = op[1] & M64  # "K": no overflow checking
            if v > 0x3FFFFFFFFFFFFFFF:
                return ("any",)  # ValueError by design; nothing to predict
            if v <= 0x3F:
                n, pre = 1, 0
            elif v <= 0x3FFF:
                n, pre = 2, 0x40
            elif v <= 0x3FFFFFFF:
                n, pre = 4, 0x80
            else:
                n, pre = 8, 0xC0
            data = bytearray(v.to_bytes(n, "big"))
            data[0] |= pre
        else:
            n = _UINT[m[5:]]
            data = (op[1] & ((1 << (8 * n)) - 1)).to_bytes(n, "big")  # B/H/I/K: masked
        if pos + n > cap:
            return ("rej", "write_beyond_end", "write")
        self.mem[pos:pos + n] = data
        self.defd[pos:pos + n] = b"\x01" * n
        self.pos = pos + n
        return ("ok", "none", None, None)


def real_root(root):
    return CB.Buffer(capacity=root[1]) if root[0] == "cap" else CB.Buffer(data=root[1])


def real_op(b, op):
    m = op[0]
    if m in ("capacity", "data"):
        return getattr(b, m)
    if m == "push_bytes":
        return b.push_bytes(PUSH_PAT[:op[1]])
    return getattr(b, m)(*op[1:])


def _masked_eq(a, b, d):
    if len(a) != len(b):
        return False
    if 0 not in d:
        return a == b
    return all(x == y for x, y, k in zip(a, b, d) if k)


def _obs_ok(b, ref):
    """post-state of the real Buffer equals the reference (defined bytes only)."""
    try:
        if b.tell() != ref.pos or b.capacity != ref.cap:
            return False
        return _masked_eq(b.data_slice(0, ref.cap), bytes(ref.mem), ref.defd)
    except Exception:  # noqa
        return False


def buf_transition(env, root, ops, hist, oi, want_succ):
    """Replay hist on a fresh real Buffer and a fresh reference, apply ops[oi] to
    both and compare.  Returns the successor (key) or None."""
    ref = RefBuf(root)
    b = real_root(root)
    for j in hist:
        ref.apply(ops[j])
        try:
            real_op(b, ops[j])
        except Exception:  # noqa
            pass
    op = ops[oi]
    func = "Buffer." + op[0]
    pre = (ref.pos, ref.cap)
    exp = ref.apply(op)
    detail = {"root": root, "history": [ops[j] for j in hist], "op": op}
    if exp[0] == "rej" and exp[1] != "argument_not_ssize_t":
        cls = (exp[1], exp[2], 1)
        if not env.risky(func, cls, detail):
            return None
    else:
        cls = None
        if env.dry:
            return None
    exc = None
    try:
        res = real_op(b, op)
    except Exception as e:  # noqa
        exc = e
    if env._noted:
        env.unnote()
    if env.trace:
        env.tr("%s%s at pos=%d cap=%d -> %s (reference: %s)" % (
            func, op[1:], pre[0], pre[1], ("raised " + _exc_name(exc)) if exc else repr(res), exp[:3]))
    if exp[0] == "rej":
        if exc is None:
            if cls is None:
                cls = (exp[1], exp[2], 1)
            env.violation("contract", func, cls, "returned_normally",
                          "%s%s on a Buffer with capacity %d at position %d returned normally although it "
                          "reaches outside the buffer (%s)" % (func, op[1:], pre[1], pre[0], exp[1]), detail)
            return None
        env.counts["rejected"] += 1
        if not _obs_ok(b, ref):
            env.counts["rejected_but_state_changed"] += 1
        return None
    if exp[0] == "any":
        env.counts["unpredicted_memory_safety_only"] += 1
        try:
            ok = 0 <= b.tell() <= b.capacity == pre[1]
        except Exception:  # noqa
            ok = False
        if not ok:
            env.violation("differential", func, None, "cursor_outside_buffer",
                          "%s%s left the cursor outside the buffer" % (func, op[1:]), detail)
        return None
    if exc is not None:
        env.counts["in_contract_rejected"] += 1
        return None
    kind, val, mask = exp[1], exp[2], exp[3]
    if kind == "bytes":
        good = isinstance(res, bytes) and _masked_eq(res, val, mask)
    elif kind == "int":
        good = isinstance(res, int) and (res == val if mask is None else (res & mask) == (val & mask))
    elif kind == "bool":
        good = res is val
    else:
        good = res is None
    if not good or not _obs_ok(b, ref):
        env.violation("differential", func, None, "result_mismatch",
                      "%s%s on capacity %d at position %d: result or resulting (position, contents) differ "
                      "from the reference buffer" % (func, op[1:], pre[1], pre[0]), detail)
        return None
    env.counts["ok"] += 1
    return ref.key() if want_succ else None


def h_buffer(spec, env):
    """expand a shard of one BFS level: spec root (index), frontier (list of op-index
    histories), succ (bool: return successor states)."""
    root = BUF_ROOTS[spec["root"]]
    cap = root[1] if root[0] == "cap" else len(root[1])
    ops = buffer_ops(cap)
    frontier = spec["frontier"]
    if isinstance(frontier, str):
        with open(frontier) as f:
            frontier = json.load(f)
    want = bool(spec.get("succ"))
    succ = {}
    i = -1
    nops = len(ops)
    for hist in frontier:
        for oi in range(nops):
            i += 1
            if not env.begin(i):
                continue
            k = buf_transition(env, root, ops, hist, oi, want)
            if k is not None and k not in succ:
                succ[k] = hist + [oi]
        if env.past_only(i):
            break
    out = {"total": i + 1, "expanded": len(frontier)}
    if want:
        out["succ"] = succ
    return out


BUF_CTOR_CAPS = [0, 1, 8, 1500, 65536, -1, -2 ** 63, 2 ** 62, 2 ** 63 - 1, 2 ** 47]
BUF_CTOR_DATA = [0, 1, 1500, 70000]


def h_buffer_ctor(spec, env):
    """Buffer(capacity=c) / Buffer(data=d) / both; a constructed buffer must have the
    requested capacity and accept exactly that many bytes."""
    cases = [("cap", c) for c in BUF_CTOR_CAPS] + [("data", n) for n in BUF_CTOR_DATA]
    cases += [("both", c, n) for c in (0, 8, -1) for n in (0, 3)] + [("none",)]
    i = -1
    for case in cases:
        i += 1
        if not env.begin(i):
            continue
        cls = None
        if case[0] == "cap":
            c = case[1]
            if c < 0:
                cls = ("negative_capacity", "write", 1)
            elif c >= 2 ** 47:
                cls = ("unallocatable_capacity", "write", 1)
        if cls is not None:
            if not env.risky(F_BUF_INIT, cls, case):
                continue
        elif env.dry:
            continue
        exc = None
        try:
            if case[0] == "cap":
                b = CB.Buffer(capacity=case[1])
                want = case[1]
            elif case[0] == "data":
                b = CB.Buffer(data=pattern(case[1]))
                want = case[1]
            elif case[0] == "both":
                b = CB.Buffer(capacity=case[1], data=pattern(case[2]))
                want = case[2]
            else:
                b = CB.Buffer()
                want = 0
        except Exception as e:  # noqa
            exc = e
        if env._noted:
            env.unnote()
        if env.trace:
            env.tr("Buffer%s -> %s" % (case, ("raised " + _exc_name(exc)) if exc else "constructed"))
        if exc is not None:
            env.counts["rejected" if cls else "in_contract_rejected"] += 1
            continue
        if cls is not None:
            env.violation("contract", F_BUF_INIT, cls, "returned_normally",
                          "Buffer(capacity=%d) was constructed although no such block can exist (%s)"
                          % (case[1], cls[0]), case)
            continue
        good = b.capacity == want and b.tell() == 0
        if good and want <= 70000:
            try:
                b.seek(0)
                b.push_bytes(pattern(want))
                good = b.tell() == want and b.data == pattern(want) and b.eof()
                try:
                    b.push_uint8(1)
                    good = False
                except CB.BufferWriteError:
                    pass
            except Exception:  # noqa
                good = False
        if good:
            env.counts["ok"] += 1
        else:
            env.violation("differential", F_BUF_INIT, None, "result_mismatch",
                          "Buffer%s does not behave like a buffer of %d bytes" % (case, want), case)
    return {"total": i + 1}


# ------------------------------------------------------------ library paths
V1 = 0x00000001
V2 = 0x6B3343CF
ADDR_C = ("10.0.0.1", 1111)
ADDR_S = ("10.0.0.2", 4433)
_CFG = {}


def _configs():
    if not _CFG:
        from aioquic.quic.configuration import QuicConfiguration

        from . import certs, seams

        seams.install()
        s = QuicConfiguration(is_client=False)
        s.load_cert_chain(certs.path("ed25519.pem"), certs.path("ed25519.key"))
        c = QuicConfiguration(is_client=True)
        c.load_verify_locations(cafile=certs.path("ca.pem"))
        c.server_name = "localhost"
        _CFG["s"], _CFG["c"] = s, c
    return _CFG["c"], _CFG["s"]


def _cfg(base, mds):
    import copy

    c = copy.copy(base)
    if mds is not None:
        c.max_datagram_size = mds
    return c


class Pair:
    """two real connections joined by a perfect in-order link, virtual clock."""

    def __init__(self, env, mds_c=None, mds_s=None):
        from aioquic.quic.connection import QuicConnection

        cc, sc = _configs()
        self.env = env
        self.now = 1000.0
        self.client = QuicConnection(configuration=_cfg(cc, mds_c))
        self.server = None
        self.mds_s = mds_s
        self.errors = collections.Counter()
        self.QuicConnection = QuicConnection

    def api(self, entry, fn, *a):
        """one public API call; Python exceptions are C05's business, not ours."""
        self.env.entry = entry
        try:
            return fn(*a)
        except Exception as e:  # noqa
            self.errors[entry + ":" + _exc_name(e)] += 1
            if self.env.trace:
                self.env.tr("%s raised %s (ignored here)" % (entry, _exc_name(e)))
            return None
        finally:
            self.env.entry = "direct"

    def _server_for(self, data):
        from aioquic.buffer import Buffer
        from aioquic.quic.packet import pull_quic_header

        cc, sc = _configs()
        hdr = pull_quic_header(Buffer(data=data), host_cid_length=8)
        self.server = self.QuicConnection(configuration=_cfg(sc, self.mds_s),
                                          original_destination_connection_id=hdr.destination_cid)

    def step(self):
        moved = 0
        for src_is_client in (True, False):
            src = self.client if src_is_client else self.server
            if src is None:
                continue
            out = self.api("datagrams_to_send", src.datagrams_to_send, self.now) or []
            for data, _addr in out:
                moved += 1
                if src_is_client:
                    if self.server is None:
                        self._server_for(data)
                    self.api("receive_datagram", self.server.receive_datagram, data, ADDR_C, self.now)
                else:
                    self.api("receive_datagram", self.client.receive_datagram, data, ADDR_S, self.now)
        for conn in (self.client, self.server):
            if conn is not None:
                while conn.next_event() is not None:
                    pass
        return moved

    def run(self, rounds=400):
        idle = 0
        for _ in range(rounds):
            if self.step():
                idle = 0
                self.now += 0.0005
                continue
            idle += 1
            if idle > 3:
                break
            # nothing moved: let the earliest timer (pacing, ack delay, PTO) fire
            ts = [c.get_timer() for c in (self.client, self.server) if c is not None]
            ts = [t for t in ts if t is not None]
            if not ts or min(ts) > self.now + 5.0:
                break
            self.now = max(self.now, min(ts))
            for conn in (self.client, self.server):
                if conn is not None and conn.get_timer() is not None and conn.get_timer() <= self.now:
                    self.api("handle_timer", conn.handle_timer, self.now)

    def handshake(self):
        self.api("connect", self.client.connect, ADDR_S, self.now)
        self.run()
        return (self.server is not None and self.client._handshake_complete
                and self.server._handshake_complete)


def send_mds_values(tier):
    return list(range(1200, 1561, 4)) + [2048, 4096, 16383, 16384, 65535]


SEND_SCENARIOS = ("handshake", "bulk", "close")


def h_lib_send(spec, env):
    """case = (max_datagram_size pair, scenario) between two real connections."""
    install_proxies(env)
    i = -1
    outcomes = collections.Counter()
    for mds_c, mds_s in spec["mds"]:
        for sc in spec.get("scenarios", SEND_SCENARIOS):
            i += 1
            if not env.begin(i):
                continue
            if env.trace:
                env.tr("scenario %s with max_datagram_size client=%s server=%s" % (sc, mds_c, mds_s))
            try:
                try:
                    p = Pair(env, mds_c, mds_s)
                except Exception as e:  # noqa
                    outcomes["configuration_rejected:" + _exc_name(e)] += 1
                    continue
                ok = p.handshake()
                if ok and sc == "bulk":
                    p.api("send_stream_data", p.client.send_stream_data, 0, pattern(70000, 1), True)
                    sid = p.server.get_next_available_stream_id()
                    p.api("send_stream_data", p.server.send_stream_data, sid, pattern(70000, 2), True)
                    p.run(2000)
                elif ok and sc == "close":
                    p.api("close", p.client.close, 0x100, None, "r" * 1000)
                    p.run()
                    p.api("close", p.server.close, 0x100, None, "R" * (mds_s or 1200))
                    p.run()
                outcomes["%s:%s" % (sc, "handshake_ok" if ok else "handshake_failed")] += 1
                for k, v in p.errors.items():
                    outcomes["api_exception:" + k] += v
            except Pruned:
                env.counts["cases_cut_by_pruned_call"] += 1
                outcomes["cut"] += 1
            finally:
                env.entry = "direct"
    return {"total": i + 1, "outcomes": dict(outcomes)}


# receive side: datagram grammar -------------------------------------------
def _varint(v):
    if v <= 0x3F:
        return bytes([v])
    if v <= 0x3FFF:
        return (v | 0x4000).to_bytes(2, "big")
    if v <= 0x3FFFFFFF:
        return (v | 0x80000000).to_bytes(4, "big")
    return (v | 0xC000000000000000).to_bytes(8, "big")


TOKENS = [0, 1, 2, 1400] + list(range(1480, 1521)) + [2000, 60000]
TOTALS_BIG = [1199, 1200, 1201, 1500, 1501, 4096, 65535]
CID_PAIRS = [(8, 8), (0, 0), (20, 20), (21, 8), (8, 21), (255, 8), (8, 255)]
RESTS = [0, 1, 3, 4, 19, 20, 21, "exact", "exact-1", "exact+1", "beyond"]


def _cid(n, actual):
    if n == 8 and actual is not None:
        return actual
    return pattern(min(n, 300), 3)


def _long(first, version, dl, sl, actual, token, rest, total):
    """long-header datagram: declared dcid/scid lengths dl/sl, token length (None
    = no token field), declared remaining length `rest` (number or rule relative
    to `total`), cut or zero-padded to `total` bytes."""
    h = bytes([first]) + version.to_bytes(4, "big") + bytes([dl & 0xFF]) + _cid(dl, actual)
    h += bytes([sl & 0xFF]) + _cid(sl, None)
    if token is not None:
        h += _varint(token) + pattern(min(token, total), 1)
    room = total - len(h)
    if isinstance(rest, int):
        r = rest
    else:
        # remaining bytes after the (<=2-byte here, else 4) length field
        r = max(room - (2 if room - 2 <= 0x3FFF else 4), 0)
        if rest == "exact-1":
            r = max(r - 1, 0)
        elif rest == "exact+1":
            r += 1
        elif rest == "beyond":
            r += 1000
    h += _varint(r)
    body = pattern(max(total - len(h), 0), 2)
    d = h + body
    return d[:total] if len(d) >= total else d + bytes(total - len(d))


def recv_grammar(actual_cid, actual_for_short, quick):
    """yields (description, arguments for build_datagram).  Deterministic; the same for every state
    except for the connection IDs that are copied from the endpoint under test."""
    INITIAL, ZERO, HS, RETRY = 0, 1, 2, 3
    # 1. Initial packets: token length x declared rest x datagram size
    for ver in (V1, V2):
        tbits = (INITIAL if ver == V1 else 1) << 4
        for dl, sl in ((8, 8), (0, 0), (20, 20)):
            for token in TOKENS:
                for rest in RESTS:
                    for total in TOTALS_BIG[1:] if quick else TOTALS_BIG:
                        yield (("initial", ver, dl, sl, token, rest, total),
                               (0xC0 | tbits | (total & 3), ver, dl, sl, actual_cid, token, rest, total))
        for dl, sl in CID_PAIRS[3:]:
            for token in (0, 1, 2):
                for rest in RESTS:
                    for total in (1200, 1500, 4096):
                        yield (("initial", ver, dl, sl, token, rest, total),
                               (0xC3 | tbits, ver, dl, sl, actual_cid, token, rest, total))
    # 2. other long types, unknown versions, fixed bit cleared
    for ver in (V1, V2, 0, 0xDEADBEEF):
        for t in range(4):
            for fixed in (0x40, 0x00):
                for dl, sl in CID_PAIRS:
                    for rest in RESTS:
                        for total in (1200, 1501, 65535):
                            tok = 0 if (t == (INITIAL if ver != V2 else 1)) else None
                            yield (("long", ver, t, fixed, dl, sl, rest, total),
                                   (0x80 | fixed | (t << 4) | 1, ver, dl, sl, actual_cid, tok, rest, total))
    # 3. every header form cut at every small length
    for ver in (V1, V2, 0, 0xDEADBEEF):
        for t in range(4):
            for dl, sl in CID_PAIRS:
                for total in range(0, 65):
                    yield (("cut", ver, t, dl, sl, total),
                           (0xC0 | (t << 4), ver, dl, sl, actual_cid, 0 if t == 0 else None, "exact", 1200, total))
    # 4. short headers
    for first in (0x40, 0x43, 0x44, 0x7F, 0x5C, 0x00, 0x3F):
        for cid in (actual_for_short, pattern(8, 3)):
            for total in list(range(0, 65)) + TOTALS_BIG:
                yield (("short", first, cid == actual_for_short, total), (first, cid, total))


def build_datagram(desc, args):
    if desc[0] == "short":
        first, cid, total = args
        return (bytes([first]) + cid + pattern(max(total - 9, 0), 1))[:total]
    if desc[0] == "cut":
        return _long(*args[:8])[:args[8]]
    return _long(*args)


RECV_STATES = ("server_firstflight", "server_connected", "client_connected")


def h_lib_recv(spec, env):
    """case = one hostile datagram fed to receive_datagram of an endpoint in `state`.
    Cases [lo,hi) of the grammar are run; first-flight servers are fresh per datagram,
    connected endpoints are shared until they leave the connected state."""
    install_proxies(env)
    from aioquic.quic.connection import QuicConnection, QuicConnectionState

    state = spec["state"]
    lo, hi = spec.get("lo", 0), spec.get("hi")
    cc, sc = _configs()
    outcomes = collections.Counter()
    pair = None

    def target():
        nonlocal pair
        if state == "server_firstflight":
            return None
        if pair is None or pair_conn()._state != QuicConnectionState.CONNECTED:
            pair = Pair(env)
            if not pair.handshake():
                raise core.HarnessError("library handshake failed in worker")
            outcomes["pairs_built"] += 1
        return pair_conn()

    def pair_conn():
        return pair.server if state == "server_connected" else pair.client

    i = -1
    actual = None
    short_cid = pattern(8, 0)
    gen = None
    try:
        if state != "server_firstflight" and not env.dry:
            # handshake traffic of the setup pair belongs to no case
            env.idx = -1
            conn = target()
            actual = conn.host_cid
            short_cid = conn.host_cid
        gen = recv_grammar(actual, short_cid, spec.get("quick", True))
        for desc, dargs in gen:
            i += 1
            if i < lo:
                continue
            if hi is not None and i >= hi:
                break
            if not env.begin(i):
                continue
            if env.dry:
                continue
            data = build_datagram(desc, dargs)
            try:
                if state == "server_firstflight":
                    conn = QuicConnection(configuration=sc,
                                          original_destination_connection_id=pattern(8, 3))
                else:
                    conn = target()
                    if conn.host_cid != short_cid:
                        outcomes["cid_changed"] += 1
                if env.trace:
                    env.tr("datagram %s (%d bytes) -> %s" % (desc, len(data), state))
                env.entry = "receive_datagram"
                before = env.counts["out_of_contract_calls"] + env.counts["ok"] + env.counts["rejected"] \
                    + env.counts["in_contract_rejected"]
                try:
                    conn.receive_datagram(data, ADDR_C if state.startswith("server") else ADDR_S, 1000.0)
                    outcomes["returned"] += 1
                except Exception as e:  # noqa  (C05's business)
                    outcomes["api_exception:" + _exc_name(e)] += 1
                after = env.counts["out_of_contract_calls"] + env.counts["ok"] + env.counts["rejected"] \
                    + env.counts["in_contract_rejected"]
                if after != before:
                    outcomes["reached_helper"] += 1
            except Pruned:
                env.counts["cases_cut_by_pruned_call"] += 1
                outcomes["cut"] += 1
            finally:
                env.entry = "direct"
            if env.past_only(i):
                break
    finally:
        env.entry = "direct"
    return {"total": i + 1, "outcomes": dict(outcomes)}


def recv_grammar_size(quick):
    return sum(1 for _ in recv_grammar(None, pattern(8, 0), quick))


# --------------------------------------------------------------------- main
HANDLERS = {
    "hp_remove": h_hp_remove,
    "hp_apply": h_hp_apply,
    "aead": h_aead,
    "ctor": h_ctor,
    "buffer": h_buffer,
    "buffer_ctor": h_buffer_ctor,
    "lib_send": h_lib_send,
    "lib_recv": h_lib_recv,
}


def selfcheck(env):
    """the observers must be alive before anything they say (or do not say) counts."""
    info = {"flavor": FLAVOR, "ext": {k: v for k, v in build.ensure_ext(FLAVOR).items()}}
    if FLAVOR != "asan":
        info["sanitizer"] = False
        return info
    if env.shim is None:
        raise core.HarnessError("cryptoshim is not preloaded in the worker")
    if env.shim.cryptoshim_has_asan() != 1 or env.shim.cryptoshim_selftest() != 1:
        raise core.HarnessError("ASan runtime not active or shim self-test failed")
    c0 = env.shim.cryptoshim_calls()
    hp = REAL_HP(b"aes-128-ecb", bytes(16))
    hp.remove(bytes(40), 6)
    a = REAL_AEAD(b"aes-128-gcm", bytes(16), bytes(12))
    a.decrypt(a.encrypt(b"x", b"y", 1), b"y", 1)
    if env.shim.cryptoshim_calls() - c0 < 8:
        raise core.HarnessError("libcrypto calls of the helper are not interposed by the shim")
    if "asan" not in os.path.basename(os.path.dirname(CC.__file__)):
        raise core.HarnessError("worker did not load the sanitizer flavour: %s" % CC.__file__)
    info["sanitizer"] = True
    return info


def main():
    K = Consts()
    env = Env(K)
    emit({"t": "hello", "pid": os.getpid(), "consts": K.as_dict(), **selfcheck(env)})
    for line in sys.stdin:
        line = line.strip()
        if not line:
            continue
        spec = json.loads(line)
        if spec.get("k") == "quit":
            break
        env.reset(spec)
        try:
            extra = HANDLERS[spec["k"]](spec, env)
        except core.HarnessError as e:
            emit({"t": "harness", "msg": str(e)})
            continue
        env.note(-2, b"")
        env.done(extra)


if _MAIN:
    main()
