"""NetSim - two REAL QuicConnection endpoints, an adversarial network, virtual time.

The default policy is a discrete-event simulation with a fixed one-way latency:
the earliest event (datagram arrival or timer deadline) happens next and
application operations run as soon as their guard holds.  Every departure from
that (drop / duplicate / delay a datagram, rebind the client address, fire a
timer late) is one *deviation* offered to the explorer through
`chooser.choose()`.  After each API call on an endpoint the sans-IO contract loop
runs (datagrams_to_send -> enqueue, drain events, read timer) and the monitors are
invoked.  The wire observer opens every emitted datagram with `refquic`.
"""
import io
import os

from . import certs, core, refquic, seams

from aioquic.quic import events as qev
from aioquic.quic.configuration import QuicConfiguration
from aioquic.quic.connection import QuicConnection

LATENCY = 0.010
C_ADDR = ("10.0.0.1", 1111)
C_ADDR2 = ("10.0.0.9", 9999)
C_ADDR3 = ("10.0.0.77", 7777)   # a second rebinding (deviation budget permitting) lands here
S_ADDR = ("10.0.0.2", 4433)
V1 = refquic.V1
V2 = refquic.V2


# --------------------------------------------------------------- configuration
_cert_cache = {}


def _load_chain(name):
    """(certificate, chain, private_key) loaded once per process."""
    if name not in _cert_cache:
        cfg = QuicConfiguration(is_client=False)
        cfg.load_cert_chain(certs.path(name + ".pem"), certs.path(name + ".key"))
        from . import seams

        _cert_cache[name] = (cfg.certificate, cfg.certificate_chain, seams.fixed_length_ec_key(cfg.private_key))
    return _cert_cache[name]


_ca_cache = {}


def _cadata(name="ca.pem"):
    if name not in _ca_cache:
        with open(certs.path(name), "rb") as f:
            _ca_cache[name] = f.read()
    return _ca_cache[name]


DEFAULT_CFG = {
    "version": V1,            # client's original version
    "cc": "reno",
    "order": 1,               # stream-set order salt
    "c_mds": 1200,
    "s_mds": 1200,
    "chain": "ed25519",
    "idle": 600.0,
    "c_max_data": 1048576,
    "c_max_stream_data": 1048576,
    "s_max_data": 1048576,
    "s_max_stream_data": 1048576,
    "alpn": ["verif"],
    "retry": False,           # front end answers the first Initial with a Retry
    "vn": False,              # front end answers the first Initial with Version Negotiation
    "qlog": False,
    "secrets": True,
    "quantum": False,
    "latency": LATENCY,
    "c_supported": None,
    "s_supported": None,
    "c_drop_first": 0,        # scripted fault: the first N client datagrams are lost
    "blackout_from": None,    # scripted fault: every datagram sent at/after this time (s after start) is lost
    "blackout_until": None,   # ... and before this time (None = forever)
    "suite": None,            # restrict both endpoints to one cipher suite: aes128 / aes256 / chacha20
    "c_cid_limit": None,      # active_connection_id_limit advertised by the client / the server (default 8)
    "s_cid_limit": None,
    "rebind_at": None,        # seconds after start: the client's source address changes (scripted NAT rebinding)
    "blackouts": None,        # [(from, until), ...] seconds after start: everything sent in a window is lost
    "c_cert": None,           # name of a vlib.certs chain the CLIENT presents on CertificateRequest
    "tickets": None,          # {"client": [], "server": {}} session-ticket store shared between worlds
    "c_max_streams": None,    # (bidi, uni) stream-count limits advertised by the client
    "s_max_streams": None,
}


def make_configs(cfg):
    c = QuicConfiguration(is_client=True, alpn_protocols=list(cfg["alpn"]))
    c.server_name = "localhost"
    c.cadata = _cadata()
    c.congestion_control_algorithm = cfg["cc"]
    c.max_datagram_size = cfg["c_mds"]
    c.idle_timeout = cfg["idle"]
    c.max_data = cfg["c_max_data"]
    c.max_stream_data = cfg["c_max_stream_data"]
    c.original_version = cfg["version"]
    c.supported_versions = list(cfg["c_supported"] or ([V1, V2] if cfg["version"] == V1 else [V2, V1]))
    c.quantum_readiness_test = cfg["quantum"]
    if cfg.get("c_cert"):
        # the client has a certificate of its own (used when the server asks for one)
        c.certificate, c.certificate_chain, c.private_key = _load_chain(cfg["c_cert"])
    s = QuicConfiguration(is_client=False, alpn_protocols=list(cfg.get("s_alpn") or cfg["alpn"]))
    s.certificate, s.certificate_chain, s.private_key = _load_chain(cfg["chain"])
    s.congestion_control_algorithm = cfg["cc"]
    s.max_datagram_size = cfg["s_mds"]
    s.idle_timeout = cfg["idle"]
    s.max_data = cfg["s_max_data"]
    s.max_stream_data = cfg["s_max_stream_data"]
    s.supported_versions = list(cfg["s_supported"] or [V1, V2])
    if cfg.get("vn"):
        # the server only speaks the *other* version, forcing incompatible negotiation
        s.supported_versions = [V2 if cfg["version"] == V1 else V1]
    if cfg.get("suite"):
        from aioquic.tls import CipherSuite

        cs = {"aes128": CipherSuite.AES_128_GCM_SHA256, "aes256": CipherSuite.AES_256_GCM_SHA384,
              "chacha20": CipherSuite.CHACHA20_POLY1305_SHA256}[cfg["suite"]]
        c.cipher_suites = [cs]
        s.cipher_suites = [cs]
    return c, s


# ------------------------------------------------------------------- observer
class PacketRec:
    __slots__ = ("sender", "dgram", "type", "epoch", "pn", "frames", "size", "ack_eliciting",
                 "in_flight", "dcid", "scid", "opened", "time", "dst", "version", "note", "token", "key_phase")

    def brief(self):
        return (self.sender, self.type, self.pn,
                [f["t"] for f in (self.frames or [])], self.size)


EPOCH_OF = {"initial": "I", "handshake": "H", "0rtt": "A", "1rtt": "A"}  # A = application space


class Observer:
    """Opens every datagram the endpoints emit, with independent crypto."""

    def __init__(self, world):
        self.w = world
        self.initial_dcids = []          # candidate original DCIDs (client's first Initials)
        self.keys = {}                   # (sender, kind) -> Keys
        self.largest = {}                # (sender, space) -> largest pn seen
        self.nonstandard = []            # notes about non-RFC behaviour needed to open packets
        self.unopened = []               # PacketRec that could not be opened
        self.cid_len = 8

    def _secret(self, sender, label):
        ep = self.w.ep[sender]
        if ep.keylog is None:
            return None
        return refquic.parse_keylog(ep.keylog.getvalue()).get(label)

    def _tls_keys(self, sender, ptype, version):
        """candidate Keys objects for a handshake/0rtt/1rtt packet sent by `sender`."""
        role = "CLIENT" if sender == "c" else "SERVER"
        label = {
            "handshake": role + "_HANDSHAKE_TRAFFIC_SECRET",
            "0rtt": "CLIENT_EARLY_TRAFFIC_SECRET",
            "1rtt": role + "_TRAFFIC_SECRET_0",
        }[ptype]
        out = []
        k = self.keys.get((sender, ptype))
        if k is not None:
            out.append(k)
        sec = self._secret(sender, label)
        if sec is not None and (k is None or k.secret != sec or ptype != "1rtt"):
            # fresh candidates from the key log: after a Retry / Version Negotiation restart the handshake
            # starts over with new secrets, and a short header does not say which version's labels apply
            # (the sender may have switched version before the peer has)
            for ver in [version] + [v for v in (V1, V2) if v != version]:
                for su in refquic.suites_for_secret(sec):
                    if k is not None and (k.suite, k.secret, getattr(k, "version", None)) == (su, sec, ver):
                        continue
                    out.append(refquic.Keys(su, sec, ver))
        return out

    def observe(self, sender, data, dst, now):
        recs = []
        pkts, trailing = refquic.split_datagram(data, self.cid_len)
        for p in pkts:
            r = PacketRec()
            r.sender, r.type, r.dcid, r.scid, r.version = sender, p.type, p.dcid, p.scid, p.version
            r.size = p.end - p.start
            r.time, r.dst, r.dgram = now, dst, len(data)
            r.frames, r.pn, r.opened, r.note = None, None, False, None
            r.key_phase = None
            r.token = p.token
            r.epoch = EPOCH_OF.get(p.type)
            r.ack_eliciting = r.in_flight = False
            if p.type in ("retry", "vn", "unknown_version"):
                r.opened = True
                r.frames = []
                recs.append(r)
                continue
            space = (sender, r.epoch)
            expected = self.largest.get(space, -1) + 1
            res = None
            if p.type == "initial":
                if sender == "c" and p.dcid not in self.initial_dcids:
                    self.initial_dcids.append(p.dcid)
                for od in reversed(self.initial_dcids):
                    cs, ss = refquic.initial_secrets(p.version, od)
                    k = refquic.Keys("aes128", cs if sender == "c" else ss, p.version)
                    res = refquic.unprotect(data, p, k, expected)
                    if res:
                        break
            else:
                version = p.version if p.version is not None else self.w.negotiated_version()
                for k in self._tls_keys(sender, p.type, version):
                    nxt = None
                    if p.type == "1rtt":
                        nxt = self.keys.get((sender, "1rtt.next")) or k.next()
                    res = refquic.unprotect(data, p, k, expected, allow_next_phase=nxt)
                    if res is None and p.type == "1rtt" and version == V2:
                        # aioquic derives the next phase with the v1 label under v2
                        alt = refquic.Keys(k.suite, refquic.hkdf_expand_label(
                            k.hashname, k.secret, b"quic ku", b"", len(k.secret)), V2, hp=k.hp,
                            phase=k.phase ^ 1)
                        res = refquic.unprotect(data, p, k, expected, allow_next_phase=alt)
                        if res:
                            self.nonstandard.append("v2 key update derived with label 'quic ku'")
                    if res is None and p.type == "1rtt":
                        # the sender may have moved more than one key generation since its last packet
                        # (it followed the peer's update(s) without sending, then updated itself)
                        kk = nxt
                        for _ in range(3):
                            kk = kk.next()
                            res = refquic.unprotect(data, p, kk, expected)
                            if res:
                                break
                    if res:
                        used = res[4]
                        if p.type == "1rtt" and used is not k:
                            self.keys[(sender, "1rtt")] = used
                            self.keys.pop((sender, "1rtt.next"), None)
                        else:
                            self.keys[(sender, p.type)] = k
                        break
            if res is None:
                self.unopened.append(r)
                recs.append(r)
                continue
            header, pn, pn_len, pt, _ = res
            r.pn, r.opened = pn, True
            r.key_phase = (header[0] >> 2) & 1 if p.type == "1rtt" else None
            if pn > self.largest.get(space, -1):
                self.largest[space] = pn
            try:
                r.frames = refquic.parse_frames(pt)
            except refquic.ParseError as e:
                r.frames = []
                r.note = "frame parse error: %s" % e
                self.unopened.append(r)
            r.ack_eliciting = refquic.is_ack_eliciting(r.frames)
            r.in_flight = refquic.is_in_flight(r.frames)
            recs.append(r)
        return recs


# -------------------------------------------------------------------- endpoints
class Endpoint:
    def __init__(self, name, addr):
        self.name = name
        self.addr = addr
        self.conn = None
        self.keylog = None
        self.events = []          # all events popped, in order
        self.ops = []             # script: list of op dicts
        self.op_i = 0
        self.hs_done = False
        self.terminated = None
        self.rx = {}              # stream id -> bytearray received
        self.rx_fin = {}          # stream id -> count of end_stream signals
        self.rx_reset = {}        # stream id -> list of codes
        self.pings_acked = []
        self.stop_rx = {}
        self.sent_packets = []    # PacketRec of everything this endpoint emitted
        self.api_calls = 0
        self.timer_late = 0.0
        self.post_term_timers = 0
        self.was_late = False     # the harness fired one of this endpoint's timers late
        self.qlogger = None


_PAT = {}
_PAT_LEN = 1 << 16


def pattern(sid, off, n):
    """Stream payload: byte = f(stream, offset), so misplaced data is visible."""
    if off + n > _PAT_LEN:
        return bytes(((sid * 37 + o * 7 + (o >> 8) * 13 + 1) & 0xFF) for o in range(off, off + n))
    big = _PAT.get(sid)
    if big is None:
        big = _PAT[sid] = bytes(((sid * 37 + o * 7 + (o >> 8) * 13 + 1) & 0xFF) for o in range(_PAT_LEN))
    return big[off : off + n]


class Dgram:
    __slots__ = ("id", "src", "dst", "data", "src_addr", "arrival", "sent", "recs", "kind")


class Step:
    """One executed transition, kept for replay traces."""

    __slots__ = ("kind", "detail", "time")

    def __init__(self, kind, detail, time):
        self.kind, self.detail, self.time = kind, detail, time

    def __repr__(self):
        return "%.6f %s %s" % (self.time, self.kind, self.detail)


class Violation(Exception):
    def __init__(self, sig, what):
        Exception.__init__(self, what)
        self.sig = sig
        self.what = what


class NetSim:
    def __init__(self, cfg, script, chooser, monitors=(), deviations=("drop", "dup", "delay", "rebind", "late"),
                 max_steps=600, horizon=120.0, adversarial_steps=10**9, trace=False):
        self.cfg = dict(DEFAULT_CFG)
        self.cfg.update(cfg or {})
        seams.install(self.cfg["order"])
        self.chooser = chooser
        self.monitors = list(monitors)
        self.dev = set(deviations)
        self.max_steps = max_steps
        self.horizon = horizon
        self.adversarial_steps = adversarial_steps
        self.now = 1000.0
        self.t0 = self.now
        self.ep = {"c": Endpoint("c", C_ADDR), "s": Endpoint("s", S_ADDR)}
        self.ep["c"].ops = [dict(o) for o in script.get("c", [])]
        self.ep["s"].ops = [dict(o) for o in script.get("s", [])]
        self.inflight = []
        self.next_id = 0
        self.obs = Observer(self)
        self.steps = []
        self.trace = trace
        self.nsteps = 0
        self.deviations_used = []
        self.delivered = []       # (dgram id, dst, arrival time, src_addr)
        self.retry_done = False
        self.vn_done = False
        self.c_cfg, self.s_cfg = make_configs(self.cfg)
        self.client_addr = C_ADDR
        self.stutters = 0
        self.last_deviation_time = self.now
        for m in self.monitors:
            m.attach(self)

    # ---------------------------------------------------------------- plumbing
    def negotiated_version(self):
        c = self.ep["c"].conn
        return getattr(c, "_version", None) or self.cfg["version"]

    def log(self, kind, detail):
        if self.trace:
            self.steps.append(Step(kind, detail, self.now - self.t0))

    def _mk_logs(self, ep, cfg):
        if self.cfg["secrets"]:
            ep.keylog = io.StringIO()
            cfg.secrets_log_file = ep.keylog
        if self.cfg["qlog"]:
            from aioquic.quic.logger import QuicLogger

            ep.qlogger = QuicLogger()
            cfg.quic_logger = ep.qlogger

    def start(self):
        c = self.ep["c"]
        self._mk_logs(c, self.c_cfg)
        tk = self.cfg.get("tickets")
        if tk is not None:
            if tk["client"]:
                self.c_cfg.session_ticket = tk["client"][-1]
            c.conn = QuicConnection(configuration=self.c_cfg, session_ticket_handler=tk["client"].append)
        else:
            c.conn = QuicConnection(configuration=self.c_cfg)
        self._apply_stream_limits(c.conn, self.cfg["c_max_streams"])
        if self.cfg.get("c_cid_limit"):
            # configuration only: the active_connection_id_limit this endpoint advertises (no public knob)
            c.conn._local_active_connection_id_limit = self.cfg["c_cid_limit"]
        def first():
            # connect() and the application's "pre" operations (0-RTT writes issued before the
            # first transmit) happen before the first datagrams_to_send(), as a real caller
            # that connects and writes in the same event-loop turn would do
            c.conn.connect(S_ADDR, now=self.now)
            while c.op_i < len(c.ops) and c.ops[c.op_i].get("g") == "pre":
                op = c.ops[c.op_i]
                c.op_i += 1
                if op["op"] != "w":
                    raise core.HarnessError("only writes may be 'pre' operations")
                off = op.setdefault("_off", self._written(c, op["sid"]))
                c.conn.send_stream_data(op["sid"], pattern(op["sid"], off, op["n"]),
                                        end_stream=op.get("fin", False))
                self.log("app_pre", (c.name, op))

        self.api(c, "connect", first)

    @staticmethod
    def _apply_stream_limits(conn, lim):
        """Configuration only: lower the advertised stream-count limits before the transport
        parameters are serialised (QuicConfiguration has no knob; the suite does the same)."""
        if lim is None:
            return
        for limit, v in ((conn._local_max_streams_bidi, lim[0]), (conn._local_max_streams_uni, lim[1])):
            limit.value = v
            limit.sent = v

    def api(self, ep, name, fn, pump=True):
        """Run one public API call on an endpoint, then the sans-IO contract loop (pump=False: the caller
        has not got round to transmitting yet - the next call's loop covers this one too)."""
        ep.api_calls += 1
        for m in self.monitors:
            m.before_api(self, ep, name)
        try:
            fn()
        except Violation:
            raise
        except Exception as e:  # noqa
            for m in self.monitors:
                m.on_exception(self, ep, name, e)
            raise
        if pump:
            self.pump(ep, name)

    def pump(self, ep, cause):
        conn = ep.conn
        for m in self.monitors:
            m.before_send(self, ep)
        out = conn.datagrams_to_send(now=self.now)
        if (out and ep.name == "c" and self.cfg.get("rebind_at") is not None and self.client_addr == C_ADDR
                and self.now - self.t0 >= self.cfg["rebind_at"]):
            # scripted NAT rebinding: the first datagram the client sends after that instant (and everything
            # later) carries another source address - a mapping only changes when the client transmits, and
            # the server learns the new address from that datagram
            self.client_addr = C_ADDR2
            self.log("scripted_rebind", (C_ADDR2,))
        recs_all = []
        for data, addr in out:
            d = Dgram()
            d.id = self.next_id
            self.next_id += 1
            d.src = ep.name
            d.dst = "s" if ep.name == "c" else "c"
            d.data = data
            d.src_addr = self.client_addr if ep.name == "c" else S_ADDR
            d.kind = "genuine"
            d.sent = self.now
            d.arrival = self.now + self.cfg["latency"]
            d.recs = self.obs.observe(ep.name, data, addr, self.now)
            ep.sent_packets.extend(d.recs)
            recs_all.append((d, addr))
            if self.cfg["blackout_from"] is not None and self.now - self.t0 >= self.cfg["blackout_from"] and (
                    self.cfg["blackout_until"] is None or self.now - self.t0 < self.cfg["blackout_until"]):
                d.kind = "scripted_loss"
                self.log("send_lost", (ep.name, d.id, len(data)))
                continue
            if any(a <= self.now - self.t0 < b for a, b in (self.cfg.get("blackouts") or ())):
                d.kind = "scripted_loss"
                self.log("send_lost", (ep.name, d.id, len(data)))
                continue
            if ep.name == "c" and d.id < self.cfg["c_drop_first"]:
                d.kind = "scripted_loss"
                self.log("send_lost", (ep.name, d.id, len(data)))
                continue
            if ep.name == "s" and addr != self.client_addr:
                # addressed to where the client is not (stale or spoofed address): blackholed
                d.kind = "misrouted"
                self.log("send_misrouted", (ep.name, d.id, len(data), addr))
                continue
            self.inflight.append(d)
            self.log("send", (ep.name, d.id, len(data), [r.brief()[1:4] for r in d.recs]))
        # drain events
        new_events = []
        while True:
            ev = conn.next_event()
            if ev is None:
                break
            new_events.append(ev)
            ep.events.append(ev)
            self._account_event(ep, ev)
        timer = conn.get_timer()
        for m in self.monitors:
            m.after_pump(self, ep, cause, recs_all, new_events, timer)

    def _account_event(self, ep, ev):
        if isinstance(ev, qev.HandshakeCompleted):
            ep.hs_done = True
        elif isinstance(ev, qev.StreamDataReceived):
            ep.rx.setdefault(ev.stream_id, bytearray()).extend(ev.data)
            if ev.end_stream:
                ep.rx_fin[ev.stream_id] = ep.rx_fin.get(ev.stream_id, 0) + 1
        elif isinstance(ev, qev.StreamReset):
            ep.rx_reset.setdefault(ev.stream_id, []).append(ev.error_code)
        elif isinstance(ev, qev.PingAcknowledged):
            ep.pings_acked.append(ev.uid)
        elif isinstance(ev, qev.StopSendingReceived):
            ep.stop_rx[ev.stream_id] = ev.error_code
        elif isinstance(ev, qev.ConnectionTerminated):
            ep.terminated = ev
        self.log("event", (ep.name, type(ev).__name__, getattr(ev, "stream_id", None),
                           len(getattr(ev, "data", b"") or b""), getattr(ev, "end_stream", None),
                           getattr(ev, "error_code", None)))

    # ------------------------------------------------------------- app scripts
    def _guard(self, ep, op):
        g = op.get("g", "hs")
        if ep.conn is None or ep.terminated is not None:
            return False
        if g == "now":
            return True
        if g == "hs":
            return ep.hs_done
        if g[0] == "rx":  # ("rx", sid, nbytes)
            return len(ep.rx.get(g[1], b"")) >= g[2]
        if g[0] == "rxfin":
            return ep.rx_fin.get(g[1], 0) > 0
        if g[0] == "t":   # ("t", seconds after start)  plus handshake
            return ep.hs_done and self.now - self.t0 >= g[1] - 1e-9
        if g[0] == "acked":  # ping uid acknowledged
            return g[1] in ep.pings_acked
        raise core.HarnessError("bad guard %r" % (g,))

    def _next_op(self):
        for name in ("c", "s"):
            ep = self.ep[name]
            if ep.op_i < len(ep.ops) and self._guard(ep, ep.ops[ep.op_i]):
                return ep
        return None

    def _do_op(self, ep):
        op = ep.ops[ep.op_i]
        ep.op_i += 1
        conn = ep.conn
        k = op["op"]
        self.log("app", (ep.name, op))
        if k == "w":
            sid, n, fin = op["sid"], op["n"], op.get("fin", False)
            off = op.setdefault("_off", self._written(ep, sid))
            data = pattern(sid, off, n)
            self.api(ep, "send_stream_data", lambda: conn.send_stream_data(sid, data, end_stream=fin))
        elif k == "reset":
            self.api(ep, "reset_stream", lambda: conn.reset_stream(op["sid"], op.get("code", 9)))
        elif k == "stop":
            self.api(ep, "stop_stream", lambda: conn.stop_stream(op["sid"], op.get("code", 8)))
        elif k == "ping":
            self.api(ep, "send_ping", lambda: conn.send_ping(op["uid"]))
        elif k == "ku":
            self.api(ep, "request_key_update", conn.request_key_update)
        elif k == "cid":
            self.api(ep, "change_connection_id", conn.change_connection_id)
        elif k == "close":
            self.api(ep, "close", lambda: conn.close(error_code=op.get("code", 0),
                                                     reason_phrase=op.get("reason", "")))
        elif k == "dgram":
            self.api(ep, "send_datagram_frame", lambda: conn.send_datagram_frame(bytes(op["n"])))
        else:
            raise core.HarnessError("bad op %r" % (op,))

    def _written(self, ep, sid):
        n = 0
        for o in ep.ops[: ep.op_i - 1]:
            if o["op"] == "w" and o["sid"] == sid:
                n += o["n"]
        return n

    def written(self, name):
        """per stream: (bytes written, fin written?, reset?) by endpoint `name` so far."""
        ep = self.ep[name]
        out = {}
        for o in ep.ops[: ep.op_i]:
            if o["op"] == "w":
                w = out.setdefault(o["sid"], [0, False, False])
                w[0] += o["n"]
                w[1] = w[1] or o.get("fin", False)
            elif o["op"] == "reset":
                out.setdefault(o["sid"], [0, False, False])[2] = True
        return out

    # ---------------------------------------------------------------- delivery
    def _front_end(self, d):
        """What QuicServer does before a connection exists. Returns True if consumed."""
        pkts, _ = refquic.split_datagram(d.data, 8)
        if not pkts or pkts[0].type != "initial" or len(d.data) < 1200:
            self.log("frontend_drop", d.id)
            return True
        p = pkts[0]
        if self.cfg["vn"] and p.version not in self.s_cfg.supported_versions:
            # stateless, like QuicServer: every Initial in a version the server does not speak is answered
            self.vn_done = True
            from aioquic.quic.packet import encode_quic_version_negotiation

            vn = encode_quic_version_negotiation(
                source_cid=p.dcid, destination_cid=p.scid,
                supported_versions=list(self.s_cfg.supported_versions))
            self._enqueue_raw("s", "c", vn, S_ADDR, "vn")
            return True
        if p.version not in self.s_cfg.supported_versions:
            return True
        retry_scid = None
        odcid = p.dcid
        if self.cfg["retry"]:
            if not p.token:
                if True:
                    self.retry_scid = bytes([0x5C]) * 8
                    self.retry_odcid = p.dcid
                    from aioquic.quic.packet import encode_quic_retry

                    pkt = encode_quic_retry(version=p.version, source_cid=self.retry_scid,
                                            destination_cid=p.scid,
                                            original_destination_cid=p.dcid,
                                            retry_token=b"verif-token-" + p.dcid)
                    self._enqueue_raw("s", "c", pkt, S_ADDR, "retry")
                    self.retry_done = True
                return True
            if p.token != b"verif-token-" + getattr(self, "retry_odcid", b"?"):
                return True
            odcid = self.retry_odcid
            retry_scid = self.retry_scid
        s = self.ep["s"]
        self._mk_logs(s, self.s_cfg)
        tk = self.cfg.get("tickets")
        kw = {}
        if tk is not None:
            kw = {"session_ticket_fetcher": lambda label: tk["server"].pop(label, None),
                  "session_ticket_handler": lambda t: tk["server"].__setitem__(t.ticket, t)}
        s.conn = QuicConnection(configuration=self.s_cfg,
                                original_destination_connection_id=odcid,
                                retry_source_connection_id=retry_scid, **kw)
        self._apply_stream_limits(s.conn, self.cfg["s_max_streams"])
        if self.cfg.get("s_cid_limit"):
            s.conn._local_active_connection_id_limit = self.cfg["s_cid_limit"]
        self.log("server_created", d.id)
        return False

    def _enqueue_raw(self, src, dst, data, src_addr, kind):
        d = Dgram()
        d.id = self.next_id
        self.next_id += 1
        d.src, d.dst, d.data, d.src_addr, d.kind = src, dst, data, src_addr, kind
        d.sent = self.now
        d.arrival = self.now + self.cfg["latency"]
        d.recs = self.obs.observe(src, data, None, self.now) if kind in ("retry", "vn") else []
        self.inflight.append(d)
        return d

    def deliver(self, d, src_addr=None, pump=True):
        ep = self.ep[d.dst]
        addr = src_addr or d.src_addr
        if d.arrival > self.now:
            self.now = d.arrival
        if ep.conn is None:
            if d.dst == "s" and not self._front_end(d):
                pass
            else:
                return
        self.delivered.append((d.id, d.dst, self.now, addr))
        self.log("deliver", (d.id, d.dst, len(d.data), addr != d.src_addr))
        for m in self.monitors:
            m.on_deliver(self, ep, d, addr)
        self.api(ep, "receive_datagram", lambda: ep.conn.receive_datagram(d.data, addr, now=self.now), pump=pump)

    def fire_timer(self, ep, at):
        if at > self.now:
            self.now = at
        self.log("timer", (ep.name, round(at - self.t0, 6)))
        if ep.terminated is not None:
            ep.post_term_timers += 1
        before_timer = ep.conn.get_timer()
        self.api(ep, "handle_timer", lambda: ep.conn.handle_timer(now=self.now))
        after = ep.conn.get_timer()
        if after is not None and after <= self.now and after == before_timer and ep.terminated is None:
            # the deadline did not move and is still due: a real loop would spin;
            # model it by letting time advance a little (doubling), and count it.
            self.stutters += 1
            step = 1e-6 * (2 ** min(self.stutters, 20))
            # ... but never past the next thing that is due anyway (an arrival, the other endpoint's timer):
            # the spinning endpoint must not make the harness late for anybody else
            nxt = [d.arrival for d in self.inflight if d.arrival > self.now]
            for other in self.ep.values():
                if other is not ep and other.conn is not None and other.terminated is None:
                    t = other.conn.get_timer()
                    if t is not None and t > self.now:
                        nxt.append(t)
            if nxt:
                step = min(step, max(min(nxt) - self.now, 1e-6))
            self.now += step

    # --------------------------------------------------------------- main loop
    def _timers(self):
        out = []
        for name in ("c", "s"):
            ep = self.ep[name]
            if ep.conn is None:
                continue
            if ep.terminated is not None and ep.post_term_timers >= 3:
                continue
            t = ep.conn.get_timer()
            if t is not None:
                # a caller keeps honouring get_timer() after termination too (bounded)
                out.append((max(t, self.now) + ep.timer_late, name, t))
        out.sort()
        return out

    def quiescent(self):
        if self.inflight:
            return False
        for name in ("c", "s"):
            ep = self.ep[name]
            if ep.conn is None or ep.terminated is not None:
                continue
            if ep.op_i < len(ep.ops) and self._guard(ep, ep.ops[ep.op_i]):
                return False
            t = ep.conn.get_timer()
            if t is not None and t != ep.conn._close_at:
                return False
        return True

    def run(self, until=None):
        """until(world) -> True stops the run early (goal reached and quiescent)."""
        self.start()
        while self.nsteps < self.max_steps and self.now - self.t0 < self.horizon:
            # application operations run as soon as their guard holds
            ep = self._next_op()
            if ep is not None:
                self._do_op(ep)
                continue
            if until is not None and until(self) and self.quiescent():
                return "done"
            if (all(e.terminated is not None or e.conn is None for e in self.ep.values())
                    and not self.inflight and not self._timers()):
                return "terminated"
            self.inflight.sort(key=lambda d: (d.arrival, d.id))
            timers = self._timers()
            first = self.inflight[0] if self.inflight else None
            # an application that acts on its own schedule (guard ("t", seconds)) wakes up by itself
            wake = None
            for e in self.ep.values():
                if e.conn is not None and e.terminated is None and e.hs_done and e.op_i < len(e.ops):
                    g = e.ops[e.op_i].get("g", "hs")
                    if isinstance(g, (tuple, list)) and g[0] == "t" and self.now - self.t0 < g[1] - 1e-9:
                        wake = self.t0 + g[1] if wake is None else min(wake, self.t0 + g[1])
            if wake is not None and (first is None or wake < first.arrival) and (not timers or wake < timers[0][0]):
                self.now = wake
                continue
            self.nsteps += 1
            # menu: alternative 0 is the default (earliest event)
            menu = []
            if first is not None and (not timers or first.arrival <= timers[0][0]):
                menu.append(("deliver", first))
                allow = self.nsteps <= self.adversarial_steps
                if allow:
                    if "drop" in self.dev:
                        menu.append(("drop", first))
                    if "dup" in self.dev and first.kind == "genuine":
                        menu.append(("dup", first))
                    if "duplate" in self.dev and first.kind == "genuine":
                        menu.append(("dup", first, 1.0))
                    if "dupmid" in self.dev and first.kind == "genuine":
                        # the copy arrives one to three round trips later (after ACK-of-ACK rounds)
                        menu.append(("dup", first, 0.025))
                        menu.append(("dup", first, 0.055))
                    if "delay" in self.dev:
                        menu.append(("delay", first, 0.030))
                        menu.append(("delay", first, 1.5))
                    if "hold" in self.dev and any(d2 is not first and d2.dst == first.dst
                                                  and d2.arrival <= first.arrival + 0.001 for d2 in self.inflight):
                        # back-to-back arrival: the caller takes this datagram and the next one before it
                        # transmits (datagrams_to_send / events are served once, after the second)
                        menu.append(("hold", first))
                    if "rebind" in self.dev and first.src == "c" and self.client_addr in (C_ADDR, C_ADDR2):
                        menu.append(("rebind", first))
                    if "spoof" in self.dev and first.src == "c" and first.kind == "genuine":
                        menu.append(("spoof", first))
            elif timers:
                at, name, raw = timers[0]
                menu.append(("timer", name, at))
                if self.nsteps <= self.adversarial_steps and "late" in self.dev:
                    menu.append(("late", name, 1e-6))
                    menu.append(("late", name, 0.020))
            else:
                return "stuck"
            ev_time = first.arrival if menu[0][0] == "deliver" else menu[0][2]
            if ev_time - self.t0 >= self.horizon:
                return "horizon"
            c = self.chooser.choose(len(menu)) if len(menu) > 1 else 0
            ev = menu[c]
            if c:
                self.deviations_used.append((self.nsteps, ev[0]) + tuple(
                    x for x in ev[2:] if isinstance(x, (int, float))))
                self.last_deviation_time = self.now
                self.log("DEVIATION", (ev[0],) + tuple(x for x in ev[1:] if not isinstance(x, Dgram))
                         + ((ev[1].id,) if isinstance(ev[1], Dgram) else ()))
            k = ev[0]
            if k == "deliver":
                self.inflight.remove(ev[1])
                self.deliver(ev[1])
            elif k == "hold":
                self.inflight.remove(ev[1])
                self.deliver(ev[1], pump=False)
            elif k == "drop":
                self.inflight.remove(ev[1])
                if ev[1].arrival > self.now:
                    self.now = ev[1].arrival
            elif k == "dup":
                d = ev[1]
                self.inflight.remove(d)
                c2 = Dgram()
                c2.id, self.next_id = self.next_id, self.next_id + 1
                c2.src, c2.dst, c2.data, c2.src_addr, c2.kind = d.src, d.dst, d.data, d.src_addr, "dup"
                c2.sent, c2.recs = d.sent, d.recs
                c2.arrival = d.arrival + (ev[2] if len(ev) > 2 else 0.004)
                self.inflight.append(c2)
                self.deliver(d)
            elif k == "delay":
                ev[1].arrival += ev[2]
            elif k == "spoof":
                d = ev[1]
                c2 = Dgram()
                c2.id, self.next_id = self.next_id, self.next_id + 1
                c2.src, c2.dst, c2.data, c2.src_addr, c2.kind = d.src, d.dst, d.data, C_ADDR2, "dup"
                c2.sent, c2.recs, c2.arrival = d.sent, d.recs, d.arrival
                self.deliver(c2, src_addr=C_ADDR2)
            elif k == "rebind":
                self.inflight.remove(ev[1])
                new_addr = C_ADDR2 if self.client_addr == C_ADDR else C_ADDR3
                self.client_addr = new_addr
                for d in self.inflight:
                    if d.src == "c":
                        d.src_addr = new_addr
                self.deliver(ev[1], src_addr=new_addr)
            elif k == "timer":
                self.fire_timer(self.ep[ev[1]], ev[2])
            elif k == "late":
                ep = self.ep[ev[1]]
                ep.was_late = True
                at = self._timers()[0][0] + ev[2]
                # a late timer may be overtaken by datagram arrivals: model by firing it late now
                # only if nothing arrives earlier, else postpone via timer_late until it fires
                if self.inflight and self.inflight[0].arrival < at:
                    ep.timer_late = ev[2]
                else:
                    self.fire_timer(ep, at)
                    ep.timer_late = 0.0
                continue
            # a postponed (late) timer resets once it fired or was re-armed
            if k == "timer":
                self.ep[ev[1]].timer_late = 0.0
        return "horizon"


class Monitor:
    """Base class: override what you need. Raise netsim.Violation to report."""

    def attach(self, w):
        pass

    def before_api(self, w, ep, name):
        pass

    def before_send(self, w, ep):
        pass

    def after_pump(self, w, ep, cause, sent, new_events, timer):
        pass

    def on_deliver(self, w, ep, d, addr):
        pass

    def on_exception(self, w, ep, name, exc):
        pass

    def at_end(self, w, outcome):
        pass


_TICKETS = {}


def resolve_tickets(cfg):
    """cfg["tickets"] == "obtain": run the ticket-issuing first connection now (same version / chain /
    front end) and put the store in a copy of cfg."""
    if cfg.get("tickets") != "obtain":
        return cfg
    cfg = dict(cfg)
    cfg["tickets"] = obtain_tickets({k: v for k, v in cfg.items() if k in ("version", "chain", "retry", "cc")})
    return cfg


def obtain_tickets(base_cfg=None):
    """Run a first connection (default schedule) and return a ticket store usable as
    cfg["tickets"] for a resuming second connection. Each call builds fresh tickets."""
    from . import explore

    store = {"client": [], "server": {}}
    cfg = dict(base_cfg or {})
    cfg["tickets"] = store
    cfg.pop("c_drop_first", None)
    w1 = NetSim(cfg, {"c": [{"op": "ping", "uid": 1}]}, explore.Chooser([]))
    w1.run(lambda w: 1 in w.ep["c"].pings_acked and store["client"])
    if not store["client"]:
        raise core.HarnessError("no session ticket obtained")
    return store
