"""PeerBot - one REAL endpoint E, the harness plays a key-holding peer.

Bootstrap: a real throw-away peer connection P performs the handshake with E
inside a NetSim world (default policy, perfect link) up to a cut point.  From the
cut on the harness speaks for P through `refquic`: it knows P's secrets from P's
own key log, E's connection IDs and the packet numbers from the wire.  E is only
ever touched through its public API.
"""
from . import core, netsim, refquic, explore

V1, V2 = refquic.V1, refquic.V2


class Result:
    __slots__ = ("events", "sent", "timer", "terminated")

    def frames(self, kind=None):
        out = []
        for r in self.sent:
            for f in r.frames or []:
                if kind is None or f["t"] == kind:
                    out.append(f)
        return out


class PeerBot:
    def __init__(self, e_role="server", cfg=None, cut="connected", script=None, monitors=(),
                 max_steps=None):
        """cut: 'connected' (handshake done both sides, quiescent), 'fresh' (E=server, nothing
        received / E=client, connect() called and first flight sent), ('steps', k) (stop the
        bootstrap after k network steps), or a predicate(world)->bool."""
        self.e_name = "s" if e_role == "server" else "c"
        self.p_name = "c" if e_role == "server" else "s"
        ch = explore.Chooser([])
        kw = {}
        if isinstance(cut, tuple) and cut[0] == "steps":
            kw["max_steps"] = cut[1]
        elif max_steps is not None:
            kw["max_steps"] = max_steps
        self.w = netsim.NetSim(cfg or {}, script or {}, ch, monitors=monitors, **kw)
        w = self.w
        self.cut = cut
        if cut == "fresh":
            if e_role == "client":
                w.start()
                # the first flight is in w.inflight; it is not delivered to anyone
            else:
                # QuicServer creates the connection object from the first Initial's DCID; build a
                # genuine client first flight, create E the same way, deliver nothing yet
                w.start()
                first = w.inflight[0]
                pk, _ = refquic.split_datagram(first.data, 8)
                from aioquic.quic.connection import QuicConnection

                s = w.ep["s"]
                w._mk_logs(s, w.s_cfg)
                s.conn = QuicConnection(configuration=w.s_cfg,
                                        original_destination_connection_id=pk[0].dcid)
                w._apply_stream_limits(s.conn, w.cfg["s_max_streams"])
        else:
            if callable(cut):
                pred = cut
            elif cut == "connected":
                pred = lambda ww: ww.ep["c"].hs_done and ww.ep["s"].hs_done  # noqa
            else:
                pred = lambda ww: False  # noqa
            w.run(pred)
        self.E = w.ep[self.e_name]
        self.P = w.ep[self.p_name]
        self.pending = list(w.inflight)   # datagrams still in flight at the cut
        w.inflight = []
        self.next_pn = 1 + max([-1] + [v for (s, sp), v in w.obs.largest.items() if s == self.p_name])
        self.peer_addr = netsim.C_ADDR if self.p_name == "c" else netsim.S_ADDR
        self.version = w.negotiated_version()
        self._keys = {}
        self.outstanding = []             # PacketRec emitted by E since the cut (ack-eliciting)
        self.log = []

    # ------------------------------------------------------------------ keys
    def keys(self, epoch):
        """Keys P uses to SEND in `epoch` ('initial'|'handshake'|'0rtt'|'1rtt')."""
        if epoch in self._keys:
            return self._keys[epoch]
        w = self.w
        if epoch == "initial":
            od = w.obs.initial_dcids[-1]
            cs, ss = refquic.initial_secrets(self.version, od)
            k = refquic.Keys("aes128", cs if self.p_name == "c" else ss, self.version)
        else:
            k = w.obs.keys.get((self.p_name, epoch))
            if k is None:
                role = "CLIENT" if self.p_name == "c" else "SERVER"
                label = {"handshake": role + "_HANDSHAKE_TRAFFIC_SECRET",
                         "0rtt": "CLIENT_EARLY_TRAFFIC_SECRET",
                         "1rtt": role + "_TRAFFIC_SECRET_0"}[epoch]
                sec = None
                for ep in (self.P, self.E):
                    if ep.keylog is not None:
                        sec = refquic.parse_keylog(ep.keylog.getvalue()).get(label)
                        if sec:
                            break
                if sec is None:
                    return None
                suite = self._suite()
                k = refquic.Keys(suite, sec, self.version)
        self._keys[epoch] = k
        return k

    def _suite(self):
        for (s, kind), k in self.w.obs.keys.items():
            if kind in ("handshake", "1rtt"):
                return k.suite
        return "aes128"

    def e_cids(self):
        """{sequence number: cid} issued by E as seen on the wire."""
        out = {}
        for r in self.E.sent_packets:
            if r.scid and 0 not in out and r.type in ("initial", "handshake"):
                out[0] = r.scid
            for f in r.frames or []:
                if f["t"] == "NEW_CONNECTION_ID":
                    out[f["seq"]] = f["cid"]
        if 0 not in out and self.E.conn is not None:
            out[0] = self.E.conn._host_cids[0].cid if self.E.conn._host_cids else b""
        return out

    def p_scid(self):
        for r in self.P.sent_packets:
            if r.scid:
                return r.scid
        return bytes(8)

    # --------------------------------------------------------------- actions
    def build(self, frames, epoch="1rtt", pn=None, pn_len=2, dcid=None, payload=None, reserved=0,
              key_phase=None, keys=None, token=b""):
        k = keys or self.keys(epoch)
        if k is None:
            raise core.HarnessError("no keys for epoch %s" % epoch)
        if pn is None:
            pn = self.next_pn
            self.next_pn += 1
        if payload is None:
            payload = refquic.enc_frames(frames)
        if dcid is None:
            dcid = self.e_cids().get(0, b"")
            cur = getattr(self, "dcid", None)
            if cur is not None:
                dcid = cur
        if epoch == "1rtt":
            return refquic.build_short(dcid, pn, pn_len, payload, k, reserved=reserved, key_phase=key_phase)
        return refquic.build_long(self.version, epoch, dcid, self.p_scid(), pn, pn_len, payload, k,
                                  token=token, reserved=reserved)

    def _pump_result(self, before_events, before_sent):
        r = Result()
        r.events = self.E.events[before_events:]
        r.sent = self.E.sent_packets[before_sent:]
        r.timer = self.E.conn.get_timer() if self.E.conn is not None else None
        r.terminated = self.E.terminated
        for rec in r.sent:
            if rec.ack_eliciting and rec.pn is not None:
                self.outstanding.append(rec)
        self.w.inflight = []   # nothing is delivered automatically
        return r

    def feed(self, data, addr=None, pad_to=None):
        """Hand a raw datagram to E (public API), run the contract loop."""
        if pad_to and len(data) < pad_to:
            data = data + bytes(pad_to - len(data))
        w = self.w
        E = self.E
        be, bs = len(E.events), len(E.sent_packets)
        d = netsim.Dgram()
        d.id, w.next_id = w.next_id, w.next_id + 1
        d.src, d.dst, d.data, d.kind = self.p_name, self.e_name, data, "bot"
        d.src_addr = addr or self.peer_addr
        d.sent = d.arrival = w.now
        d.recs = []
        w.deliver(d, src_addr=d.src_addr)
        return self._pump_result(be, bs)

    def send(self, frames, epoch="1rtt", addr=None, **kw):
        return self.feed(self.build(frames, epoch=epoch, **kw), addr=addr)

    def deliver_pending(self, i=0):
        """Deliver one of the genuine datagrams that were in flight at the cut."""
        d = self.pending.pop(i)
        E = self.E
        be, bs = len(E.events), len(E.sent_packets)
        if d.dst == self.e_name:
            self.w.deliver(d)
        return self._pump_result(be, bs)

    def advance(self, dt):
        self.w.now += dt

    def timer(self):
        """Fire E's timer at its deadline (advancing virtual time)."""
        E = self.E
        t = E.conn.get_timer()
        if t is None:
            return None
        be, bs = len(E.events), len(E.sent_packets)
        self.w.fire_timer(E, max(t, self.w.now))
        return self._pump_result(be, bs)

    def app(self, name, fn):
        E = self.E
        be, bs = len(E.events), len(E.sent_packets)
        self.w.api(E, name, lambda: fn(E.conn))
        return self._pump_result(be, bs)

    def ack(self, pns=None, epoch="1rtt", delay=0):
        """Acknowledge packets of E (default: everything outstanding in the app space)."""
        space = {"1rtt": "A", "0rtt": "A", "handshake": "H", "initial": "I"}[epoch]
        if pns is None:
            pns = sorted(r.pn for r in self.outstanding if r.epoch == space)
        if not pns:
            return None
        ranges = []
        for pn in sorted(set(pns)):
            if ranges and ranges[-1][1] == pn - 1:
                ranges[-1][1] = pn
            else:
                ranges.append([pn, pn])
        self.outstanding = [r for r in self.outstanding if not (r.epoch == space and r.pn in set(pns))]
        return self.send([{"t": "ACK", "ranges": [tuple(x) for x in ranges], "delay": delay}], epoch=epoch)

    # -------------------------------------------------------------- totality
    def drive_to_end(self, max_timers=8):
        """After an input: keep calling the timer/transmit/event API as a caller would, until
        termination is reported or max_timers firings. Exceptions propagate to the caller."""
        E = self.E
        n = 0
        while E.terminated is None and n < max_timers:
            t = E.conn.get_timer()
            if t is None:
                break
            self.timer()
            n += 1
        # API stays callable after termination as well
        E.conn.get_timer()
        E.conn.datagrams_to_send(now=self.w.now)
        E.conn.next_event()
        return n
