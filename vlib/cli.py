"""check <ID> [--tier quick|thorough] [--replay FILE]"""
import argparse
import importlib
import json
import os
import sys
import traceback


def main():
    ap = argparse.ArgumentParser()
    ap.add_argument("pid")
    ap.add_argument("--tier", default=os.environ.get("VERIF_TIER", "quick"))
    ap.add_argument("--replay")
    ap.add_argument("--part", default=None, help="run only the named part(s), comma separated")
    a = ap.parse_args()
    pid = a.pid.upper()
    tier = a.tier if a.tier in ("quick", "thorough") else "quick"
    try:
        seed = int(os.environ.get("VERIF_SEED", "0"))
    except ValueError:
        seed = 0
    os.environ.setdefault("PYTHONHASHSEED", "0")
    import logging

    logging.disable(logging.CRITICAL)  # aioquic logs peer errors through the lastResort handler

    from . import build, core

    # extensions are built from /repo's current C sources and installed before
    # anything imports aioquic; VERIF_EXT selects the flavour (asan workers).
    flavor = os.environ.get("VERIF_EXT", "plain")
    build.preload(flavor)
    mod = importlib.import_module("checks.%s" % pid.lower())
    ctx = core.Ctx(pid, tier, seed, getattr(mod, "LEVEL", "model_checking"))
    ctx.only_parts = set(a.part.split(",")) if a.part else None
    try:
        if a.replay:
            with open(a.replay) as f:
                obj = json.load(f)
            rc = mod.replay(ctx, obj)
            sys.exit(rc or 0)
        mod.run(ctx)
        rc = ctx.finish()
    except core.HarnessError as e:
        print("HARNESS-ERROR property=%s: %s" % (pid, e))
        sys.exit(2)
    except SystemExit:
        raise
    except BaseException:
        traceback.print_exc()
        print("HARNESS-ERROR property=%s: unexpected exception in harness" % pid)
        sys.exit(2)
    sys.exit(rc)


if __name__ == "__main__":
    main()
