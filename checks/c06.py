"""C06 - the sender never exceeds the peer's flow-control and stream-count limits.

World: PeerBot (real endpoint E is the sender; the harness peer grants credit) + NetSim
for 0-RTT with remembered limits.  Engine: BFS with history replay (E2).  Oracle: wire
monitor on the independently decrypted packets of E versus the limits E has received
(transport parameters of the handshake and MAX_* frames the harness delivered), plus a
drain check: once every limit is raised and packets are acknowledged, everything written
is sent (retransmissions consume no credit, blocked data is released).
"""
from vlib import core, netsim, peerbot, explore, netcheck

LEVEL = "model_checking"

CONFIGS = {
    # name: (max_stream_data, max_data, (streams bidi, uni)) granted by the peer
    "b6_d11_s1": (6, 11, (1, 1)),
    "zero": (0, 0, (0, 0)),
    "b6_d11_s0": (6, 11, (0, 0)),
    "b7_d7_s2": (7, 7, (2, 2)),
}
B = 6
BIGV = 1000


def data(sid, off, n):
    return bytes(((sid * 29 + o + 3) & 0xFF) for o in range(off, off + n))


class Ref:
    def __init__(self, cfgname, e_is_client):
        msd, md, st = CONFIGS[cfgname]
        self.msd0 = msd
        self.client = e_is_client
        self.limit = {}
        self.max_data = md
        self.max_streams = {False: st[0], True: st[1]}
        self.written = {}      # sid -> [bytes written, fin?, reset?]
        self.sent_hi = {}      # sid -> highest offset seen on the wire (incl. reset final size)
        self.covered = {}      # sid -> set of offsets seen on the wire
        self.fin_seen = set()
        self.stopped = set()
        self.peer_fin = set()
        # what the peer actually RECEIVED: the harness decides which packets are lost (never
        # acknowledged, not even late); only packets it acknowledges count as delivered
        self.pkt = {}          # pn -> [(sid, off, end, fin)] of application-space packets
        self.lost = set()      # pns the harness decided to lose
        self.delivered = {}    # sid -> set of offsets in acknowledged packets
        self.fin_delivered = set()

    def e_initiated(self, sid):
        return (sid % 2 == 0) == self.client

    def observe(self, recs):
        """check every packet E emitted; returns violation or None"""
        for r in recs:
            for f in r.frames or []:
                t = f["t"]
                if t == "STREAM":
                    sid = f["id"]
                    end = f["off"] + len(f["data"])
                    exp = data(sid, f["off"], len(f["data"]))
                    if bytes(f["data"]) != exp:
                        return ({"monitor": "wire.stream_bytes"}, "STREAM frame on %d carries wrong bytes" % sid)
                    v = self._stream_id_ok(sid, t)
                    if v:
                        return v
                    lim = self.limit.get(sid, self.msd0)
                    if end > lim:
                        return ({"monitor": "wire.stream_limit", "frame": t},
                                "STREAM frame on stream %d reaches offset %d beyond the peer's limit %d"
                                % (sid, end, lim))
                    self.sent_hi[sid] = max(self.sent_hi.get(sid, 0), end)
                    self.covered.setdefault(sid, set()).update(range(f["off"], end))
                    if f["fin"]:
                        self.fin_seen.add(sid)
                    if r.epoch == "A":
                        self.pkt.setdefault(r.pn, []).append((sid, f["off"], end, f["fin"]))
                elif t == "RESET_STREAM":
                    sid = f["id"]
                    v = self._stream_id_ok(sid, t)
                    if v:
                        return v
                    lim = self.limit.get(sid, self.msd0)
                    if f["final"] > lim:
                        return ({"monitor": "wire.stream_limit", "frame": t},
                                "RESET_STREAM final size %d on stream %d beyond the peer's limit %d"
                                % (f["final"], sid, lim))
                    self.sent_hi[sid] = max(self.sent_hi.get(sid, 0), f["final"])
                elif t in ("STOP_SENDING", "MAX_STREAM_DATA", "STREAM_DATA_BLOCKED"):
                    v = self._stream_id_ok(f["id"], t)
                    if v:
                        return v
            total = sum(self.sent_hi.values())
            if total > self.max_data:
                return ({"monitor": "wire.connection_limit"},
                        "sum of highest offsets sent %d exceeds the peer's MAX_DATA %d (per stream %r)"
                        % (total, self.max_data, dict(self.sent_hi)))
        return None

    def _stream_id_ok(self, sid, t):
        if self.e_initiated(sid):
            uni = bool(sid & 2)
            if sid // 4 >= self.max_streams[uni]:
                return ({"monitor": "wire.stream_count", "frame": t},
                        "%s frame names stream %d but the peer allows %d %s streams"
                        % (t, sid, self.max_streams[uni], "uni" if uni else "bidi"))
        return None

    def lose(self, pns):
        self.lost.update(pns)

    def deliver(self, pns):
        for pn in pns:
            for sid, off, end, fin in self.pkt.get(pn, ()):
                self.delivered.setdefault(sid, set()).update(range(off, end))
                if fin:
                    self.fin_delivered.add(sid)

    def key(self):
        return (tuple(sorted(self.limit.items())), self.max_data, tuple(sorted(self.max_streams.items())),
                tuple(sorted((k, tuple(v)) for k, v in self.written.items())),
                tuple(sorted(self.sent_hi.items())), tuple(sorted(self.fin_seen)), tuple(sorted(self.stopped)),
                tuple(sorted((sid, tuple(map(tuple, _ranges(v)))) for sid, v in self.delivered.items())),
                tuple(sorted(self.fin_delivered)), tuple(sorted(self.lost)), tuple(sorted(self.peer_fin)))


def alphabet(role):
    if role == "client":
        b0, b1, u0 = 0, 4, 2
    else:
        b0, b1, u0 = 1, 5, 3
    mv = []
    for sid in (b0, b1, u0):
        mv.append(("W", sid, B, False))
        mv.append(("W", sid, 1, True))
    mv.append(("W", b0, 2 * B, False))      # a burst that ends exactly at the limit, more behind it
    mv.append(("RESET", b0))
    # the ACK that declares everything but a PTO probe lost arrives in the SAME packet as new credit,
    # so the retransmission of a lost tail merges with never-sent data behind it
    mv.append(("PTOLOSS_MD", "+6"))
    mv.append(("PTOLOSS_MD", "big"))
    mv.append(("PTOLOSS_MSD", b0, "+6"))
    for v in ("eq", "+1", "big"):
        mv.append(("MAX_DATA", v))
    for sid in (b0, u0):
        for v in ("+1", "big"):
            mv.append(("MAX_STREAM_DATA", sid, v))
    for uni in (False, True):
        for v in ("+1", "big"):
            mv.append(("MAX_STREAMS", uni, v))
    mv += [("ACKALL",), ("LOSE_OLDER",), ("TIMER",), ("STOP", b0)]
    # the peer ends ITS direction of the first bidirectional stream (a response without a body): once both directions
    # are finished and acknowledged the endpoint forgets the stream - the credit it consumed stays consumed
    mv.append(("PEERFIN", b0))
    return mv


def make_bot(role, cfgname):
    msd, md, st = CONFIGS[cfgname]
    side = "s" if role == "client" else "c"      # the PEER's advertised limits
    cfg = {side + "_max_data": md, side + "_max_stream_data": msd, side + "_max_streams": st}
    return peerbot.PeerBot(role, cfg=cfg)


def ack_live(bot, ref):
    """Acknowledge every outstanding application-space packet the harness has not decided to lose."""
    pns = sorted(x.pn for x in bot.outstanding if x.epoch == "A" and x.pn not in ref.lost)
    if not pns:
        return None
    ref.deliver(pns)
    return bot.ack(pns)


def step(bot, ref, mv):
    k = mv[0]
    r = None
    if k == "W":
        _, sid, n, fin = mv
        if sid in ref.stopped:
            return None, "noop"       # the application was told (StopSendingReceived); writing is misuse
        w = ref.written.setdefault(sid, [0, False, False])
        if w[1] or w[2]:
            return None, "noop"
        off = w[0]
        r = bot.app("send_stream_data", lambda c: c.send_stream_data(sid, data(sid, off, n), end_stream=fin))
        w[0] += n
        w[1] = fin
    elif k == "RESET":
        sid = mv[1]
        w = ref.written.get(sid)
        if w is None or w[2]:
            return None, "noop"
        r = bot.app("reset_stream", lambda c: c.reset_stream(sid, 5))
        w[2] = True
    elif k == "MAX_DATA":
        cur = ref.max_data
        v = {"eq": cur, "+1": cur + 1, "big": BIGV}[mv[1]]
        r = bot.send([{"t": "MAX_DATA", "max": v}])
        ref.max_data = max(cur, v)
    elif k == "MAX_STREAM_DATA":
        sid = mv[1]
        if ref.e_initiated(sid) and sid not in ref.written:
            return None, "noop"       # peer may not name a stream the sender has not opened
        cur = ref.limit.get(sid, ref.msd0)
        v = {"+1": cur + 1, "big": BIGV}[mv[2]]
        r = bot.send([{"t": "MAX_STREAM_DATA", "id": sid, "max": v}])
        ref.limit[sid] = max(cur, v)
    elif k == "MAX_STREAMS":
        uni = mv[1]
        cur = ref.max_streams[uni]
        v = {"+1": cur + 1, "big": 50}[mv[2]]
        r = bot.send([{"t": "MAX_STREAMS", "uni": uni, "max": v}])
        ref.max_streams[uni] = max(cur, v)
    elif k == "ACKALL":
        r = ack_live(bot, ref)
    elif k == "LOSE_OLDER":
        pns = sorted(x.pn for x in bot.outstanding if x.epoch == "A" and x.pn not in ref.lost)
        if len(pns) < 2:
            return None, "noop"
        bot.advance(1.0)
        ref.lose(pns[:-1])
        ref.deliver(pns[-1:])
        r = bot.ack([pns[-1]])
    elif k in ("PTOLOSS_MD", "PTOLOSS_MSD"):
        t = bot.E.conn.get_timer()
        if t is None or t == bot.E.conn._close_at or not bot.outstanding:
            return None, "noop"
        r0 = bot.timer()                       # PTO: a probe packet leaves
        v0 = ref.observe(r0.sent) if r0 is not None else None
        if v0:
            return v0, "bad"
        pns = sorted(x.pn for x in bot.outstanding if x.epoch == "A" and x.pn not in ref.lost)
        if len(pns) < 2:
            return None, "noop"
        bot.advance(1.0)
        ref.lose(pns[:-1])
        ref.deliver(pns[-1:])
        frames = [{"t": "ACK", "ranges": [(pns[-1], pns[-1])], "delay": 0}]
        bot.outstanding = [x for x in bot.outstanding if not (x.epoch == "A" and x.pn == pns[-1])]
        if k == "PTOLOSS_MD":
            cur = ref.max_data
            val = {"+6": cur + 6, "big": BIGV}[mv[1]]
            frames.append({"t": "MAX_DATA", "max": val})
            ref.max_data = max(cur, val)
        else:
            sid = mv[1]
            if ref.e_initiated(sid) and sid not in ref.written:
                return None, "noop"
            cur = ref.limit.get(sid, ref.msd0)
            val = cur + 6
            frames.append({"t": "MAX_STREAM_DATA", "id": sid, "max": val})
            ref.limit[sid] = val
        r = bot.send(frames)
    elif k == "TIMER":
        t = bot.E.conn.get_timer()
        if t is None or t == bot.E.conn._close_at:
            return None, "noop"       # only the idle timer is armed
        r = bot.timer()
    elif k == "STOP":
        sid = mv[1]
        if sid not in ref.written:
            return None, "noop"
        r = bot.send([{"t": "STOP_SENDING", "id": sid, "err": 1}])
        ref.stopped.add(sid)
    elif k == "PEERFIN":
        sid = mv[1]
        if sid not in ref.written or sid in ref.peer_fin:
            return None, "noop"       # the peer may not name a stream the sender has not opened
        r = bot.send([{"t": "STREAM", "id": sid, "off": 0, "data": b"", "fin": True}])
        ref.peer_fin.add(sid)
    if r is None:
        return None, "none"
    v = ref.observe(r.sent)
    if v:
        return v, "bad"
    if bot.E.conn._state.name != "CONNECTED":
        ev = bot.E.conn._close_event
        return ({"monitor": "closed", "code": getattr(ev, "error_code", None)},
                "sender closed the connection on %r: %r" % (mv, ev)), "closed"
    n_stream = sum(1 for x in r.sent for f in (x.frames or []) if f["t"] == "STREAM")
    return None, (k, n_stream)


def drain(bot, ref):
    """raise every limit to EXACTLY what the written data needs (so that credit wasted on
    retransmissions shows up as starvation), acknowledge, fire timers: everything written
    must get on the wire"""
    need_data = sum(max(w[0], ref.sent_hi.get(sid, 0)) for sid, w in ref.written.items())
    need_data = max(need_data, sum(ref.sent_hi.values()))
    ref.max_data = max(ref.max_data, need_data)
    frames = [{"t": "MAX_DATA", "max": ref.max_data}]
    for uni in (False, True):
        ids = [sid for sid in ref.written if ref.e_initiated(sid) and bool(sid & 2) == uni]
        if ids:
            ref.max_streams[uni] = max(ref.max_streams[uni], max(ids) // 4 + 1)
        frames.append({"t": "MAX_STREAMS", "uni": uni, "max": ref.max_streams[uni]})
    r = bot.send(frames)
    v = ref.observe(r.sent)
    if v:
        return v
    fr = []
    for sid, w in ref.written.items():
        ref.limit[sid] = max(ref.limit.get(sid, ref.msd0), w[0])
        fr.append({"t": "MAX_STREAM_DATA", "id": sid, "max": ref.limit[sid]})
    if fr:
        r = bot.send(fr)
        v = ref.observe(r.sent)
        if v:
            return v
    for _ in range(12):
        r = ack_live(bot, ref)
        if r is not None:
            v = ref.observe(r.sent)
            if v:
                return v
        t = bot.E.conn.get_timer()
        r = bot.timer() if (t is not None and t != bot.E.conn._close_at) else None
        if r is not None:
            v = ref.observe(r.sent)
            if v:
                return v
        if all(_complete(ref, sid) for sid in ref.written):
            break
    missing = [sid for sid in ref.written if not _complete(ref, sid)]
    if missing:
        sid = missing[0]
        w = ref.written[sid]
        return ({"monitor": "drain.starved"},
                "after all limits were raised and every packet not lost was acknowledged, stream %d: written %d fin=%r "
                "but the peer received offsets %r fin=%r (put on the wire at some point: %r fin=%r; packets lost: %r)"
                % (sid, w[0], w[1], _ranges(ref.delivered.get(sid, set())), sid in ref.fin_delivered,
                   _ranges(ref.covered.get(sid, set())), sid in ref.fin_seen, sorted(ref.lost)))
    return None


def _complete(ref, sid):
    n, fin, reset = ref.written[sid]
    if reset or sid in ref.stopped:
        return True
    cov = ref.delivered.get(sid, set())
    return all(o in cov for o in range(n)) and (not fin or sid in ref.fin_delivered)


def _ranges(s):
    out = []
    for v in sorted(s):
        if out and out[-1][1] == v - 1:
            out[-1][1] = v
        else:
            out.append([v, v])
    return out


def rebuild(role, cfgname, hist):
    bot = make_bot(role, cfgname)
    ref = Ref(cfgname, role == "client")
    for mv in hist:
        v, _ = step(bot, ref, tuple(mv))
        if v is not None:
            raise core.HarnessError("history %r no longer replays cleanly: %r" % (hist, v))
    return bot, ref


def e_key(bot):
    conn = bot.E.conn
    st = []
    for sid, s in sorted(conn._streams.items()):
        sn = s.sender
        st.append((sid, sn._buffer_start, sn._buffer_stop, sn._buffer_fin,
                   tuple((r.start, r.stop) for r in sn._pending), sn._pending_eof, sn.highest_offset,
                   sn._reset_error_code, sn.reset_pending, s.max_stream_data_remote, s.is_blocked, sn.is_finished))
    return (tuple(st), conn._remote_max_data, conn._remote_max_data_used, conn._remote_max_streams_bidi,
            conn._remote_max_streams_uni, tuple(sorted(conn._streams_finished)),
            tuple(sorted((r.pn, tuple(f["t"] for f in r.frames)) for r in bot.outstanding)))


def expand_one(args):
    role, cfgname, hist, mv, do_drain = args
    bot, ref = rebuild(role, cfgname, hist)
    try:
        if mv is None:
            v = drain(bot, ref)
            return None, v, "drain"
        v, outcome = step(bot, ref, mv)
    except core.HarnessError:
        raise
    except Exception as e:  # noqa
        import traceback

        tb = [fr for fr in traceback.extract_tb(e.__traceback__) if "/aioquic/" in fr.filename]
        if not tb:
            raise
        return None, ({"monitor": "api_exception", "exc": type(e).__name__,
                       "where": "%s:%s" % (tb[-1].filename.split("/aioquic/")[-1], tb[-1].name)},
                      "%s: %s on %r" % (type(e).__name__, e, mv)), "exc"
    if v is not None:
        return None, v, outcome
    if outcome == "noop":
        return None, None, outcome
    return (ref.key(), e_key(bot)), None, outcome


def run_bfs(ctx, role, cfgname, depth, name, root=None):
    """root: a history to start from instead of the fresh connection (states that only a longer exchange reaches)"""
    alpha = alphabet(role)
    seen = {("init",)}
    frontier = [list(root or [])]
    states, transitions, outcomes, viols, samples, maxd = 1, 0, set(), [], [], 0
    for d in range(depth):
        tasks = [(role, cfgname, h, mv, False) for h in frontier for mv in alpha]
        tasks += [(role, cfgname, h, None, True) for h in frontier if h and h != list(root or [])]   # drain check per state
        results = core.pmap(expand_one, tasks, chunksize=4)
        nxt = []
        for (_, _, h, mv, _), (k, v, outcome) in zip(tasks, results):
            transitions += 1
            outcomes.add(outcome)
            if v is not None:
                viols.append((v[0], v[1], h + [mv if mv is not None else ("DRAIN",)]))
            elif k is not None and k not in seen:
                seen.add(k)
                nxt.append(h + [mv])
                if len(samples) < 2 and len(h) >= 2:
                    samples.append(h + [mv])
        if nxt:
            maxd = d + 1
        states += len(nxt)
        frontier = nxt
        if not frontier:
            break
    # drain on the last level too
    if frontier:
        tasks = [(role, cfgname, h, None, True) for h in frontier]
        for (_, _, h, _, _), (k, v, outcome) in zip(tasks, core.pmap(expand_one, tasks, chunksize=4)):
            transitions += 1
            if v is not None:
                viols.append((v[0], v[1], h + [("DRAIN",)]))
    ctx.part(name, states=states, transitions=transitions, max_depth=maxd, evaluations=transitions,
             distinct_nontrivial=len(outcomes), alphabet=len(alpha), closure=not frontier)
    if len(outcomes) < 5:
        raise core.HarnessError("%s: vacuous (%d outcomes)" % (name, len(outcomes)))
    for h in samples:
        ctx.sample({"part": name, "history": h})
    seen_sig = set()
    for sig, what, hist in sorted(viols, key=lambda x: len(x[2])):
        sig = dict(sig, role=role)
        k = core.stable_hash(sig)
        if k in seen_sig:
            continue
        seen_sig.add(k)
        ctx.violation(sig, what + " after history %r" % (hist[:-1],),
                      {"role": role, "cfg": cfgname, "history": hist})


# ----------------------------------------------------------------- 0-RTT scenario
class ZeroRttMonitor(netsim.Monitor):
    """0-RTT data must stay within the limits remembered from the ticket; after the handshake the
    limits of the new transport parameters apply (they may only be >= the remembered ones)."""

    def __init__(self, remembered, fresh):
        self.rem, self.fresh = remembered, fresh

    def attach(self, w):
        self.hi = {}

    def after_pump(self, w, ep, cause, sent, new_events, timer):
        if ep.name != "c":
            return
        msd, md = (self.fresh if ep.hs_done else self.rem)
        for d, addr in sent:
            for r in d.recs:
                for f in r.frames or []:
                    if f["t"] == "STREAM":
                        end = f["off"] + len(f["data"])
                        self.hi[f["id"]] = max(self.hi.get(f["id"], 0), end)
                        lim = max(msd, self.adv_stream.get(f["id"], 0)) if hasattr(self, "adv_stream") else msd
                        if end > lim and not self._raised(w, f["id"], end):
                            raise netsim.Violation({"monitor": "wire.stream_limit", "zero_rtt": r.type == "0rtt"},
                                                   "%s STREAM frame to offset %d beyond limit %d" % (r.type, end, lim))
            if sum(self.hi.values()) > md and not self._raised_conn(w, sum(self.hi.values())):
                raise netsim.Violation({"monitor": "wire.connection_limit"},
                                       "client sent %d > MAX_DATA %d" % (sum(self.hi.values()), md))

    def _raised(self, w, sid, end):
        for r in w.ep["s"].sent_packets:
            for f in r.frames or []:
                if f["t"] == "MAX_STREAM_DATA" and f["id"] == sid and f["max"] >= end:
                    return True
        return False

    def _raised_conn(self, w, total):
        for r in w.ep["s"].sent_packets:
            for f in r.frames or []:
                if f["t"] == "MAX_DATA" and f["max"] >= total:
                    return True
        return False


_STORE = {}


def zr_factory(sc):
    l1, l2 = sc["l1"], sc["l2"]
    key = (l1, sc.get("v", 1))
    # connection 1 (in-process, deterministic default schedule) obtains a ticket under limits L1
    store = {"client": [], "server": {}}
    w1 = netsim.NetSim({"s_max_stream_data": l1[0], "s_max_data": l1[1], "tickets": store, "alpn": ["verif"]},
                       {"c": [{"op": "ping", "uid": 1}]}, explore.Chooser([]))
    w1.run(lambda w: 1 in w.ep["c"].pings_acked and store["client"])
    if not store["client"]:
        raise core.HarnessError("no session ticket obtained")
    cfg = {"s_max_stream_data": l2[0], "s_max_data": l2[1], "tickets": store, "alpn": ["verif"]}
    g0 = "now"
    if sc.get("front"):
        # the server's front end answers the first flight with a Retry / Version Negotiation packet: the
        # client starts over, but what it already charged against the remembered limits stays charged
        cfg[sc["front"]] = True
        g0 = "pre"
    script = {"c": [{"op": "w", "sid": 0, "n": sc["n"], "fin": True, "g": g0},
                    {"op": "w", "sid": 4, "n": sc["n"], "fin": True, "g": "now"}]}

    def goal(w):
        return all(len(w.ep["s"].rx.get(s, b"")) == sc["n"] for s in (0, 4))
    return cfg, script, [ZeroRttMonitor(l1, l2)], {"max_steps": 300, "horizon": 60.0,
                                                  "deviations": ("drop", "delay", "dup", "hold")}, goal


netcheck.register("c06zr", zr_factory)


def run(ctx):
    quick = ctx.tier == "quick"
    if quick:
        run_bfs(ctx, "client", "b6_d11_s1", 3, "client_b6_d3")
        run_bfs(ctx, "client", "b6_d11_s0", 3, "client_b6s0_d3")
        run_bfs(ctx, "server", "b7_d7_s2", 2, "server_b7_d2")
        run_bfs(ctx, "client", "b7_d7_s2", 2, "client_b7_after_exchange_d2", root=EXCHANGE["client"])
    else:
        run_bfs(ctx, "client", "b7_d7_s2", 3, "client_b7_after_exchange_d3", root=EXCHANGE["client"])
        run_bfs(ctx, "server", "b7_d7_s2", 3, "server_b7_after_exchange_d3", root=EXCHANGE["server"])
        run_bfs(ctx, "client", "b6_d11_s1", 4, "client_b6_d4")
        run_bfs(ctx, "client", "zero", 3, "client_zero_d3")
        run_bfs(ctx, "client", "b6_d11_s0", 4, "client_b6s0_d4")
        run_bfs(ctx, "client", "b7_d7_s2", 3, "client_b7_d3")
        run_bfs(ctx, "server", "b6_d11_s1", 3, "server_b6_d3")
        run_bfs(ctx, "server", "b7_d7_s2", 3, "server_b7_d3")
    zr = {}
    for l1 in ((40, 60), (100, 100)):
        for l2 in (l1, (l1[0] + 20, l1[1] + 20)):
            for n in (l1[0], l1[0] + 1, 2 * l1[0]):
                zr["zr|%s|%s|n%d" % (l1, l2, n)] = {"l1": l1, "l2": l2, "n": n}
    for front in ("retry", "vn"):
        for l1, l2 in (((40, 60), (40, 60)), ((40, 60), (60, 80))):
            for n in (40, 80):
                zr["zr|%s|%s|n%d|%s" % (l1, l2, n, front)] = {"l1": l1, "l2": l2, "n": n, "front": front}
    netcheck.explore_scenarios(ctx, "c06zr", zr, 1 if quick else 2, "zero_rtt_remembered_limits")
    ctx.cov["rule"] = (
        "BFS with history replay: application writes/FIN/reset on 3 streams of a real sending endpoint whose "
        "peer granted (stream, connection, stream-count) limits (6,11,1), (0,0,0) or (7,7,2), interleaved with "
        "every schedule of MAX_DATA / MAX_STREAM_DATA / MAX_STREAMS (equal, +1, large), ack-all, "
        "time-threshold loss of all but the newest packet, PTO, STOP_SENDING; every packet the endpoint emits "
        "is decrypted independently and checked against the limits it has received; each state is also "
        "drained (all limits raised, acks, timers) and must then have put every written byte and FIN on the "
        "wire; plus 0-RTT resumption with remembered limits at and beyond the boundary under d deviations")
    ctx.cov["exhaustive"] = not ctx.caps_hit
    ctx.assumptions += ["the peer's limits are granted through real transport parameters of a throw-away "
                        "peer connection and MAX_* frames sealed by the harness; all of them are delivered"]


# a completed one-byte request with an empty response on the first bidirectional stream, everything acknowledged
EXCHANGE = {"client": [("W", 0, 1, True), ("ACKALL",), ("PEERFIN", 0), ("ACKALL",)],
            "server": [("W", 1, 1, True), ("ACKALL",), ("PEERFIN", 1), ("ACKALL",)]}


def replay(ctx, obj):
    rp = obj["replay"]
    if rp.get("engine") == "netsim":
        v = netcheck.replay("c06zr", obj)
        if v:
            print("VIOLATION property=C06 replay=(replayed): %s" % v[1])
            return 1
        return 0
    bot = make_bot(rp["role"], rp["cfg"])
    ref = Ref(rp["cfg"], rp["role"] == "client")
    for mv in [tuple(m) for m in rp["history"]]:
        if mv[0] == "DRAIN":
            v = drain(bot, ref)
            outcome = "drain"
        else:
            v, outcome = step(bot, ref, mv)
        print("  ", mv, "->", outcome)
        if v:
            print("VIOLATION property=C06 replay=(replayed): %s" % v[1])
            return 1
    print("no violation on replay")
    return 0
