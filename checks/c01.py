"""C01 - reliable, ordered, exactly-once stream delivery over any lossy network.

World: NetSim (two real QuicConnections, adversarial network, virtual time).
Engine: stateless deviation-bounded DFS (E1).  Oracle: per stream and direction
the delivered bytes are a prefix of the written pattern, end-of-stream at most
once and only after everything; no ConnectionTerminated; after the fair phase
everything written (bytes, FIN, pings) has been delivered.
"""
from vlib import core, netcheck, netsim

LEVEL = "model_checking"
V1, V2 = netsim.V1, netsim.V2

# 1-RTT packet budget at max_datagram_size 1200 with 8-byte CIDs: a STREAM frame on
# stream 0 at offset 0 carries at most FILL bytes (1200 - 11 header - 16 tag - 4 frame hdr)
FILL = 1169


class DeliveryMonitor(netsim.Monitor):
    def __init__(self, allow_close=False):
        self.allow_close = allow_close

    def after_pump(self, w, ep, cause, sent, new_events, timer):
        if not self.allow_close:
            for d, addr in sent:
                for r in d.recs:
                    for f in r.frames or []:
                        if f["t"] == "CONNECTION_CLOSE":
                            raise netsim.Violation(
                                {"monitor": "closed", "error_code": f["err"],
                                 "reason": f["reason"].decode("utf8", "replace")},
                                "%s sent CONNECTION_CLOSE (code 0x%x, frame %r, reason %r) under a benign network"
                                % (ep.name, f["err"], f.get("ftype"), f["reason"]),
                            )
            if ep.conn._state.name in ("CLOSING", "DRAINING") and ep.terminated is None:
                ev = ep.conn._close_event
                raise netsim.Violation(
                    {"monitor": "closed", "error_code": getattr(ev, "error_code", None),
                     "reason": getattr(ev, "reason_phrase", None)},
                    "%s is closing (%r) under a benign network" % (ep.name, ev))
        if not new_events:
            return
        peer = w.ep["s" if ep.name == "c" else "c"]
        written = w.written(peer.name)
        for sid, got in ep.rx.items():
            wr = written.get(sid, [0, False, False])
            exp = netsim.pattern(sid, 0, wr[0])
            if len(got) > wr[0] or bytes(got) != exp[: len(got)]:
                raise netsim.Violation(
                    {"monitor": "delivery.not_a_prefix"},
                    "%s received on stream %d %d bytes that are not a prefix of the %d bytes written"
                    % (ep.name, sid, len(got), wr[0]),
                )
            if len(ep.rx_reset.get(sid, ())) > 1:
                raise netsim.Violation(
                    {"monitor": "delivery.reset_twice"},
                    "%s got StreamReset %d times on stream %d" % (ep.name, len(ep.rx_reset[sid]), sid),
                )
            nfin = ep.rx_fin.get(sid, 0)
            if nfin > 1:
                raise netsim.Violation(
                    {"monitor": "delivery.end_stream_twice"},
                    "%s got end_stream %d times on stream %d" % (ep.name, nfin, sid),
                )
            if nfin == 1 and not (wr[2] or sid in peer.stop_rx) and not (
                wr[1] and len(got) == self._final(peer, sid)
            ):
                raise netsim.Violation(
                    {"monitor": "delivery.early_end_stream"},
                    "%s got end_stream on stream %d after %d bytes; written %d fin=%r"
                    % (ep.name, sid, len(got), wr[0], wr[1]),
                )
        for sid, codes in ep.rx_reset.items():
            if len(codes) > 1:
                raise netsim.Violation(
                    {"monitor": "delivery.reset_twice"},
                    "%s got StreamReset %d times on stream %d" % (ep.name, len(codes), sid))
        if ep.terminated is not None and not self.allow_close:
            ev = ep.terminated
            raise netsim.Violation(
                {"monitor": "closed", "error_code": ev.error_code, "reason": ev.reason_phrase},
                "%s: connection terminated (code 0x%x, frame %r, reason %r) under a benign network"
                % (ep.name, ev.error_code, ev.frame_type, ev.reason_phrase),
            )

    def _final(self, peer, sid):
        """total length of the stream as scripted up to and including the FIN write"""
        n = 0
        for o in peer.ops[: peer.op_i]:
            if o["op"] == "w" and o["sid"] == sid:
                n += o["n"]
        return n

    def missing(self, w):
        out = []
        for src, dst in (("c", "s"), ("s", "c")):
            sender, rcv = w.ep[src], w.ep[dst]
            if sender.op_i < len(sender.ops):
                out.append("%s script stuck at op %d %r" % (src, sender.op_i, sender.ops[sender.op_i]))
            for sid, (n, fin, reset) in w.written(src).items():
                if reset or sid in sender.stop_rx:
                    continue
                got = len(rcv.rx.get(sid, b""))
                if got < n:
                    out.append("%s->%s stream %d: %d of %d bytes" % (src, dst, sid, got, n))
                if fin and not rcv.rx_fin.get(sid):
                    out.append("%s->%s stream %d: FIN" % (src, dst, sid))
            for o in sender.ops[: sender.op_i]:
                if o["op"] == "ping" and o["uid"] not in sender.pings_acked:
                    out.append("%s ping %d not acknowledged" % (src, o["uid"]))
        return out

    def at_end(self, w, outcome):
        if outcome == "done":
            return
        miss = self.missing(w)
        if not miss:
            return  # everything was delivered; not reaching quiescence is not C01's claim
        kinds = sorted(set(m.split(":")[-1].strip().split(" ")[0] if ":" in m else m.split(" ")[1] for m in miss))
        cc, sc = w.ep["c"].conn, w.ep["s"].conn
        raise netsim.Violation(
            {"monitor": "liveness", "missing": kinds if miss else ["quiescence"],
             # structural class of the stuck state (attribute reads, for the signature only)
             "client_rebound": w.client_addr != netsim.C_ADDR,
             "client_handshake_confirmed": bool(cc is not None and cc._handshake_confirmed),
             "server_handshake_complete": bool(sc is not None and w.ep["s"].hs_done),
             # from the wire: the key phase bits of the two endpoints' latest 1-RTT packets differ - one of
             # them updated its keys and the other has not followed (yet)
             "key_phase_mismatch": _last_phase(w, "c") != _last_phase(w, "s")},
            "fair phase ended (%s at t=%.3fs, %d steps) without delivering: %s"
            % (outcome, w.now - w.t0, w.nsteps, "; ".join(miss) or "nothing missing but never quiescent"),
        )


def _last_phase(w, name):
    for r in reversed(w.ep[name].sent_packets):
        if r.type == "1rtt" and r.opened and r.key_phase is not None:
            return r.key_phase
    return 0


def goal(w):
    return not _MON.missing(w)


_MON = DeliveryMonitor()


def W(sid, n, fin=False, g="hs"):
    return {"op": "w", "sid": sid, "n": n, "fin": fin, "g": g}


SCRIPTS = {
    # --- two streams, the first fills the packet exactly, the second has only a FIN
    "fill_then_finonly": {"c": [W(0, 3 * FILL), W(4, 0, True), W(0, 0, True)]},
    "fill_then_finonly_rev": {"c": [W(4, 3 * FILL), W(0, 0, True), W(4, 0, True)]},
    "two_streams_small_fin": {"c": [W(0, 10, True), W(4, 10, True)], "s": [W(1, 5, True), W(3, 7, True)]},
    "exact_fill": {"c": [W(0, FILL, True)]},
    "fill_minus1": {"c": [W(0, FILL - 1), W(0, 1, True)]},
    "fill_plus1": {"c": [W(0, FILL + 1, True)]},
    "hello_fin_sep": {"c": [W(0, 5), W(0, 0, True)]},
    "echo": {"c": [W(0, 700, True)], "s": [W(0, 700, True, g=("rxfin", 0))]},
    "bidir_bulk": {"c": [W(0, 4000, True)], "s": [W(1, 4000, True)]},
    "uni_both": {"c": [W(2, 1500, True)], "s": [W(3, 1500, True)]},
    "key_update_mid": {"c": [W(0, 1500), {"op": "ku"}, W(0, 1500, True)], "s": [W(1, 300), {"op": "ku", "g": ("rx", 0, 1500)}, W(1, 300, True)]},
    # three key updates, client / client / server, a round trip apart: a packet of an OLDER key phase that
    # arrives late (duplicate, delay) falls between them and must leave no trace
    # (an endpoint may only initiate an update after a packet of the current phase was acknowledged,
    # RFC 9001 6.1 - the caller's duty with aioquic - hence the extra exchange before the server's update)
    "key_update_thrice": {"c": [W(0, 600), {"op": "ku", "g": ("rx", 1, 300)}, W(0, 600, g=("rx", 1, 300)),
                                {"op": "ku", "g": ("rx", 1, 600)}, W(0, 300, g=("rx", 1, 600)),
                                W(0, 300, True, g=("rx", 1, 900))],
                          "s": [W(1, 300, g=("rx", 0, 600)), W(1, 300, g=("rx", 0, 1200)),
                                W(1, 300, g=("rx", 0, 1500)),
                                {"op": "ku", "g": ("rx", 0, 1800)}, W(1, 300, True, g=("rx", 0, 1800))]},
    # the same, spread over seconds: a datagram delayed past the PTO (or a late copy) lands in the quiet interval
    # between two updates, when the keys of the phase before are long gone
    "key_update_spaced": {"c": [W(0, 600), {"op": "ku", "g": ("rx", 1, 300)}, W(0, 600, g=("rx", 1, 300)),
                                {"op": "ku", "g": ("t", 2.0)}, W(0, 300, g=("t", 2.0)),
                                W(0, 300, g=("rx", 1, 900)), W(0, 0, True, g=("rx", 1, 1200))],
                          "s": [W(1, 300, g=("rx", 0, 600)), W(1, 300, g=("rx", 0, 1200)),
                                W(1, 300, g=("rx", 0, 1500)),
                                {"op": "ku", "g": ("rx", 0, 1800)}, W(1, 300, True, g=("rx", 0, 1800))]},
    "reset_racing": {"c": [W(0, 2500), {"op": "reset", "sid": 0}, W(4, 100, True)]},
    "stop_sending": {"c": [W(0, 2500)], "s": [{"op": "stop", "sid": 0, "g": ("rx", 0, 1)}, W(1, 50, True)]},
    "cid_change_mid": {"c": [W(0, 1500), {"op": "cid"}, W(0, 1500, True)], "s": [{"op": "cid", "g": ("rx", 0, 1)}, W(0, 800, True)]},
    "ping_and_data": {"c": [{"op": "ping", "uid": 1}, W(0, 100, True), {"op": "ping", "uid": 2}]},
    "over_cwnd": {"c": [W(0, 16000, True)]},
    "early_write": {"c": [W(0, 1000, True, g="now")]},
    "three_streams_fill": {"c": [W(0, FILL), W(4, FILL), W(8, 0, True), W(0, 0, True), W(4, 0, True)]},
    "small_many": {"c": [W(0, 1), W(0, 1), W(0, 1, True)], "s": [W(1, 1), W(1, 1, True)]},
    "echo_then_reset": {"c": [W(0, 300), {"op": "reset", "sid": 0, "g": ("rx", 0, 1)}, W(4, 50, True)],
                        "s": [W(0, 300, g=("rx", 0, 1)), W(1, 20, True)]},
    "fin_sep_later": {"c": [W(0, 700), W(0, 0, True, g=("t", 0.027))]},
    "fin_sep_later_srv": {"c": [W(0, 10, True)], "s": [W(0, 900, g=("rxfin", 0)), W(0, 0, True, g=("t", 0.045))]},
    "request_response_x2": {"c": [W(0, 300, True), W(4, 300, True, g=("rxfin", 0))],
                            "s": [W(0, 900, True, g=("rxfin", 0)), W(4, 900, True, g=("rxfin", 4))]},
    "fin_after_rx": {"c": [W(0, 100)], "s": [W(0, 100, True, g=("rx", 0, 100))]},
}

CONFIGS = {
    "reno_v1": {"cc": "reno", "version": V1, "order": 1},
    "cubic_v2": {"cc": "cubic", "version": V2, "order": -1},
    "reno_v2": {"cc": "reno", "version": V2, "order": -1},
    "cubic_v1": {"cc": "cubic", "version": V1, "order": 1},
    # compatible version negotiation v1 -> v2 (thorough tier only)
    "reno_compat": {"cc": "reno", "version": V1, "order": 1, "c_supported": [V2, V1], "s_supported": [V2, V1]},
}


def factory(scenario):
    script = SCRIPTS[scenario["script"]] if "script" in scenario else scenario["ops"]
    cfg = CONFIGS[scenario["cfg"]] if isinstance(scenario.get("cfg"), str) else scenario.get("cfg", {})
    if cfg.get("tickets") == "obtain":
        # resumption: a first connection (default schedule) provides the session ticket; the connection
        # under test resumes it and issues its "pre" writes as early data before the first transmit
        cfg = dict(cfg)
        cfg["tickets"] = netsim.obtain_tickets({k: v for k, v in cfg.items() if k in ("version", "chain", "retry")})
    return cfg, script, [_MON], {"max_steps": scenario.get("max_steps", 400),
                                 "deviations": tuple(scenario.get("dev", ("drop", "dup", "dupmid", "delay",
                                                                          "rebind", "late", "hold")))}, goal


netcheck.register("c01", factory)


def sig_extra(sig, sid, devs):
    s = dict(sig)
    s["script"] = sid.split("/")[0]
    s["deviation_kinds"] = sorted(set(d[1] for d in devs))
    return s


def closure_scripts(depth):
    """all scripts of <= depth operations over a reduced alphabet"""
    alpha = []
    for sid in (0, 4):
        for n in (1, FILL, 2 * FILL + 7):
            alpha.append(W(sid, n))
            alpha.append(W(sid, n, True))
        alpha.append(W(sid, 0, True))
        alpha.append({"op": "reset", "sid": sid})
    alpha.append({"op": "ping", "uid": 1})
    alpha.append({"op": "ku"})
    alpha.append({"op": "cid"})
    out = {}

    def legal(seq):
        fin = set()
        for o in seq:
            sid = o.get("sid")
            if o["op"] in ("w", "reset") and sid in fin:
                return False
            if (o["op"] == "w" and o.get("fin")) or o["op"] == "reset":
                fin.add(sid)
        return True

    def rec(seq):
        if seq and legal(seq):
            out["cl:" + ",".join(_opname(o) for o in seq)] = {"ops": {"c": [dict(o) for o in seq]}, "cfg": {}}
        if len(seq) < depth:
            for o in alpha:
                if legal(seq + [o]):
                    rec(seq + [o])

    rec([])
    return out


def _opname(o):
    if o["op"] == "w":
        return "w%d:%d%s" % (o["sid"], o["n"], "F" if o.get("fin") else "")
    return o["op"] + str(o.get("sid", ""))


def run(ctx):
    quick = ctx.tier == "quick"
    cfgs = ["reno_v1", "cubic_v2"] if quick else list(CONFIGS)
    scen = {}
    for s in SCRIPTS:
        for c in cfgs:
            scen["%s/%s" % (s, c)] = {"script": s, "cfg": c}
    if quick:
        for s in ("echo", "hello_fin_sep"):
            scen["%s/reno_compat" % s] = {"script": s, "cfg": "reno_compat"}
    # d <= 1 on everything
    agg = netcheck.explore_scenarios(ctx, "c01", scen, 1, "sharp_scripts_d1", sig_extra=sig_extra)
    # d <= 2: quick rotates a seed-selected third of the scripts, thorough takes all
    names = [n for n in sorted(SCRIPTS) if n != "over_cwnd"]
    if quick:
        groups = 6
        k = ctx.seed % groups
        pick = [n for i, n in enumerate(names) if i % groups == k]
        sc2 = {"%s/%s" % (s, "reno_v1"): {"script": s, "cfg": "reno_v1"} for s in pick}
    else:
        sc2 = {k: v for k, v in scen.items() if v["cfg"] != "reno_compat"}
    agg2 = netcheck.explore_scenarios(ctx, "c01", sc2, 2, "sharp_scripts_d2", sig_extra=sig_extra)
    # small flow-control windows: credit accounting under loss decides liveness
    small = {}
    for md in (2500, 4000):
        small["small_window_up/md%d" % md] = {"ops": {"c": [W(0, 9000, True)]},
                                             "cfg": {"s_max_data": md, "s_max_stream_data": md}}
        small["small_window_both/md%d" % md] = {"ops": {"c": [W(0, 6000, True)], "s": [W(1, 6000, True)]},
                                               "cfg": {"s_max_data": md, "s_max_stream_data": md,
                                                       "c_max_data": md, "c_max_stream_data": md}}
    for k in small:
        small[k]["dev"] = ("drop", "delay")
    # early data: written before the first transmit on a resumed connection; the server's front end may
    # answer the first flight with a Retry or a Version Negotiation packet, after which the client starts
    # over - what it had written is still owed to the peer
    zr = {}
    for nm, extra in (("plain", {}), ("retry", {"retry": True}), ("vn", {"vn": True}), ("retry_v2", {"retry": True, "version": V2})):
        zr["early_data_echo/%s" % nm] = {"ops": {"c": [W(0, 300, True, g="pre")], "s": [W(0, 700, True, g=("rx", 0, 1))]},
                                         "cfg": dict(extra, tickets="obtain")}
        zr["early_data_bulk/%s" % nm] = {"ops": {"c": [W(0, 3000, g="pre"), W(4, 10, True, g="pre"), W(0, 500, True)]},
                                         "cfg": dict(extra, tickets="obtain")}
    netcheck.explore_scenarios(ctx, "c01", zr, 1, "early_data_d1", sig_extra=sig_extra)
    # every pair of configuration options on one standard exchange, each datagram dropped once
    from vlib import cfgpairs

    netcheck.explore_scenarios(ctx, "c01", cfgpairs.scenarios(ctx.seed, dev=("drop",) if quick else ("drop", "delay")),
                               1, "config_pairs_d1", sig_extra=sig_extra)
    netcheck.explore_scenarios(ctx, "c01", small, 2 if quick else 3, "small_windows", sig_extra=sig_extra)
    if not quick:
        cl = closure_scripts(2)
        netcheck.explore_scenarios(ctx, "c01", cl, 1, "closure_depth2_d1", sig_extra=sig_extra)
        short = ["hello_fin_sep", "exact_fill", "two_streams_small_fin", "fill_then_finonly", "echo"]
        sc3 = {"%s/reno_v1" % s: {"script": s, "cfg": "reno_v1"} for s in short}
        netcheck.explore_scenarios(ctx, "c01", sc3, 3, "short_scripts_d3", sig_extra=sig_extra)
    else:
        cl = closure_scripts(2)
        netcheck.explore_scenarios(ctx, "c01", cl, 0, "closure_depth2_d0", sig_extra=sig_extra)
    if len(agg["outcomes"]) < 3:
        raise core.HarnessError("vacuous exploration: %d outcomes" % len(agg["outcomes"]))
    ctx.cov["rule"] = (
        "stateless deviation-bounded DFS over NetSim: every schedule of each (script, config) with at "
        "most d network deviations (drop/duplicate/delay 30ms/delay 1.5s/client rebind per datagram, "
        "timer 1us/20ms late), then a fair phase to quiescence; states/transitions = choice points "
        "executed (no state merging); distinct = distinct (outcome, per-stream delivered lengths, "
        "packets sent) tuples"
    )
    ctx.cov["exhaustive"] = not ctx.caps_hit
    ctx.cov["bounds"] = {"scripts": len(SCRIPTS), "configs": cfgs,
                         "deviation_bound": "1 on all, 2 on %d scenarios" % len(sc2)}
    ctx.assumptions += [
        "application follows the sans-IO contract (datagrams_to_send after every call, timers fired)",
        "fixed one-way latency 10 ms; corruption is not a fate here (C02)",
    ]


def replay(ctx, obj):
    v = netcheck.replay("c01", obj)
    if v:
        print("VIOLATION property=C01 replay=(replayed): %s" % v[1])
        return 1
    print("no violation on replay")
    return 0
