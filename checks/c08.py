"""C08 - loss-recovery and congestion accounting stay consistent.

Part (i), this file: explicit-state BFS (E2) over the REAL `QuicPacketRecovery`
with its `QuicPacketSpace`s and the Reno / CUBIC congestion controllers.  A
state is rebuilt in the worker by replaying its history on fresh real objects;
every transition is then executed on its own private deep copy (pickle round
trip: exact for these pure-Python objects) of that state.  Nothing is modelled.

Alphabet (simplest first; the driver calls the API exactly as QuicConnection
does - keyword arguments, `packet.sent_time = now` before `on_packet_sent`,
non-empty RangeSet for `on_ack_received`, `peer_completed_address_validation`
set on an ACK in the Handshake / 1-RTT space, `discard_space` at most once per
space and no send/ack in a discarded space, timeout fired only when
`get_loss_detection_time()` is not None and <= now):

  send(space, kind, size)     kind in ack_only / eliciting / crypto / padding
                              (the four flag combinations the packet builder
                              can produce); size in {40, 1200}: a free choice
                              in the "sizes" runs, alternating with the packet
                              number (1200, 40, ...) in the "alt" runs, which
                              reach one level more for the same cost
  adv(dt)                     virtual time += dt, dt in {1 ms, 120 ms, 600 ms}
                              (CUBIC: 2.5 s instead of 600 ms, > idle reset);
                              never twice in a row; dt = 0 is the identity
                              (events may share an instant)
  to_timer                    virtual time = loss-detection time (exact expiry)
  fire                        on_loss_detection_timeout(now)  (loss timer / PTO)
  ack(space, R, ack_delay)    EVERY non-empty range set R over {0..N+1},
                              N = packets sent so far in that space (never-sent
                              N, N+1 and already acked numbers included);
                              ack_delay 0, and 25 ms when max(R) is tracked
  discard(space)              discard_space + space.discarded = True
  resched                     reschedule_data(now) (the connection calls it at
                              most once, `_crypto_retransmitted`)

Oracle after every call (property C08, first sentence):
  bytes_in_flight == sum(sent_bytes of tracked in-flight packets) and >= 0;
  space.ack_eliciting_in_flight == number of tracked ack-eliciting packets;
  every delivery handler fires at most once per packet, never after the
  discard of its space; congestion_window >= 2 * max_datagram_size;
  get_loss_detection_time() finite while ack-eliciting packets are tracked;
  no call raises.

State key (dedup): 128-bit digest of the *complete* behaviour-relevant concrete
state: all fields of the recovery object, of the controller and of its RTT
monitor (generic `vars()`, so new fields are picked up), per space the ordered
tracked packets with all flags / size / exact sent time / fire count, largest
acked, loss time, counters, plus the harness state (virtual time in integer
microseconds, next packet numbers, discard flags, delivery history).  No
rounding, no rank abstraction: two states with equal key are equal as far as
any recovery code path can observe, hence have equal futures.  Excluded, with
argument: the pacer (only written by the calls made here, `update_rate`
overwrites it from (cwnd, srtt) and nothing reads it back into recovery or
controller) and the receive-side fields of QuicPacketSpace (not touched).
Absolute times are exact because virtual time is an integer number of
microseconds.  The space does not close (time grows, EWMA floats), so the
stated bound is the depth; within it every history is executed.

Part (ii) (NetSim wire monitor, Retry / Version Negotiation restarts) is added
by the lead: see the hook in run().
"""
import array
import hashlib
import marshal
import math
import pickle
import traceback

from vlib import core, explore

LEVEL = "model_checking"

from aioquic import tls  # noqa: E402
from aioquic.quic.packet import QuicPacketType  # noqa: E402
from aioquic.quic.packet_builder import QuicSentPacket  # noqa: E402
from aioquic.quic.rangeset import RangeSet  # noqa: E402
from aioquic.quic.recovery import QuicPacketRecovery, QuicPacketSpace  # noqa: E402

MDS = 1200  # QuicConfiguration.max_datagram_size default
INITIAL_RTT = 0.1  # QuicConfiguration.initial_rtt default
MIN_WINDOW_DATAGRAMS = 2  # the property: "never drops below two datagrams"
T0_US = 1000 * 1000000  # virtual clock starts at 1000 s (a real clock is never 0.0)

# kind -> (in_flight, is_ack_eliciting, is_crypto_packet): exactly the combinations
# QuicPacketBuilder.start_frame/_end_packet can produce.
KINDS = {
    "ack_only": (False, False, False),
    "eliciting": (True, True, False),
    "crypto": (True, True, True),
    "padding": (True, False, False),
}
KIND_ORDER = ("ack_only", "eliciting", "crypto", "padding")
SIZES = (40, MDS)
DT_US = (1000, 120000, 600000)
DT_US_CUBIC = (1000, 120000, 2500000)
ACK_DELAY_MS = 25  # besides 0; = max_ack_delay

EPOCHS = {
    1: (tls.Epoch.ONE_RTT,),
    2: (tls.Epoch.HANDSHAKE, tls.Epoch.ONE_RTT),
    3: (tls.Epoch.INITIAL, tls.Epoch.HANDSHAKE, tls.Epoch.ONE_RTT),
}
PTYPES = {
    tls.Epoch.INITIAL: QuicPacketType.INITIAL,
    tls.Epoch.HANDSHAKE: QuicPacketType.HANDSHAKE,
    tls.Epoch.ONE_RTT: QuicPacketType.ONE_RTT,
}

# per-run parameters, set before the pool forks
CFG = {"ncap": 4, "max_depth": 6, "sizes": SIZES, "dts": DT_US}


# ======================================================================= world
class World:
    """The real recovery object plus the harness recorders, copied as one graph."""

    def __init__(self, algo, nspaces, client):
        self.algo = algo
        self.n = nspaces
        self.client = client
        self.now_us = T0_US
        self.next_pn = [0] * nspaces
        self.discarded = [False] * nspaces
        self.rescheduled = False
        self.last_adv = False  # previous event was adv(dt)
        self.fired = {}  # (space, pn) -> number of times a delivery handler fired
        self.probes = 0
        self.viol = None  # first recorder violation of the current call
        self.ev = []  # deliveries of the current call
        self.rec = QuicPacketRecovery(
            congestion_control_algorithm=algo,
            initial_rtt=INITIAL_RTT,
            max_datagram_size=MDS,
            peer_completed_address_validation=not client,
            send_probe=self.on_probe,
        )
        self.rec.spaces = [QuicPacketSpace() for _ in range(nspaces)]

    # ------------------------------------------------------------- recorders
    def on_probe(self):
        self.probes += 1

    def on_delivery(self, state, s, pn):
        c = self.fired.get((s, pn), 0) + 1
        self.fired[(s, pn)] = c
        self.ev.append((state.name, s, pn))
        if self.viol is None:
            if c > 1:
                self.viol = (
                    {"monitor": "delivery_at_most_once", "second": state.name},
                    "delivery handler of packet %d in space %d fired %d times (now %s)"
                    % (pn, s, c, state.name),
                )
            elif self.discarded[s]:
                self.viol = (
                    {"monitor": "delivery_after_discard", "state": state.name},
                    "delivery handler of packet %d fired (%s) after space %d was discarded"
                    % (pn, state.name, s),
                )

    # --------------------------------------------------------------- driving
    def now(self):
        return self.now_us / 1e6

    def apply(self, lab):
        """Perform one event the way QuicConnection would; returns the API entry point."""
        self.viol = None
        self.ev = []
        rec = self.rec
        now = self.now()
        op = lab[0]
        self.last_adv = op == "adv"
        if op == "send":
            _, s, kind, size = lab
            in_flight, eliciting, crypto = KINDS[kind]
            pn = self.next_pn[s]
            self.next_pn[s] = pn + 1
            epoch = EPOCHS[self.n][s]
            # as QuicPacketBuilder.start_packet/_end_packet + datagrams_to_send
            packet = QuicSentPacket(
                epoch=epoch,
                in_flight=in_flight,
                is_ack_eliciting=eliciting,
                is_crypto_packet=crypto,
                packet_number=pn,
                packet_type=PTYPES[epoch],
            )
            packet.delivery_handlers.append((self.on_delivery, (s, pn)))
            packet.sent_bytes = size
            packet.sent_time = now
            rec.on_packet_sent(packet=packet, space=rec.spaces[s])
            return "on_packet_sent"
        if op == "ack":
            _, s, ranges, delay_ms = lab
            rs = RangeSet([range(a, b) for a, b in ranges])
            # _handle_ack_frame
            if not rec.peer_completed_address_validation and EPOCHS[self.n][s] in (
                tls.Epoch.HANDSHAKE,
                tls.Epoch.ONE_RTT,
            ):
                rec.peer_completed_address_validation = True
            rec.on_ack_received(
                ack_rangeset=rs, ack_delay=delay_ms / 1000.0, now=now, space=rec.spaces[s]
            )
            return "on_ack_received"
        if op == "adv":
            self.now_us += lab[1]
            return None
        if op == "to_timer":
            t = rec.get_loss_detection_time()
            self.now_us = max(self.now_us, int(math.ceil(t * 1e6)))
            while self.now_us / 1e6 < t:  # float rounding of the division
                self.now_us += 1
            return None
        if op == "fire":
            rec.on_loss_detection_timeout(now=now)
            return "on_loss_detection_timeout"
        if op == "discard":
            s = lab[1]
            rec.discard_space(rec.spaces[s])
            rec.spaces[s].discarded = True  # _discard_epoch
            self.discarded[s] = True
            return "discard_space"
        if op == "resched":
            self.rescheduled = True
            rec.reschedule_data(now=now)
            return "reschedule_data"
        raise core.HarnessError("unknown label %r" % (lab,))


_SUBSETS = {}


def range_sets(n):
    """Every non-empty range set over {0..n-1}, fewest numbers first."""
    if n not in _SUBSETS:
        out = []
        for mask in range(1, 1 << n):
            nums = [i for i in range(n) if mask >> i & 1]
            rs = []
            for v in nums:
                if rs and rs[-1][1] == v:
                    rs[-1][1] = v + 1
                else:
                    rs.append([v, v + 1])
            out.append((len(nums), tuple((a, b) for a, b in rs)))
        out.sort()
        _SUBSETS[n] = [r for _, r in out]
    return _SUBSETS[n]


def enabled(w, ncap, sizes=SIZES, dts=DT_US):
    labs = []
    for s in range(w.n):
        if not w.discarded[s] and w.next_pn[s] < ncap:
            # "alt": the size is not a free choice but alternates with the packet number
            # (1200, 40, 1200, ...) so that neighbouring packets still differ in size
            ss = ((MDS, 40)[w.next_pn[s] % 2],) if sizes == "alt" else sizes
            for kind in KIND_ORDER:
                for size in ss:
                    labs.append(("send", s, kind, size))
    if not w.last_adv:  # at most one adv between two other events
        for dt in dts:
            labs.append(("adv", dt))
    t = w.rec.get_loss_detection_time()
    if t is not None:
        if t <= w.now():
            labs.append(("fire",))
        else:
            labs.append(("to_timer",))
    for s in range(w.n):
        if not w.discarded[s]:
            sent = w.rec.spaces[s].sent_packets
            for ranges in range_sets(w.next_pn[s] + 2):
                labs.append(("ack", s, ranges, 0))
                # RFC 9002 5.3: the ack delay field is only meaningful when the largest
                # acknowledged packet is newly acknowledged; the second delay value is
                # enumerated for exactly those range sets (stated alphabet restriction)
                if ranges[-1][1] - 1 in sent:
                    labs.append(("ack", s, ranges, ACK_DELAY_MS))
    for s in range(w.n):
        if not w.discarded[s]:
            labs.append(("discard", s))
    if not w.rescheduled:
        labs.append(("resched",))
    return labs


# ====================================================================== oracle
def _innermost_aioquic(tb):
    name = None
    for fs in traceback.extract_tb(tb):
        if "/aioquic/" in fs.filename.replace("\\", "/"):
            name = "%s:%s" % (fs.filename.rsplit("/aioquic/", 1)[1], fs.name)
    return name


def tracked(w):
    """Harness ledger read from space.sent_packets: (flight bytes, per-space eliciting)."""
    flight = 0
    eliciting = []
    for sp in w.rec.spaces:
        n = 0
        for p in sp.sent_packets.values():
            if p.in_flight:
                flight += p.sent_bytes
            if p.is_ack_eliciting:
                n += 1
        eliciting.append(n)
    return flight, eliciting


def check_state(w, entry):
    """The C08 invariants; returns (sig, what) or None."""
    rec = w.rec
    if w.viol is not None:
        sig, what = w.viol
        return dict(sig, entry=entry), what
    flight, eliciting = tracked(w)
    bif = rec.bytes_in_flight
    if bif < 0:
        return (
            {"monitor": "bytes_in_flight_negative", "entry": entry},
            "bytes_in_flight=%d after %s" % (bif, entry),
        )
    if bif != flight:
        return (
            {"monitor": "bytes_in_flight_ledger", "entry": entry,
             "direction": "over" if bif > flight else "under"},
            "bytes_in_flight=%d but tracked in-flight packets total %d bytes after %s"
            % (bif, flight, entry),
        )
    for s, sp in enumerate(rec.spaces):
        if sp.ack_eliciting_in_flight != eliciting[s]:
            return (
                {"monitor": "ack_eliciting_in_flight", "entry": entry},
                "space %d: ack_eliciting_in_flight=%d but %d ack-eliciting packets tracked after %s"
                % (s, sp.ack_eliciting_in_flight, eliciting[s], entry),
            )
    cwnd = rec.congestion_window
    if cwnd < MIN_WINDOW_DATAGRAMS * MDS:
        return (
            {"monitor": "cwnd_floor", "entry": entry},
            "congestion_window=%r < 2 * %d after %s" % (cwnd, MDS, entry),
        )
    try:
        t = rec.get_loss_detection_time()
    except Exception as e:  # noqa
        return (
            {"monitor": "exception", "exc": type(e).__name__,
             "where": _innermost_aioquic(e.__traceback__), "entry": "get_loss_detection_time"},
            "get_loss_detection_time raised %s: %s after %s" % (type(e).__name__, e, entry),
        )
    if sum(eliciting) > 0 and (t is None or not math.isfinite(t)):
        return (
            {"monitor": "timer_finite", "entry": entry},
            "%d ack-eliciting packets tracked but get_loss_detection_time()=%r after %s"
            % (sum(eliciting), t, entry),
        )
    return None


def step(w, lab):
    """Apply one label on w (already a private copy); returns (violation, outcome)."""
    cw0 = w.rec.congestion_window
    n0 = sum(len(sp.sent_packets) for sp in w.rec.spaces)
    p0 = w.probes
    try:
        entry = w.apply(lab)
    except core.HarnessError:
        raise
    except Exception as e:  # noqa
        entry = {"send": "on_packet_sent", "ack": "on_ack_received", "fire":
                 "on_loss_detection_timeout", "discard": "discard_space",
                 "resched": "reschedule_data", "to_timer": "get_loss_detection_time"}.get(lab[0])
        return (
            (
                {"monitor": "exception", "exc": type(e).__name__,
                 "where": _innermost_aioquic(e.__traceback__), "entry": entry},
                "%s raised %s: %s on %r" % (entry, type(e).__name__, e, lab),
            ),
            ("exc", type(e).__name__),
        )
    if entry is None:
        return None, (lab[0],)
    viol = check_state(w, entry)
    cw1 = w.rec.congestion_window
    n1 = sum(len(sp.sent_packets) for sp in w.rec.spaces)
    acked = sum(1 for e in w.ev if e[0] == "ACKED")
    lost = sum(1 for e in w.ev if e[0] == "LOST")
    outcome = (
        lab[0],
        n1 - n0,
        min(acked, 2),
        min(lost, 2),
        (cw1 > cw0) - (cw1 < cw0),
        cw1 == MIN_WINDOW_DATAGRAMS * MDS,
        w.rec._cc.ssthresh is not None and cw1 >= w.rec._cc.ssthresh,
        w.probes > p0,
    )
    return viol, outcome


# =================================================================== state key
_PRIMS = frozenset((int, float, bool, str, type(None)))


def _flat(obj, skip, out):
    """All instance fields of obj (names and values, nested objects flattened) into out."""
    d = vars(obj)
    for k in sorted(d):
        if k in skip:
            continue
        v = d[k]
        t = type(v)
        out.append(k)
        if t in _PRIMS:
            out.append(v)
        elif t is list or t is tuple:
            for x in v:
                if type(x) not in _PRIMS:
                    raise core.HarnessError("state key: unexpected element %r in %s" % (type(x), k))
            out.append(tuple(v))
        elif hasattr(v, "__dict__"):
            _flat(v, (), out)
            out.append("/" + k)
        else:
            raise core.HarnessError("state key: unexpected field %s of type %r" % (k, t))


_REC_SKIP = frozenset(("spaces", "_cc", "_pacer", "_logger", "_quic_logger", "_send_probe"))


def key_of(w):
    rec = w.rec
    cc = rec._cc
    fired = w.fired
    out = [w.now_us, w.last_adv, tuple(w.next_pn), tuple(w.discarded), w.rescheduled]
    _flat(rec, _REC_SKIP, out)
    out.append(type(cc).__name__)
    out.append(cc.bytes_in_flight)  # class-level defaults until first assignment
    out.append(cc.congestion_window)
    out.append(cc.ssthresh)
    _flat(cc, (), out)
    for s, sp in enumerate(rec.spaces):
        out.append(sp.largest_acked_packet)
        out.append(sp.loss_time)
        out.append(sp.ack_eliciting_in_flight)
        out.append(sp.discarded)
        out.append(len(sp.sent_packets))
        for n, p in sp.sent_packets.items():  # dict order matters to _detect_loss
            out += (n, p.packet_number, p.in_flight, p.is_ack_eliciting, p.is_crypto_packet,
                    p.sent_bytes, p.sent_time, len(p.delivery_handlers), fired.get((s, n), 0))
        if not w.discarded[s]:
            out.append(tuple([fired.get((s, n), 0) for n in range(w.next_pn[s])]))
    return hashlib.blake2b(marshal.dumps(out, 2), digest_size=16).digest()


# ====================================================================== expand
_INTERN = {}


def successors(key, hist):
    """Execute every enabled transition of one state on the real code.

    The state is rebuilt by replaying its history on fresh real objects (a few calls; the
    resulting key must equal the recorded one), pickled once, and every transition runs on
    its own private deep copy (pickle round trip) of that state.  Yields
    (label, successor key or None, violation or None, outcome)."""
    w0 = World(CFG["algo"], CFG["nspaces"], CFG["client"])
    for lab in hist:
        w0.apply(lab)
    if key_of(w0) != key:
        raise core.HarnessError("history replay diverged from the recorded state key: %r" % (hist,))
    w0.viol = None
    w0.ev = []
    blob = pickle.dumps(w0, -1)
    for lab in enabled(w0, CFG["ncap"], CFG["sizes"], CFG["dts"]):
        lab = _INTERN.setdefault(lab, lab)  # shared objects pickle once per chunk
        w = pickle.loads(blob)  # private deep copy of the real objects
        viol, outcome = step(w, lab)
        outcome = _INTERN.setdefault(outcome, outcome)
        k = None if viol is not None else key_of(w)
        w.__dict__.clear()  # break the world <-> recovery reference cycle (no gc needed)
        yield lab, k, viol, outcome
    w0.__dict__.clear()


def expand(node):
    """explore.bfs-compatible expansion of one node (key, None, history)."""
    key, _, hist = node
    out = []
    local = set()
    for lab, k, viol, outcome in successors(key, hist):
        if k is not None and (k == key or k in local):
            k = None  # self-loop / same successor as an earlier label
        elif k is not None:
            local.add(k)
        out.append((lab, k, None, viol, outcome))
    return out


# ------------------------------------------------------------------ lean BFS
# Same level-synchronous, parent-deduplicated BFS as explore.bfs (same node order, same
# counts), with a compact worker -> parent protocol: per chunk of frontier states the worker
# returns the transition count, the outcome set, the violations and only the successor keys
# that are new within the chunk (16-byte digests joined into one bytes object + parent index
# + label).  explore.bfs ships one 5-tuple per transition; in this sandbox fresh memory costs
# ~100 us per page, which made the parent the bottleneck (16 workers no faster than 4).
def _work(task):
    cfg, keys, hists = task
    try:
        CFG.update(cfg)
        ntrans = 0
        outcomes = set()
        viols = []
        seen = set()
        new_keys = []
        new_idx = array.array("I")
        new_labs = []
        for i, hist in enumerate(hists):
            key = keys[16 * i : 16 * i + 16]
            for lab, k, viol, outcome in successors(key, hist):
                ntrans += 1
                outcomes.add(outcome)
                if viol is not None:
                    viols.append((i, lab, viol[0], viol[1]))
                elif k != key and k not in seen:
                    seen.add(k)
                    new_keys.append(k)
                    new_idx.append(i)
                    new_labs.append(lab)
        return ("ok", ntrans, outcomes, viols, b"".join(new_keys), new_idx.tobytes(), new_labs)
    except BaseException as e:  # noqa
        return ("err", "%s: %s\n%s" % (type(e).__name__, e, traceback.format_exc()))


class LeanResult:
    def __init__(self):
        self.states = 0
        self.transitions = 0
        self.max_depth = 0
        self.closed = False
        self.capped = None
        self.violations = []  # (sig, what, history), BFS order
        self.outcomes = set()
        self.samples = []


def lean_bfs(pool, nworkers, cfg, init_key, prefix, max_depth):
    res = LeanResult()
    seen = {init_key}
    parent = array.array("i", [-1])  # per stored state: index of its BFS parent
    via = [None]  # per stored state: label of the transition from the parent
    intern = {}

    def history(i):
        h = []
        while i > 0:
            h.append(via[i])
            i = parent[i]
        h.reverse()
        return list(prefix) + h

    frontier = [(0, init_key)]
    res.states = 1
    depth = 0
    added = 1
    while frontier and depth < max_depth:
        store = depth + 1 < max_depth  # successors of the last level are only counted
        n = max(1, min(1024, len(frontier) // (nworkers * 6)))
        chunks = [frontier[i : i + n] for i in range(0, len(frontier), n)]
        tasks = [
            (cfg, b"".join(k for _, k in c), [tuple(history(i)) for i, _ in c]) for c in chunks
        ]
        results = pool.imap(_work, tasks) if pool is not None else map(_work, tasks)
        nxt = []
        for chunk, r in zip(chunks, results):
            if r[0] != "ok":
                raise core.HarnessError("bfs worker raised: " + r[1])
            _, ntrans, outcomes, viols, keys, idx, labs = r
            res.transitions += ntrans
            res.outcomes |= outcomes
            for i, lab, sig, what in viols:
                res.violations.append((sig, what, history(chunk[i][0]) + [lab]))
            idx = array.array("I", idx)
            for j in range(len(labs)):
                k = keys[16 * j : 16 * j + 16]
                if k in seen:
                    continue
                seen.add(k)
                if store:
                    lab = labs[j]
                    lab = intern.setdefault(lab, lab)
                    parent.append(chunk[idx[j]][0])
                    via.append(lab)
                    nxt.append((len(via) - 1, k))
                    if len(res.samples) < 3 and depth >= 2:
                        res.samples.append(history(len(via) - 1))
        depth += 1
        added = len(seen) - res.states
        if added:
            res.max_depth = depth
        res.states = len(seen)
        frontier = nxt
    res.closed = added == 0
    return res


# ======================================================================= seeds
def loss_event_prefix(k):
    """History that produces k congestion events (PTO retransmission of CRYPTO)."""
    h = []
    for i in range(k):
        if i:
            h.append(("adv", 1000))
        h += [("send", 0, "crypto", MDS), ("to_timer",), ("fire",)]
    return h


def build(algo, nspaces, client, history):
    """Fresh world + replay of a history; returns (world, first violation or None)."""
    w = World(algo, nspaces, client)
    for i, lab in enumerate(history):
        viol, _ = step(w, lab)
        if viol is not None:
            return w, (i, viol)
    w.viol = None
    w.ev = []
    return w, None


# ================================================================== component
def dts_for(algo):
    # CUBIC: the long step is 2.5 s (> K_CUBIC_MAX_IDLE_TIME, idle reset) instead of 600 ms
    return DT_US if algo == "reno" else DT_US_CUBIC


def plan(tier):
    """Runs: (name, algo, nspaces, client, sizes, packets per space, depth, seed prefix).

    sizes: SIZES = the size of each packet is a free choice; "alt" = sizes alternate with
    the packet number (no branching on size: one more level for the same cost).
    Seeded runs start from a state reached by a fixed prefix of real API calls which
    brings the window next to its floor (Reno needs three halvings = 11 events, beyond
    any affordable depth from the fresh object); their histories include the prefix.
    """
    r2, r3, c1 = loss_event_prefix(2), loss_event_prefix(3), loss_event_prefix(1)
    S, C = False, True
    if tier == "quick":
        return [
            ("reno.1sp.server.sizes", "reno", 1, S, SIZES, 4, 4, []),
            ("reno.1sp.server.alt", "reno", 1, S, "alt", 4, 6, []),
            ("reno.1sp.server.alt.seed2", "reno", 1, S, "alt", 5, 4, r2),
            ("cubic.1sp.server.sizes", "cubic", 1, S, SIZES, 4, 4, []),
            ("cubic.1sp.server.alt", "cubic", 1, S, "alt", 4, 6, []),
            ("cubic.1sp.server.alt.seed1", "cubic", 1, S, "alt", 4, 5, c1),
            ("reno.2sp.server.alt", "reno", 2, S, "alt", 4, 5, []),
            ("cubic.2sp.server.alt", "cubic", 2, S, "alt", 4, 4, []),
            ("reno.3sp.client.alt", "reno", 3, C, "alt", 4, 4, []),
            ("cubic.3sp.client.alt", "cubic", 3, C, "alt", 4, 4, []),
        ]
    return [
        ("reno.1sp.server.sizes", "reno", 1, S, SIZES, 5, 5, []),
        ("reno.1sp.server.alt", "reno", 1, S, "alt", 5, 7, []),
        ("reno.1sp.server.alt.seed2", "reno", 1, S, "alt", 6, 5, r2),
        ("reno.1sp.server.alt.seed3", "reno", 1, S, "alt", 7, 5, r3),
        ("reno.1sp.client.alt", "reno", 1, C, "alt", 5, 6, []),
        ("cubic.1sp.server.sizes", "cubic", 1, S, SIZES, 5, 5, []),
        ("cubic.1sp.server.alt", "cubic", 1, S, "alt", 5, 6, []),
        ("cubic.1sp.server.alt.seed1", "cubic", 1, S, "alt", 5, 6, c1),
        ("cubic.1sp.client.alt", "cubic", 1, C, "alt", 5, 6, []),
        ("reno.2sp.server.alt", "reno", 2, S, "alt", 5, 5, []),
        ("cubic.2sp.server.alt", "cubic", 2, S, "alt", 5, 5, []),
        ("reno.3sp.client.alt", "reno", 3, C, "alt", 5, 5, []),
        ("cubic.3sp.client.alt", "cubic", 3, C, "alt", 5, 5, []),
    ]


def run_part(ctx, spec, pool):
    name, algo, nspaces, client, sizes, ncap, depth, prefix = spec
    cfg = dict(ncap=ncap, max_depth=depth, sizes=sizes, dts=dts_for(algo), algo=algo,
               nspaces=nspaces, client=client)
    CFG.update(cfg)
    base = {"algo": algo, "nspaces": nspaces, "client": client}
    w, bad = build(algo, nspaces, client, prefix)
    if bad is not None:
        i, (sig, what) = bad
        ctx.violation(dict(sig, cc=algo), what, dict(base, history=prefix[: i + 1]))
        return None
    res = lean_bfs(pool, core.NCPU, cfg, key_of(w), list(prefix), depth)
    floor = sum(1 for o in res.outcomes if len(o) > 5 and o[5])
    lossy = sum(1 for o in res.outcomes if len(o) > 3 and o[3])
    ctx.part(
        name,
        states=res.states,
        transitions=res.transitions,
        evaluations=res.transitions,
        distinct_nontrivial=res.states,
        max_depth=res.max_depth,
        closure=res.closed,
        depth_bound=depth,
        seed_prefix_len=len(prefix),
        packets_per_space=ncap,
        outcomes=len(res.outcomes),
        outcomes_with_loss=lossy,
        outcomes_at_window_floor=floor,
    )
    if len(res.outcomes) < 8 or not lossy:
        raise core.HarnessError(
            "%s: vacuous exploration (%d outcomes, %d with a loss)"
            % (name, len(res.outcomes), lossy)
        )
    for h in res.samples[:1]:
        ctx.sample({"part": name, "history": h})
    seen = set()
    for sig, what, hist in res.violations:
        sig = dict(sig, cc=algo)
        k = core.stable_hash(sig)
        if k in seen:
            continue  # BFS order: the first is a shortest one
        seen.add(k)
        ctx.violation(sig, what, dict(base, history=hist))
    if getattr(res, "capped", None):
        ctx.cap("%s: %s" % (name, res.capped))
    return floor


def run_component(ctx):
    specs = plan(ctx.tier)
    floor = {}
    pool = None
    if core.NCPU > 1:
        import multiprocessing

        pool = multiprocessing.get_context("fork").Pool(core.NCPU)
    try:
        for spec in specs:
            if ctx.only_parts and spec[0] not in ctx.only_parts:
                continue
            f = run_part(ctx, spec, pool)
            if f is not None:
                floor[spec[1]] = floor.get(spec[1], 0) + f
    finally:
        if pool is not None:
            pool.terminate()
            pool.join()
    if not ctx.only_parts and not ctx.violations:
        for algo in ("reno", "cubic"):
            if not floor.get(algo):
                raise core.HarnessError("vacuous: %s never reached the window floor" % algo)
    ctx.cov["rule"] = (
        "explicit-state BFS over the real QuicPacketRecovery + QuicPacketSpace + Reno/CUBIC "
        "objects (private deep copy per transition); alphabet = send(space, 4 flag kinds, size), "
        "ack(space, every non-empty range set over {0..N+1}, ack delay 0 / 25 ms), 3 time steps, "
        "exact timer expiry, loss-detection timeout, discard(space), reschedule_data; C08 ledger / "
        "at-most-once / window-floor / timer invariants evaluated after every call; a state is "
        "distinct by the digest of its complete concrete recovery, controller and harness state"
    )
    ctx.cov["bounds"] = {
        "runs": {
            sp[0]: {"sizes": sp[4] if sp[4] == "alt" else list(sp[4]), "packets_per_space": sp[5],
                    "depth": sp[6], "seed_prefix": sp[7]}
            for sp in specs
        },
        "dt_us": {"reno": list(DT_US), "cubic": list(DT_US_CUBIC)},
        "ack_delay_ms": [0, ACK_DELAY_MS],
        "closure": False,
    }
    # the depth bound is the stated bound (the space does not close: virtual time and the
    # RTT/CUBIC floats grow); exhaustive means: every history within the bound was executed
    ctx.cov["exhaustive"] = not ctx.caps_hit
    ctx.assumptions += [
        "packet numbers in a space are consecutive from 0 (the connection's single counter "
        "leaves gaps between spaces; the recovery code is per space)",
        "a 128-bit digest stands for the concrete state in the visited set",
        "virtual clock starts at 1000 s; Reno/CUBIC treat time 0.0 as 'never' and a real clock "
        "is never 0.0",
        "no send / ack / second discard on a discarded space (keys are gone in the connection); "
        "reschedule_data at most once; the timeout is fired only when due",
        "at most one adv(dt) between two other events; ack delay 25 ms only with range sets "
        "whose largest number is a tracked packet",
    ]


def run(ctx):
    only = getattr(ctx, "only_parts", None)
    if not only or any(not p.startswith("wire") for p in only):
        run_component(ctx)
    # part (ii) NetSim wire monitor added by lead
    if not only or any(p.startswith("wire") for p in only):
        from checks import c08_wire

        c08_wire.run_wire(ctx)


# ====================================================================== replay
def describe(w):
    rec = w.rec
    sp = []
    for s, x in enumerate(rec.spaces):
        sp.append(
            "s%d{pn=%s ae=%d largest=%d loss_time=%s}"
            % (s, sorted(x.sent_packets), x.ack_eliciting_in_flight, x.largest_acked_packet,
               x.loss_time)
        )
    return "t=%.6f bif=%d cwnd=%d ssthresh=%s pto_count=%d timer=%s %s" % (
        w.now(), rec.bytes_in_flight, rec.congestion_window, rec._cc.ssthresh, rec._pto_count,
        rec.get_loss_detection_time(), " ".join(sp),
    )


def _label(x):
    x = list(x)
    if x[0] == "ack":
        x[2] = tuple((a, b) for a, b in x[2])
    return tuple(x)


def replay(ctx, obj):
    rp = obj["replay"]
    if rp.get("engine") == "netsim":
        from checks import c08_wire  # noqa: F401  (registers the factory)
        from vlib import netcheck

        v = netcheck.replay("c08", obj)
        if v:
            print("VIOLATION property=C08 replay=(replayed): %s" % v[1])
            return 1
        print("no violation on replay")
        return 0
    hist = [_label(x) for x in rp["history"]]
    w = World(rp["algo"], rp["nspaces"], rp["client"])
    print("replaying %s, %d spaces, %s: %d steps" % (
        rp["algo"], rp["nspaces"], "client" if rp["client"] else "server", len(hist)))
    print("   ", describe(w))
    for lab in hist:
        viol, outcome = step(w, lab)
        print("  %r -> deliveries %s" % (lab, w.ev))
        try:
            print("   ", describe(w))
        except Exception as e:  # noqa
            print("    (state not printable: %s)" % e)
        if viol is not None:
            print("  VIOLATION: %s" % viol[1])
            print("VIOLATION property=C08 replay=(replayed)")
            return 1
    print("no violation on replay")
    return 0
