"""C12 part 2: exact packet-number arrival patterns from a key-holding peer (PeerBot + E3).

Every arrival order of every subset of packet numbers {base..base+U-1} with at most K
arrivals is delivered to a real endpoint as ack-eliciting (PING) or non-eliciting
(PADDING-only is illegal; ACK-only) packets; the ACK frames the endpoint emits must list
only packet numbers that were delivered, and after firing its timer every delivered
ack-eliciting packet that carried the highest number so far must be covered within 25 ms.
"""
import itertools

from vlib import core, peerbot

U = 6
K = 4


def patterns(tier):
    u, k = (U, K) if tier == "quick" else (7, 5)
    out = []
    for n in range(1, k + 1):
        for seq in itertools.permutations(range(u), n):
            out.append(seq)
    return out


def run_pattern(args):
    role, seqs = args
    res = {"n": 0, "viol": [], "outcomes": set()}
    for seq in seqs:
        bot = peerbot.PeerBot(role)
        base = bot.next_pn + 2
        delivered = set(range(0, bot.next_pn))    # everything the throw-away peer sent earlier
        known = set()
        for r in bot.P.sent_packets:
            if r.epoch == "A" and r.pn is not None:
                known.add(r.pn)
        delivered = known
        t_arr = {}
        largest = max(delivered) if delivered else -1
        viol = None
        try:
            for i, off in enumerate(seq):
                pn = base + off
                eliciting = (off + i) % 3 != 2
                if eliciting:
                    frames = [{"t": "PING"}]
                else:
                    # an ACK-only packet that acknowledges everything the endpoint has sent so far, its own
                    # ACK-only packets included (an "ACK of ACK": the endpoint may prune its ack queue)
                    top = max([r.pn for r in bot.E.sent_packets if r.epoch == "A" and r.pn is not None] or [0])
                    frames = [{"t": "ACK", "ranges": [(0, top)], "delay": 0}]
                r = bot.send(frames, pn=pn)
                delivered.add(pn)
                if eliciting and pn > largest:
                    t_arr[pn] = bot.w.now
                largest = max(largest, pn)
                viol = viol or _check_acks(r, delivered, seq)
                _cover(r, t_arr)
                bot.advance(0.0004)
            # let the ack timer fire
            deadline = bot.w.now + 0.025
            for _ in range(3):
                t = bot.E.conn.get_timer()
                if t is None or t > deadline or t == bot.E.conn._close_at:
                    break
                r = bot.timer()
                viol = viol or _check_acks(r, delivered, seq)
                _cover(r, t_arr)
            if viol is None and t_arr:
                pn = sorted(t_arr)[0]
                viol = ({"monitor": "ack.late", "part": "gaps"},
                        "pattern %s: ack-eliciting packet %d (largest at arrival) not acknowledged within "
                        "25 ms although the timer was fired when asked" % (_pat(seq), pn - base))
        except core.HarnessError:
            raise
        except Exception as e:  # noqa
            viol = ({"monitor": "api_exception", "exc": type(e).__name__, "part": "gaps"},
                    "%s: %s on pattern %r" % (type(e).__name__, e, seq))
        res["n"] += 1
        res["outcomes"].add((len(seq), tuple(sorted(seq)) == tuple(seq)))
        if viol:
            res["viol"].append((viol[0], viol[1], {"role": role, "pattern": list(seq)}))
    return res


def _pat(seq):
    seq = list(seq)
    return repr(seq) if len(seq) <= 8 else "[%d, %d, %d, ... %d] (%d arrivals)" % (seq[0], seq[1], seq[2], seq[-1], len(seq))


def _cover(r, t_arr):
    for f in r.frames("ACK"):
        for lo, hi in f["ranges"]:
            for pn in list(t_arr):
                if lo <= pn <= hi:
                    del t_arr[pn]


def _check_acks(r, delivered, seq):
    for rec in r.sent:
        for f in rec.frames or []:
            if f["t"] == "ACK" and rec.epoch == "A":
                for lo, hi in f["ranges"]:
                    if lo < 0:
                        return ({"monitor": "ack.negative_range", "part": "gaps"}, "negative packet number acknowledged")
                    bad = [pn for pn in range(lo, hi + 1) if pn not in delivered]
                    if bad:
                        return ({"monitor": "ack.unsound", "part": "gaps"},
                                "pattern %s: ACK lists packet numbers %r that were never delivered (ranges %r)"
                                % (_pat(seq), bad[:6], f["ranges"][:8]))
    return None


def long_patterns(tier):
    """The peer skips every other (every third) packet number N times: more ACK ranges than one frame can
    carry once N > ~76 - the frame must then carry the NEWEST ranges; also descending arrival."""
    ns = (40, 76, 77, 78, 120) if tier == "quick" else (10, 40, 70, 75, 76, 77, 78, 79, 90, 120, 200, 300)
    out = []
    for n in ns:
        out.append(tuple(range(0, 2 * n, 2)))
        out.append(tuple(range(0, 3 * n, 3)))
    out.append(tuple(range(2 * 100, 0, -2)))
    return out


def run_gaps(ctx):
    pats = patterns(ctx.tier)
    tasks = []
    for role in ("server", "client"):
        for i in range(0, len(pats), 40):
            tasks.append((role, pats[i:i + 40]))
        for lp in long_patterns(ctx.tier):
            tasks.append((role, [lp]))
    results = core.pmap(run_pattern, tasks)
    n = 0
    outcomes = set()
    seen = set()
    for r in results:
        n += r["n"]
        outcomes |= r["outcomes"]
        for sig, what, rp in sorted(r["viol"], key=lambda x: len(x[2]["pattern"])):
            k = core.stable_hash(sig)
            if k in seen:
                continue
            seen.add(k)
            ctx.violation(sig, what, dict(rp, part="gaps"))
    ctx.part("gap_patterns", evaluations=n, states=n, transitions=n * 3, distinct_nontrivial=len(outcomes),
             universe=U if ctx.tier == "quick" else 7, max_arrivals=K if ctx.tier == "quick" else 5)
    ctx.sample({"part": "gap_patterns", "pattern": list(pats[len(pats) // 2])})


# ----------------------------------------------------------- frame kinds part
def _kinds(role):
    """ack-eliciting single-frame packets, including frames that refer to a stream the endpoint
    has already discarded (they are ignored, but the packet is still ack-eliciting)"""
    peer_bidi = 0 if role == "server" else 1          # initiated by the harness peer
    done = peer_bidi                                   # this stream will be finished and discarded
    other = peer_bidi + 4
    e_uni = 3 if role == "server" else 2
    k = [
        ("PING", [{"t": "PING"}]),
        ("RESET_STREAM_discarded", [{"t": "RESET_STREAM", "id": done, "err": 1, "final": 3}]),
        ("STOP_SENDING_discarded", [{"t": "STOP_SENDING", "id": done, "err": 1}]),
        ("MAX_STREAM_DATA_discarded", [{"t": "MAX_STREAM_DATA", "id": done, "max": 5000}]),
        ("STREAM_DATA_BLOCKED_discarded", [{"t": "STREAM_DATA_BLOCKED", "id": done, "max": 3}]),
        ("STREAM_dup_discarded", [{"t": "STREAM", "id": done, "off": 0, "data": b"req", "fin": True}]),
        ("STREAM_new", [{"t": "STREAM", "id": other, "off": 0, "data": b"x", "fin": False}]),
        ("MAX_DATA", [{"t": "MAX_DATA", "max": 10 ** 7}]),
        ("DATA_BLOCKED", [{"t": "DATA_BLOCKED", "max": 5}]),
        ("STREAMS_BLOCKED", [{"t": "STREAMS_BLOCKED", "uni": False, "max": 5}]),
        ("MAX_STREAMS", [{"t": "MAX_STREAMS", "uni": True, "max": 500}]),
        ("PATH_CHALLENGE", [{"t": "PATH_CHALLENGE", "data": b"12345678"}]),
        ("RETIRE_CONNECTION_ID", [{"t": "RETIRE_CONNECTION_ID", "seq": 1}]),
        ("NEW_CONNECTION_ID", [{"t": "NEW_CONNECTION_ID", "seq": 8, "rpt": 1, "cid": b"\xbb" * 8, "token": bytes(16)}]),
        ("STOP_SENDING_e_uni_unopened", None),
        ("DATAGRAM_like_PING_PADDING", [{"t": "PING"}, {"t": "PADDING", "n": 20}]),
    ]
    if role == "client":
        k.append(("HANDSHAKE_DONE", [{"t": "HANDSHAKE_DONE"}]))
        k.append(("NEW_TOKEN", [{"t": "NEW_TOKEN", "token": b"tok"}]))
    return [x for x in k if x[1] is not None]


def run_kind(args):
    role, label, frames = args
    bot = peerbot.PeerBot(role)
    sid = 0 if role == "server" else 1
    # request/response on `sid`, fully acknowledged: the endpoint discards the stream
    bot.send([{"t": "STREAM", "id": sid, "off": 0, "data": b"req", "fin": True}])
    bot.app("send_stream_data", lambda c: c.send_stream_data(sid, b"resp", end_stream=True))
    for _ in range(3):
        bot.ack()
        t = bot.E.conn.get_timer()
        if t is not None and t != bot.E.conn._close_at and t <= bot.w.now + 0.03:
            bot.timer()
        bot.ack()
    bot.advance(0.2)
    viol = None
    try:
        pn = bot.next_pn + 3          # a new largest packet number (with a gap)
        t_arr = bot.w.now
        r = bot.send(frames, pn=pn)
        covered = any(lo <= pn <= hi for f in r.frames("ACK") for lo, hi in f["ranges"])
        closed = bot.E.conn._state.name != "CONNECTED"
        for _ in range(4):
            if covered or closed:
                break
            t = bot.E.conn.get_timer()
            if t is None or t > t_arr + 0.025 + 1e-6 or t == bot.E.conn._close_at:
                break
            r = bot.timer()
            covered = any(lo <= pn <= hi for f in r.frames("ACK") for lo, hi in f["ranges"])
        if not covered and not closed:
            viol = ({"monitor": "ack.late", "part": "frame_kinds", "frame": label.split("_")[0]},
                    "%s: an ack-eliciting packet carrying only %s (new largest packet number) was not "
                    "acknowledged within 25 ms although the timer was fired when asked (next timer %r)"
                    % (role, label, None if bot.E.conn.get_timer() is None else
                       round(bot.E.conn.get_timer() - t_arr, 6)))
    except core.HarnessError:
        raise
    except Exception as e:  # noqa
        viol = ({"monitor": "api_exception", "exc": type(e).__name__, "part": "frame_kinds"},
                "%s: %s with %s" % (type(e).__name__, e, label))
    return role, label, viol, bot.E.conn._state.name


def run_frame_kinds(ctx):
    tasks = [(role, label, frames) for role in ("server", "client") for label, frames in _kinds(role)]
    res = core.pmap(run_kind, tasks, chunksize=2)
    outcomes = set()
    for role, label, viol, state in res:
        outcomes.add((label.split("_")[0], state))
        if viol:
            ctx.violation(dict(viol[0], role=role), viol[1], {"part": "frame_kinds", "role": role, "label": label})
    ctx.part("ack_eliciting_frame_kinds", evaluations=len(res), states=len(res), transitions=len(res) * 6,
             distinct_nontrivial=len(outcomes))
