"""C11 - TLS handshake messages are accepted only in protocol order.

World: ONE real `aioquic.tls.Context` (client or server) driven through
`handle_message()` by the key-holding adversary of `vlib.reftls`, which completes the
key exchange itself, tracks the transcript exactly as the victim accepted it and can
emit any handshake message kind next with MAC / signature / binder computed over that
transcript.  `tls.Context` holds OpenSSL keys, so every explored history is rebuilt by
replaying it on fresh objects; the adversary's key material is fixed, the victim's
randoms vary and never enter a label, a key or a signature of a finding.

Parts
  table      every handshake state (reached by its legal prefix) x every message kind
  closure    BFS with all kinds from the initial state of each variant until no new
             canonical state appears
  sequences  every ordering of every sub-multiset of the server flight
             {EE, CR, Cert, CV, Fin} (client victims) and of the client flight
             {Cert, CV, Fin} (server victims); thorough: multiplicity <= 2

Oracle: a literal RFC 8446 (as profiled for QUIC by RFC 9001: no KeyUpdate, no
EndOfEarlyData) next-message table `Ref`, plus a key-release ledger.
"""
import itertools
import traceback

from vlib import core, explore

LEVEL = "model_checking"

from vlib import certs, reftls as R  # noqa: E402

from aioquic import tls  # noqa: E402
from aioquic.buffer import Buffer  # noqa: E402
from cryptography import x509  # noqa: E402

EPOCHS = (tls.Epoch.INITIAL, tls.Epoch.HANDSHAKE, tls.Epoch.ONE_RTT)

# ------------------------------------------------------------------ alphabet
# label -> (reftls kind, kwargs).  "/x" suffixes are flavours of the same message type.
CLIENT_VICTIM_KINDS = {  # sent by the adversarial SERVER
    "CH": ("client_hello", {}),
    "SH": ("server_hello", {}),
    "SH/psk0": ("server_hello", {"psk_index": 0}),
    "SH/psk1": ("server_hello", {"psk_index": 1}),
    "HRR": ("hello_retry_request", {}),
    "NST": ("new_session_ticket", {}),
    "EOED": ("end_of_early_data", {}),
    "EE": ("encrypted_extensions", {}),
    # EncryptedExtensions flavours: the early_data extension although no early data was offered
    # (a claim of 0-RTT acceptance), and an extension the client never asked for
    "EE/early": ("encrypted_extensions", {"extra_extensions": [(R.EXT_EARLY_DATA, b"")]}),
    "EE/unk": ("encrypted_extensions", {"extra_extensions": [(0xABCD, b"xyz")]}),
    "CR": ("certificate_request", {}),
    "CERT": ("certificate", {}),
    # RFC 8446 4.4.2: "The server's certificate_list MUST always be non-empty" - a server that
    # presents nothing has authenticated nothing
    "CERT/empty": ("certificate", {"chain": []}),
    "CV": ("certificate_verify", {"key": "leaf"}),
    "CV/spare": ("certificate_verify", {"key": "spare"}),
    # a chain the client does not trust, with a CertificateVerify that IS a correct signature by that chain's
    # key: possession is proved, the identity is not - the refusal comes at CertificateVerify at the latest and
    # must leave the state where it was
    "CERT/untrusted": ("certificate", {"chain": "@untrusted_chain"}),
    "CV/untrusted": ("certificate_verify", {"key": "@untrusted_key"}),
    "FIN": ("finished", {}),
    "FIN/bad": ("finished", {"corrupt": True}),
    "KU": ("key_update", {}),
    "CCERT": ("compressed_certificate", {}),
    "MH": ("message_hash", {}),
    "UNK": ("unknown", {}),
}
SERVER_VICTIM_KINDS = {  # sent by the adversarial CLIENT
    "CH": ("client_hello", {}),
    "CH/badbinder": ("client_hello", {"bad_binder": True}),
    "SH": ("server_hello", {}),
    "HRR": ("hello_retry_request", {}),
    "NST": ("new_session_ticket", {}),
    "EOED": ("end_of_early_data", {}),
    "EE": ("encrypted_extensions", {}),
    "CR": ("certificate_request", {}),
    "CERT": ("certificate", {}),
    "CERT/empty": ("certificate", {"empty": True}),
    "CV": ("certificate_verify", {"key": "leaf"}),
    "CV/spare": ("certificate_verify", {"key": "spare"}),
    "FIN": ("finished", {}),
    "FIN/bad": ("finished", {"corrupt": True}),
    "KU": ("key_update", {}),
    "CCERT": ("compressed_certificate", {}),
    "MH": ("message_hash", {}),
    "UNK": ("unknown", {}),
}
HANDSHAKE_TYPE_OF = {
    "client_hello": 1, "server_hello": 2, "hello_retry_request": 2, "new_session_ticket": 4,
    "end_of_early_data": 5, "encrypted_extensions": 8, "certificate": 11,
    "certificate_request": 13, "certificate_verify": 15, "finished": 20, "key_update": 24,
    "compressed_certificate": 25, "message_hash": 254, "unknown": 99,
}

# variant -> configuration
VARIANTS = {
    # client victims
    "c_full": dict(role="client", ticket=False),
    "c_offered": dict(role="client", ticket=True),   # ticket offered, adversary may or may not select it
    # verify_mode=CERT_NONE: the chain is not validated, but CertificateVerify still has to be a signature
    # by the key of the presented certificate (RFC 8446 4.4.3) - the state machine is the same
    "c_noverify": dict(role="client", ticket=False, verify_none=True),
    # server victims
    "s_plain": dict(role="server", request_cert=False, psk=False),
    "s_req": dict(role="server", request_cert=True, psk=False),
    "s_psk": dict(role="server", request_cert=False, psk=True),
}

# ------------------------------------------------------------- reference model
REF_TO_IMPL = {
    "START": "CLIENT_HANDSHAKE_START",
    "WAIT_SH": "CLIENT_EXPECT_SERVER_HELLO",
    "WAIT_EE": "CLIENT_EXPECT_ENCRYPTED_EXTENSIONS",
    "WAIT_CERT_CR": "CLIENT_EXPECT_CERTIFICATE_REQUEST_OR_CERTIFICATE",
    "WAIT_CERT": "CLIENT_EXPECT_CERTIFICATE",
    "WAIT_CV": "CLIENT_EXPECT_CERTIFICATE_VERIFY",
    "WAIT_FINISHED": "CLIENT_EXPECT_FINISHED",
    "CONNECTED": "CLIENT_POST_HANDSHAKE",
    "S_WAIT_CH": "SERVER_EXPECT_CLIENT_HELLO",
    "S_WAIT_CERT": "SERVER_EXPECT_CERTIFICATE",
    "S_WAIT_CV": "SERVER_EXPECT_CERTIFICATE_VERIFY",
    "S_WAIT_FINISHED": "SERVER_EXPECT_FINISHED",
    "S_CONNECTED": "SERVER_POST_HANDSHAKE",
}


class Ref:
    """RFC 8446 section 2 / 4.4 / appendix A next-message table (QUIC profile).

    classify(label) -> ("accept", next_state) the message is the legal next one and
                                              authentic: must be taken
                       ("unexpected",)        its TYPE is not permitted here: must be
                                              refused with unexpected_message, nothing
                                              may change, no key may be released
                       ("content",)           type permitted, but it does not verify
                                              (signature by a key other than the
                                              presented leaf's; Finished with a wrong
                                              MAC; selection of a PSK that was not
                                              offered): must not be accepted
                       ("either",)            type permitted, support optional (HRR)
                       ("accept_optional", next_state)  type permitted, content the victim may
                                              refuse (unsolicited extensions); if it is taken
                                              the state must be next_state
    """

    def __init__(self, role, offered_psk=False, request_cert=False, client_psk=False, verify_chain=True):
        self.role = role
        self.verify_chain = verify_chain    # False: verify_mode=CERT_NONE (any chain, but the signature must fit it)
        self.offered_psk = offered_psk      # client victim offered a ticket
        self.request_cert = request_cert    # server victim sent CertificateRequest
        self.client_psk = client_psk        # adversarial client offers a valid PSK
        self.state = "WAIT_SH" if role == "client" else "S_WAIT_CH"
        self.psk_selected = False
        self.hello_done = False             # SH accepted (client) / CH accepted (server)
        self.peer_finished_verified = False
        self.untrusted_chain = False        # the Certificate taken last carried the untrusted chain

    def classify(self, label):
        s = self.state
        if self.role == "client":
            if s == "WAIT_SH":
                if label == "SH":
                    return ("accept", "WAIT_EE")
                if label == "SH/psk0":
                    return ("accept", "WAIT_EE") if self.offered_psk else ("content",)
                if label == "SH/psk1":
                    return ("content",)
                if label == "HRR":
                    return ("either",)
            elif s == "WAIT_EE":
                if label == "EE":
                    return ("accept", "WAIT_FINISHED" if self.psk_selected else "WAIT_CERT_CR")
                if label in ("EE/early", "EE/unk"):
                    # the client may refuse extensions it did not ask for; if it takes the message,
                    # what comes next is decided by PSK selection alone, exactly as for a plain EE
                    return ("accept_optional", "WAIT_FINISHED" if self.psk_selected else "WAIT_CERT_CR")
            elif s == "WAIT_CERT_CR":
                if label == "CR":
                    return ("accept", "WAIT_CERT")
                if label == "CERT":
                    return ("accept", "WAIT_CV")
                if label == "CERT/empty":
                    return ("content",)
                if label == "CERT/untrusted":
                    return ("accept_optional", "WAIT_CV")   # may be refused here already, or at CertificateVerify
            elif s == "WAIT_CERT":
                if label == "CERT":
                    return ("accept", "WAIT_CV")
                if label == "CERT/empty":
                    return ("content",)
                if label == "CERT/untrusted":
                    return ("accept_optional", "WAIT_CV")
            elif s == "WAIT_CV":
                if self.untrusted_chain and not self.verify_chain:
                    # the chain is not validated, the signature must still be by the presented certificate's key
                    if label == "CV/untrusted":
                        return ("accept", "WAIT_FINISHED")
                    if label in ("CV", "CV/spare"):
                        return ("content",)
                elif self.untrusted_chain:
                    # whatever signs it: the presented chain does not lead to a trusted root
                    if label in ("CV", "CV/spare", "CV/untrusted"):
                        return ("content",)
                else:
                    if label == "CV":
                        return ("accept", "WAIT_FINISHED")
                    if label in ("CV/spare", "CV/untrusted"):
                        return ("content",)
            elif s == "WAIT_FINISHED":
                if label == "FIN":
                    return ("accept", "CONNECTED")
                if label == "FIN/bad":
                    return ("content",)
            elif s == "CONNECTED":
                if label == "NST":
                    return ("accept", "CONNECTED")
            return ("unexpected",)
        # server
        if s == "S_WAIT_CH":
            if label == "CH":
                return ("accept", "S_WAIT_CERT" if self.request_cert else "S_WAIT_FINISHED")
            if label == "CH/badbinder":
                # without a PSK offer the flavour is an ordinary ClientHello
                if not self.client_psk:
                    return ("accept", "S_WAIT_CERT" if self.request_cert else "S_WAIT_FINISHED")
                return ("content",)
        elif s == "S_WAIT_CERT":
            if label == "CERT":
                return ("accept", "S_WAIT_CV")
            if label == "CERT/empty":
                return ("accept", "S_WAIT_FINISHED")
        elif s == "S_WAIT_CV":
            if label == "CV":
                return ("accept", "S_WAIT_FINISHED")
            if label == "CV/spare":
                return ("content",)
        elif s == "S_WAIT_FINISHED":
            if label == "FIN":
                return ("accept", "S_CONNECTED")
            if label == "FIN/bad":
                return ("content",)
        return ("unexpected",)

    def apply(self, label, nxt):
        if label.startswith("CERT"):
            self.untrusted_chain = label == "CERT/untrusted"
        if self.state == "WAIT_SH":
            self.hello_done = True
            self.psk_selected = label == "SH/psk0"
        elif self.state == "S_WAIT_CH":
            self.hello_done = True
        if nxt in ("CONNECTED", "S_CONNECTED") and label == "FIN":
            self.peer_finished_verified = True
        self.state = nxt

    def key_allowed(self, direction, epoch):
        """Key-release ledger: may (direction, epoch) reach update_traffic_key_cb now?"""
        if epoch == "HANDSHAKE":
            return self.hello_done
        if epoch == "ONE_RTT":
            if self.role == "client":
                return self.peer_finished_verified
            if direction == "ENCRYPT":
                return self.hello_done      # server may send 0.5-RTT data after its own Finished
            return self.peer_finished_verified
        return False                         # no 0-RTT is ever offered in these worlds


# -------------------------------------------------------------------- material
_MAT = {}


def material():
    if not _MAT:
        with open(certs.path("ed25519.pem"), "rb") as f:
            _MAT["chain"] = R.load_pem_chain(f.read())
        with open(certs.path("ed25519.key"), "rb") as f:
            _MAT["leaf"] = R.load_pem_key(f.read())
        with open(certs.path("spare.key"), "rb") as f:
            _MAT["spare"] = R.load_pem_key(f.read())
        with open(certs.path("ca.pem"), "rb") as f:
            _MAT["cadata"] = f.read()
        _MAT["x509"] = x509.load_der_x509_certificate(_MAT["chain"][0])
        # a chain the client does NOT trust (self-signed leaf for the right name) and its key
        with open(certs.path("selfsigned.pem"), "rb") as f:
            _MAT["untrusted_chain"] = R.load_pem_chain(f.read())
        with open(certs.path("selfsigned.key"), "rb") as f:
            _MAT["untrusted_key"] = R.load_pem_key(f.read())
    return _MAT


CLIENT_TP = bytes.fromhex("0104800075300408ffffffffffffffff")  # opaque to TLS
SERVER_TP = bytes.fromhex("0104800075300e0104")


def _resolve(kk):
    kind, kw = kk
    if any(isinstance(v, str) and v.startswith("@") for v in kw.values()):
        m = material()
        kw = {k: (m[v[1:]] if isinstance(v, str) and v.startswith("@") else v) for k, v in kw.items()}
    return kind, kw


def new_buffers():
    return {e: Buffer(capacity=8192) for e in EPOCHS}


def drain(bufs):
    out = {e: bytes(b.data) for e, b in bufs.items()}
    for b in bufs.values():
        b.seek(0)
    return out


def aioquic_func(exc):
    """Qualified name of the innermost aioquic frame of an exception (no line numbers)."""
    name = None
    for frame, _ in traceback.walk_tb(exc.__traceback__):
        fn = frame.f_code.co_filename
        if "/aioquic/" in fn:
            name = "%s:%s" % (fn.rsplit("/aioquic/", 1)[1], frame.f_code.co_qualname)
    return name


def _ks_digest(k):
    if k is None:
        return None
    try:
        return (int(k.cipher_suite), k.generation, bytes(k.secret), k.hash.copy().finalize())
    except Exception as e:  # noqa
        return ("?", type(e).__name__)


class World:
    """One victim Context + its adversary, advanced label by label."""

    def __init__(self, variant):
        self.variant = variant
        cfg = VARIANTS[variant]
        self.cfg = cfg
        self.role = cfg["role"]
        self.keys = []          # (direction, epoch, cipher_suite, secret) as released
        self.accepted = []      # labels accepted so far
        self.bufs = new_buffers()
        self.tickets = []
        self.notes = {}
        m = material()
        if self.role == "client":
            ticket, psk = (client_ticket() if cfg["ticket"] else (None, None))
            self.victim = self._make_client(ticket)
            if cfg.get("verify_none"):
                import ssl

                self.victim._verify_mode = ssl.CERT_NONE
            self.ref = Ref("client", offered_psk=cfg["ticket"], verify_chain=not cfg.get("verify_none"))
            self.kinds = CLIENT_VICTIM_KINDS
            self.adv = R.ServerAdversary(m["chain"], m["leaf"], m["spare"], alpn="h3",
                                         ee_extensions=[(R.EXT_QUIC_TRANSPORT_PARAMETERS, SERVER_TP)],
                                         psk_lookup=(lambda ident: psk) if psk else None)
            self.expected_start_state = "CLIENT_HANDSHAKE_START"
        else:
            offer = server_ticket() if cfg["psk"] else None
            self.victim = self._make_server(cfg["request_cert"])
            self.ref = Ref("server", request_cert=cfg["request_cert"], client_psk=bool(offer))
            self.kinds = SERVER_VICTIM_KINDS
            self.adv = R.ClientAdversary("localhost", alpn=["h3"],
                                         extensions=[(R.EXT_QUIC_TRANSPORT_PARAMETERS, CLIENT_TP)],
                                         cert_chain=m["chain"], leaf_key=m["leaf"], other_key=m["spare"],
                                         offer_psk=offer)

    # ---- victims
    def _cb(self, direction, epoch, cipher_suite, secret):
        self.keys.append((direction.name, epoch.name, int(cipher_suite), bytes(secret)))

    def _make_client(self, ticket=None, want_tickets=False):
        m = material()
        c = tls.Context(is_client=True, alpn_protocols=["h3"], cadata=m["cadata"], server_name="localhost")
        c.handshake_extensions = [(tls.ExtensionType.QUIC_TRANSPORT_PARAMETERS, CLIENT_TP)]
        c.update_traffic_key_cb = self._cb
        c.session_ticket = ticket
        c.new_session_ticket_cb = self.tickets.append
        return c

    def _make_server(self, request_cert):
        m = material()
        s = tls.Context(is_client=False, alpn_protocols=["h3"])
        s.certificate = m["x509"]
        s.certificate_private_key = m["leaf"]
        s.handshake_extensions = [(tls.ExtensionType.QUIC_TRANSPORT_PARAMETERS, SERVER_TP)]
        s._request_client_certificate = request_cert
        s.update_traffic_key_cb = self._cb
        s.new_session_ticket_cb = _SERVER_STORE_PUT
        s.get_session_ticket_cb = _SERVER_STORE.get
        return s

    # ---- observation
    def canon_keys(self):
        return tuple(sorted((d, e) for d, e, _, _ in self.keys))

    def canon(self):
        """Structural state, comparable between runs."""
        v = self.victim
        acc = []
        for a in self.accepted:   # NewSessionTicket may repeat for ever: saturate runs at 2
            if a == "NST" and acc[-2:] == ["NST", "NST"]:
                continue
            acc.append(a)
        return (v.state.name, bool(v._session_resumed), v._peer_certificate is not None,
                v._certificate_request is not None, self.canon_keys(), tuple(acc))

    def deep(self):
        """Everything observable that a refused message must leave untouched (only
        compared within one run, so random bytes are fine)."""
        v = self.victim
        proxy = getattr(v, "_key_schedule_proxy", None)
        scheds = getattr(proxy, "_KeyScheduleProxy__schedules", {}) if proxy is not None else {}
        return (
            v.state.name, bool(v._session_resumed), v._peer_certificate is not None,
            len(v._peer_certificate_chain), v._certificate_request is not None,
            v._enc_key, v._dec_key, v.alpn_negotiated, v.early_data_accepted,
            bytes(v._receive_buffer), getattr(v, "_expected_verify_data", None),
            getattr(v, "_next_dec_key", None), _ks_digest(v.key_schedule),
            _ks_digest(getattr(v, "_key_schedule_psk", None)),
            tuple(_ks_digest(k) for k in scheds.values()),
            repr(v.received_extensions), v._new_session_ticket is None,
            tuple(self.bufs[e].tell() for e in EPOCHS), len(self.keys), len(self.tickets),
        )

    # ---- driving
    def start(self):
        """Bring the victim to the point where it waits for the first peer message."""
        if self.role == "client":
            self.victim.handle_message(b"", self.bufs)
            out = drain(self.bufs)
            self.adv.receive_client_hello(out[tls.Epoch.INITIAL])
            if self.cfg["ticket"] and self.adv.binder_ok is not True:
                raise core.HarnessError("victim offered a ticket but reftls cannot verify its binder")
        return self

    def feed(self, raw):
        try:
            self.victim.handle_message(raw, self.bufs)
            return None
        except BaseException as e:  # noqa
            if isinstance(e, (KeyboardInterrupt, SystemExit, MemoryError)):
                raise
            return e

    def after_accept(self, label, raw):
        """Adversary bookkeeping once the victim took `raw`."""
        self.accepted.append(label)
        out = drain(self.bufs)
        self.adv.accepted(raw)
        if self.role == "server" and label.startswith("CH"):
            rep = self.adv.receive_server_flight(out[tls.Epoch.INITIAL], out[tls.Epoch.HANDSHAKE],
                                                 out[tls.Epoch.ONE_RTT])
            self.notes["server_flight"] = rep
        if self.role == "client" and label == "FIN" and out[tls.Epoch.HANDSHAKE]:
            self.notes["client_flight"] = self.adv.receive_client_flight(out[tls.Epoch.HANDSHAKE])


# ------------------------------------------------- tickets for the PSK variants
_CLIENT_TICKET = []
_SERVER_TICKET = []
_SERVER_STORE = {}
_SERVER_STORE_OPEN = [True]


def _SERVER_STORE_PUT(t):
    # the real server's ticket store; only the ticket of the first legal handshake is kept
    if _SERVER_STORE_OPEN[0]:
        _SERVER_STORE[t.ticket] = t


def client_ticket():
    """(SessionTicket, psk): a ticket a real client obtained from a first, legal
    handshake with the reftls server; the PSK is derived independently by reftls."""
    if not _CLIENT_TICKET:
        w = World("c_full").start()
        for label in ("SH", "EE", "CERT", "CV", "FIN", "NST"):
            kind, kw = CLIENT_VICTIM_KINDS[label]
            raw = w.adv.make(kind, **kw)
            exc = w.feed(raw)
            if exc is not None:
                raise core.HarnessError("cannot obtain a session ticket: %s refused with %r" % (label, exc))
            w.after_accept(label, raw)
        if len(w.tickets) != 1:
            raise core.HarnessError("client did not deliver a session ticket")
        psk = w.adv.ticket_psk_for(b"\x01")
        if psk != w.tickets[0].resumption_secret:
            raise core.HarnessError("reftls and the client disagree on the resumption PSK")
        _CLIENT_TICKET.append((w.tickets[0], psk))
    return _CLIENT_TICKET[0]


def server_ticket():
    """offer_psk dict for the adversarial client, from a NewSessionTicket issued by a
    real server in a first legal handshake."""
    if not _SERVER_TICKET:
        w = World("s_plain").start()
        for label in ("CH", "FIN"):
            kind, kw = SERVER_VICTIM_KINDS[label]
            raw = w.adv.make(kind, **kw)
            exc = w.feed(raw)
            if exc is not None:
                raise core.HarnessError("cannot obtain a server ticket: %s refused with %r" % (label, exc))
            w.after_accept(label, raw)
        if not w.adv.tickets:
            raise core.HarnessError("server issued no NewSessionTicket")
        nst = w.adv.tickets[0]
        psk = w.adv.ticket_psk_for(nst)
        if _SERVER_STORE[nst.ticket].resumption_secret != psk:
            raise core.HarnessError("reftls and the server disagree on the resumption PSK")
        _SERVER_TICKET.append(dict(identity=nst.ticket, psk=psk,
                                   obfuscated_age=(nst.ticket_age_add + 10) & 0xFFFFFFFF,
                                   cipher_suite=w.adv.cipher_suite))
        _SERVER_STORE_OPEN[0] = False
    return _SERVER_TICKET[0]


# ----------------------------------------------------------------- one history
def base(label):
    return label.split("/")[0]


# monitors about HOW a message was refused: one report per (state, symptom), whatever the kind
_KINDLESS = {"illegal_type_wrong_refusal", "refusal_released_keys", "refusal_changed_state",
             "refusal_changed_projection"}


def _sig(w, monitor, label, **kw):
    """Structural signature: monitor, victim role, reference state, message kind (omitted for
    the refusal-quality monitors so that one root cause gives one report), symptom fields."""
    s = {"monitor": monitor, "role": w.role, "ref_state": w.ref.state}
    if monitor not in _KINDLESS:
        s["kind"] = label
    s.update(kw)
    return s


def check_step(w, label, cls, exc, deep_before, canon_before, released, ref_before):
    """Compare one transition of the real Context with the reference.  Returns
    (violation or None, outcome tag)."""
    v = w.victim
    state_after = v.state.name
    is_unexpected_alert = isinstance(exc, tls.Alert) and getattr(exc, "description", None) == \
        tls.AlertDescription.unexpected_message
    excname = type(exc).__name__ if exc is not None else None
    rel = [(d, e) for d, e, _, _ in released]
    where = "%s in %s (impl %s)" % (label, ref_before, canon_before[0])

    if cls[0] == "unexpected":
        if exc is None:
            return ((_sig(w, "illegal_type_accepted", label, state_after=state_after),
                     "message %s, whose type TLS 1.3 does not permit there, was processed without an "
                     "alert; state became %s, keys released %r" % (where, state_after, rel)), "BAD")
        if not is_unexpected_alert:
            return ((_sig(w, "illegal_type_wrong_refusal", label, exc=excname, func=aioquic_func(exc)),
                     "%s was not refused with unexpected_message but with %s: %s"
                     % (where, excname, exc)), "BAD")
        if rel:
            return ((_sig(w, "refusal_released_keys", label, keys=rel),
                     "refused %s released keys %r" % (where, rel)), "BAD")
        if w.canon() != canon_before:
            return ((_sig(w, "refusal_changed_state", label, state_after=state_after),
                     "refused %s changed the context: %r -> %r" % (where, canon_before, w.canon())), "BAD")
        if w.deep() != deep_before:
            diff = [i for i, (a, b) in enumerate(zip(deep_before, w.deep())) if a != b]
            return ((_sig(w, "refusal_changed_projection", label, fields=diff),
                     "refused %s changed context fields #%r (transcript hash / secrets / buffers)"
                     % (where, diff)), "BAD")
        return (None, "refused:unexpected_message")

    if cls[0] == "content":
        if exc is None:
            return ((_sig(w, "unverified_accepted", label, state_after=state_after),
                     "%s does not verify (wrong signing key / PSK never offered) but was accepted; "
                     "state became %s" % (where, state_after)), "BAD")
        if rel:
            return ((_sig(w, "refusal_released_keys", label, keys=rel),
                     "refused %s released keys %r" % (where, rel)), "BAD")
        if w.canon() != canon_before:
            return ((_sig(w, "refusal_changed_state", label, state_after=state_after),
                     "refused %s changed the context: %r -> %r" % (where, canon_before, w.canon())), "BAD")
        return (None, "refused:" + excname)

    if cls[0] == "either":
        if exc is None:
            return (None, "accepted-optional")
        if rel or w.canon() != canon_before:
            return ((_sig(w, "refusal_changed_state", label, state_after=state_after, keys=rel),
                     "refused %s changed the context or released keys %r" % (where, rel)), "BAD")
        return (None, "refused:" + excname)

    if cls[0] == "accept_optional" and exc is not None:
        if rel or w.canon() != canon_before:
            return ((_sig(w, "refusal_changed_state", label, state_after=state_after, keys=rel),
                     "refused %s changed the context or released keys %r" % (where, rel)), "BAD")
        return (None, "refused:" + excname)

    # legal
    nxt = cls[1]
    if exc is not None:
        return ((_sig(w, "legal_refused", label, exc=excname, func=aioquic_func(exc)),
                 "legal, authentic %s was refused with %s: %s" % (where, excname, exc)), "BAD")
    if state_after != REF_TO_IMPL[nxt]:
        return ((_sig(w, "legal_wrong_state", label, state_after=state_after, expected=REF_TO_IMPL[nxt]),
                 "after legal %s the state is %s, RFC 8446 says %s (%s)"
                 % (where, state_after, nxt, REF_TO_IMPL[nxt])), "BAD")
    return (None, "accepted->" + nxt)


def check_ledger(w, label, released):
    for d, e, _, _ in released:
        if not w.ref.key_allowed(d, e):
            return (_sig(w, "key_released_early", label, key=[d, e]),
                    "key (%s, %s) reached update_traffic_key_cb during %s although the messages "
                    "authenticating that epoch were not verified (reference state %s, peer Finished "
                    "verified=%s)" % (d, e, label, w.ref.state, w.ref.peer_finished_verified))
    return None


def check_secrets(w):
    """Third opinion: released secrets vs reftls's own derivation (not part of C11's
    verdict - counted for the evidence / as harness self-check)."""
    s = w.adv.secrets()
    want = {
        ("client", "DECRYPT", "HANDSHAKE"): R.NSS_SERVER_HS, ("client", "ENCRYPT", "HANDSHAKE"): R.NSS_CLIENT_HS,
        ("client", "DECRYPT", "ONE_RTT"): R.NSS_SERVER_AP, ("client", "ENCRYPT", "ONE_RTT"): R.NSS_CLIENT_AP,
        ("server", "ENCRYPT", "HANDSHAKE"): R.NSS_SERVER_HS, ("server", "DECRYPT", "HANDSHAKE"): R.NSS_CLIENT_HS,
        ("server", "ENCRYPT", "ONE_RTT"): R.NSS_SERVER_AP, ("server", "DECRYPT", "ONE_RTT"): R.NSS_CLIENT_AP,
    }
    agree = differ = 0
    for d, e, _, sec in w.keys:
        lab = want.get((w.role, d, e))
        if lab is None or lab not in s:
            continue
        if s[lab] == sec:
            agree += 1
        else:
            differ += 1
    return agree, differ


def run_history(variant, history, mode="each", trace=None):
    """Replay `history` (labels) on a fresh world.  mode "each": one handle_message per
    message, refused messages are skipped by the adversary's transcript and the run goes
    on; mode "concat": everything in ONE handle_message call (processing stops at the first
    alert).  Returns dict(violation, canon, outcomes, refusals, finished, agree, differ)."""
    w = World(variant).start()
    outcomes = []
    refusals = 0
    violation = None
    v0 = check_ledger(w, "START", w.keys)   # nothing is authenticated before the peer's hello
    if v0 is not None:
        violation = dict(sig=v0[0], what=v0[1], step=-1)
    elif mode == "concat":
        violation = _run_concat(w, history, outcomes, trace)
        refusals = sum(1 for o in outcomes if not o.startswith("accepted"))
    else:
        for i, label in enumerate(history):
            kind, kw = _resolve(w.kinds[label])
            cls = w.ref.classify(label)
            ref_before = w.ref.state
            deep_before = w.deep()
            canon_before = w.canon()
            nkeys = len(w.keys)
            raw = w.adv.make(kind, **kw)
            if raw[0] != HANDSHAKE_TYPE_OF[kind]:
                raise core.HarnessError("reftls produced type %d for %s" % (raw[0], kind))
            exc = w.feed(raw)
            released = w.keys[nkeys:]
            viol, outcome = check_step(w, label, cls, exc, deep_before, canon_before, released, ref_before)
            if viol is None and exc is None and cls[0] in ("accept", "accept_optional"):
                w.ref.apply(label, cls[1])
                viol_l = check_ledger(w, label, released)
                if viol_l is not None:
                    viol, outcome = viol_l, "BAD"
            if trace is not None:
                trace.append("  %-9s ref %-14s -> %-32s impl %s keys+%r%s" % (
                    label, ref_before, outcome if exc is None else "%s (%s)" % (outcome, type(exc).__name__),
                    w.victim.state.name, [(d, e) for d, e, _, _ in released],
                    "  VIOLATION: " + viol[1] if viol else ""))
            outcomes.append(outcome)
            if viol is not None:
                violation = dict(sig=viol[0], what=viol[1], step=i)
                break
            if exc is None:
                if cls[0] == "either":
                    break  # cannot follow an optional feature
                w.after_accept(label, raw)
            else:
                refusals += 1
                if cls[0] != "unexpected" and w.deep() != deep_before:
                    # a refusal for CONTENT (type permitted) may legitimately have consumed the message
                    # into the transcript before failing - every TLS alert is fatal (RFC 8446 6.2), so
                    # nothing the property states concerns what such a context does afterwards
                    outcomes[-1] += ":fatal"
                    break
    agree, differ = check_secrets(w) if violation is None else (0, 0)
    finished = w.victim.state.name in ("CLIENT_POST_HANDSHAKE", "SERVER_POST_HANDSHAKE")
    if violation is None and finished != (w.ref.state in ("CONNECTED", "S_CONNECTED")):
        raise core.HarnessError("reference and implementation disagree without a step violation")
    return dict(violation=violation, canon=w.canon(), outcomes=outcomes, refusals=refusals,
                finished=finished, agree=agree, differ=differ,
                flight_ok=_flight_ok(w))


def _flight_ok(w):
    """Did the victim's own flight verify under reftls (MAC / signature)?  Self-check."""
    rep = w.notes.get("server_flight") or w.notes.get("client_flight")
    if rep is None:
        return None
    return rep.get("finished_ok") is True and rep.get("cv_ok") in (None, True)


def _run_concat(w, history, outcomes, trace):
    """All messages of `history` after the hello in one handle_message() call; the
    adversary MACs each message over the transcript it *expects* (previous ones
    accepted), which is exact for every message the victim actually reaches."""
    # the hello is fed on its own (it travels at another encryption level)
    blob = b""
    expected_refusal_at = None
    keys_allowed_ref = None
    raws = []
    for i, label in enumerate(history):
        kind, kw = _resolve(w.kinds[label])
        cls = w.ref.classify(label)
        if i == 0:
            raw = w.adv.make(kind, **kw)
            exc = w.feed(raw)
            if exc is not None or cls[0] != "accept":
                raise core.HarnessError("concat mode needs an accepted hello first")
            w.ref.apply(label, cls[1])
            w.after_accept(label, raw)
            outcomes.append("accepted->" + cls[1])
            continue
        raw = w.adv.make(kind, **kw)
        raws.append((label, raw, cls))
        blob += raw
        if expected_refusal_at is None:
            if cls[0] == "accept":
                w.ref.apply(label, cls[1])
                w.adv.accepted(raw)      # optimistic: exact for every message that is reached
            else:
                expected_refusal_at = len(raws) - 1
    deep_before = w.deep()
    nkeys = len(w.keys)
    exc = w.feed(blob)
    released = w.keys[nkeys:]
    state_after = w.victim.state.name
    label_seq = " ".join(history[1:])
    sig_kind = "flight"
    if trace is not None:
        trace.append("  one call with [%s] -> %s, impl %s, keys+%r" % (
            label_seq, "returned" if exc is None else type(exc).__name__, state_after,
            [(d, e) for d, e, _, _ in released]))
    if expected_refusal_at is None:
        outcomes.append("accepted-flight" if exc is None else "BAD")
        if exc is not None:
            return dict(sig=_sig(w, "legal_refused", sig_kind, exc=type(exc).__name__, func=aioquic_func(exc),
                                 mode="concat"),
                        what="legal prefix [%s] delivered in one call was refused with %s"
                        % (label_seq, type(exc).__name__), step=len(history) - 1)
    else:
        bad_label, _, bad_cls = raws[expected_refusal_at]
        if exc is None:
            outcomes.append("BAD")
            return dict(sig=_sig(w, "illegal_flight_accepted", base(bad_label), mode="concat",
                                 state_after=state_after),
                        what="flight [%s] delivered in one call raised no alert although %s is not "
                        "acceptable in %s; state %s" % (label_seq, bad_label, w.ref.state, state_after),
                        step=expected_refusal_at + 1)
        if bad_cls[0] == "unexpected" and not (
                isinstance(exc, tls.Alert) and exc.description == tls.AlertDescription.unexpected_message):
            outcomes.append("BAD")
            return dict(sig=_sig(w, "illegal_type_wrong_refusal", bad_label, exc=type(exc).__name__,
                                 func=aioquic_func(exc), mode="concat"),
                        what="flight [%s]: %s in %s refused with %s instead of unexpected_message"
                        % (label_seq, bad_label, w.ref.state, type(exc).__name__),
                        step=expected_refusal_at + 1)
        outcomes.append("refused-flight:" + type(exc).__name__)
    if state_after != REF_TO_IMPL[w.ref.state]:
        return dict(sig=_sig(w, "flight_wrong_state", sig_kind, mode="concat", state_after=state_after,
                             expected=REF_TO_IMPL[w.ref.state]),
                    what="after flight [%s] in one call the state is %s, reference %s"
                    % (label_seq, state_after, REF_TO_IMPL[w.ref.state]), step=len(history) - 1)
    v = check_ledger(w, sig_kind, released)
    if v is not None:
        return dict(sig=dict(v[0], mode="concat"), what=v[1] + " [flight %s]" % label_seq,
                    step=len(history) - 1)
    return None


# ------------------------------------------------------------------ part: table
LEGAL_PREFIXES = {
    # (variant, reference state) -> legal prefix reaching it
    "c_full": {
        "WAIT_SH": [], "WAIT_EE": ["SH"], "WAIT_CERT_CR": ["SH", "EE"], "WAIT_CERT": ["SH", "EE", "CR"],
        "WAIT_CV": ["SH", "EE", "CERT"], "WAIT_FINISHED": ["SH", "EE", "CERT", "CV"],
        "CONNECTED": ["SH", "EE", "CERT", "CV", "FIN"],
    },
    "c_noverify": {
        "WAIT_CERT_CR": ["SH", "EE"], "WAIT_CV": ["SH", "EE", "CERT"], "WAIT_FINISHED": ["SH", "EE", "CERT", "CV"],
        "CONNECTED": ["SH", "EE", "CERT", "CV", "FIN"],
    },
    "c_full+cr": {
        "WAIT_CV": ["SH", "EE", "CR", "CERT"], "WAIT_FINISHED": ["SH", "EE", "CR", "CERT", "CV"],
        "CONNECTED": ["SH", "EE", "CR", "CERT", "CV", "FIN"],
    },
    "c_offered": {   # ticket offered, not selected: full handshake
        "WAIT_SH": [], "WAIT_EE": ["SH"], "WAIT_CERT_CR": ["SH", "EE"], "WAIT_CERT": ["SH", "EE", "CR"],
        "WAIT_CV": ["SH", "EE", "CERT"], "WAIT_FINISHED": ["SH", "EE", "CERT", "CV"],
        "CONNECTED": ["SH", "EE", "CERT", "CV", "FIN"],
    },
    "c_offered+psk": {  # ticket offered and selected
        "WAIT_EE": ["SH/psk0"], "WAIT_FINISHED": ["SH/psk0", "EE"], "CONNECTED": ["SH/psk0", "EE", "FIN"],
    },
    "s_plain": {"S_WAIT_CH": [], "S_WAIT_FINISHED": ["CH"], "S_CONNECTED": ["CH", "FIN"]},
    "s_req": {
        "S_WAIT_CH": [], "S_WAIT_CERT": ["CH"], "S_WAIT_CV": ["CH", "CERT"],
        "S_WAIT_FINISHED": ["CH", "CERT", "CV"], "S_CONNECTED": ["CH", "CERT", "CV", "FIN"],
    },
    "s_req+nocert": {"S_WAIT_FINISHED": ["CH", "CERT/empty"], "S_CONNECTED": ["CH", "CERT/empty", "FIN"]},
    "s_psk": {"S_WAIT_CH": [], "S_WAIT_FINISHED": ["CH"], "S_CONNECTED": ["CH", "FIN"]},
}


def _job(job):
    """Worker: run one (variant, history, mode) job."""
    variant, history, mode = job
    r = run_history(variant, list(history), mode)
    return (job, r)


def part_start_row(ctx):
    """CLIENT_HANDSHAKE_START: handle_message() is the 'start' trigger; whatever bytes are
    passed must not be processed (neither now nor later) and must not release keys."""
    cells = 0
    outcomes = set()
    donor = World("c_full").start()   # an adversary primed with *another* client's hello
    for label, kk in CLIENT_VICTIM_KINDS.items():
        kind, kw = _resolve(kk)
        raw = donor.adv.make(kind, **kw)
        w = World("c_full")
        exc = w.feed(raw)
        cells += 1
        sig = {"monitor": "start_state", "role": "client", "ref_state": "START", "kind": label}
        what = None
        if exc is not None:
            what = "handle_message(%s) in CLIENT_HANDSHAKE_START raised %s" % (label, type(exc).__name__)
        elif w.keys:
            what = "keys %r released from CLIENT_HANDSHAKE_START" % (w.canon_keys(),)
        elif w.victim.state.name != "CLIENT_EXPECT_SERVER_HELLO":
            what = "state %s after the start call with %s" % (w.victim.state.name, label)
        elif bytes(w.victim._receive_buffer):
            what = "%s passed to the start call was retained for later processing" % label
        else:
            out = drain(w.bufs)
            try:
                ok = isinstance(R.parse_message(out[tls.Epoch.INITIAL]), R.ClientHello)
            except R.DecodeError:
                ok = False
            if not ok or out[tls.Epoch.HANDSHAKE] or out[tls.Epoch.ONE_RTT]:
                what = "start call with %s did not produce exactly one ClientHello" % label
        if what:
            ctx.violation(sig, what, {"part": "start_row", "kind": label})
            outcomes.add("BAD")
        else:
            outcomes.add("ignored")
    ctx.part("table.START", evaluations=cells, transitions=cells, states=1, outcomes=len(outcomes))
    return cells


def table_jobs():
    jobs = []
    for tv, states in LEGAL_PREFIXES.items():
        variant = tv.split("+")[0]
        kinds = CLIENT_VICTIM_KINDS if VARIANTS[variant]["role"] == "client" else SERVER_VICTIM_KINDS
        for st, prefix in states.items():
            for label in kinds:
                if label == "CH/badbinder" and variant != "s_psk":
                    continue
                jobs.append((variant, tuple(prefix) + (label,), "each"))
    return jobs


def table_eval(ctx, jobs, res):
    outcomes = {}
    impl_states = set()
    accept_cells = 0
    agree = differ = 0
    flights_checked = 0
    for (variant, hist, mode), r in res:
        if r["violation"] is not None:
            report(ctx, "table", variant, hist, mode, r["violation"])
        for o in r["outcomes"][-1:]:
            outcomes[o] = outcomes.get(o, 0) + 1
            if o.startswith("accepted"):
                accept_cells += 1
        agree += r["agree"]
        differ += r["differ"]
        if r["flight_ok"] is False:
            raise core.HarnessError("reftls could not verify the victim's own flight in %r %r" % (variant, hist))
        if r["flight_ok"]:
            flights_checked += 1
    # which implementation states did the legal prefixes reach?
    for tv, states in LEGAL_PREFIXES.items():
        for st in states:
            impl_states.add(REF_TO_IMPL[st])
    impl_states.add("CLIENT_HANDSHAKE_START")
    missing = set(tls.State.__members__) - impl_states
    if missing or set(REF_TO_IMPL.values()) != set(tls.State.__members__):
        raise core.HarnessError("tls.State members not covered by the table: %r" % sorted(missing))
    if (len(outcomes) < 3 or accept_cells < 10) and not (ctx.violations or ctx.known_hits):
        raise core.HarnessError("vacuous table: outcomes %r" % outcomes)
    ctx.part("table", evaluations=len(jobs), transitions=len(jobs),
             states=sum(len(s) for s in LEGAL_PREFIXES.values()),
             distinct_nontrivial=len(outcomes), outcome_histogram=outcomes,
             impl_states_covered=len(impl_states), secrets_agree=agree, secrets_differ=differ,
             victim_flights_verified_by_reftls=flights_checked)
    if differ:
        print("[C11] NOTE: %d released secrets differ from reftls's derivation (not judged by C11; "
              "see C03)" % differ)
    ctx.sample({"part": "table", "cell": list(jobs[len(jobs) // 2][1]), "variant": jobs[len(jobs) // 2][0]})


# -------------------------------------------------------------- part: selfcheck
def part_selfcheck(ctx):
    """Harness soundness, not part of the verdict.  On the legal handshake of every variant:
    (a) every message of the accepted transcript (victim's and adversary's) round-trips through
    the reftls codec byte-exactly, (b) reftls verified the victim's own Finished / signature,
    (c) the third-opinion derivation from the bare transcript (`derive_all_secrets`) equals the
    adversary's key schedule and every secret the victim released."""
    runs = msgs_rt = agree_total = 0
    for tv, states in LEGAL_PREFIXES.items():
        variant = tv.split("+")[0]
        role = VARIANTS[variant]["role"]
        hist = states.get("CONNECTED" if role == "client" else "S_CONNECTED")
        if not hist:
            continue
        w = World(variant).start()
        ok = True
        for label in hist:
            kind, kw = _resolve(w.kinds[label])
            raw = w.adv.make(kind, **kw)
            if w.feed(raw) is not None:
                ok = False   # reported by the table part as legal_refused
                break
            w.after_accept(label, raw)
        if not ok:
            continue
        runs += 1
        for m in w.adv.transcript:
            if R.parse_message(m).encode() != m:
                raise core.HarnessError("reftls codec does not round-trip a %s of %s"
                                        % (R.HANDSHAKE_TYPE_NAMES.get(m[0], m[0]), tv))
            msgs_rt += 1
        if _flight_ok(w) is False:
            raise core.HarnessError("reftls cannot verify the victim's flight in %s" % tv)
        if role == "client":
            third = R.derive_all_secrets(w.adv.transcript, private_key=w.adv.dh_private,
                                         private_key_role="server", psk=w.adv.selected_psk)
        else:
            third = R.derive_all_secrets(w.adv.transcript, private_key=w.adv.dh_privates[w.adv.group],
                                         private_key_role="client",
                                         psk=w.adv.offer_psk["psk"] if w.adv.psk_selected else None)
        for k, v in w.adv.secrets().items():
            if third.get(k) != v:
                raise core.HarnessError("derive_all_secrets disagrees with the adversary on %s in %s" % (k, tv))
        agree, differ = check_secrets(w)
        if differ:
            print("[C11] NOTE: %s: %d released secrets differ from reftls (not judged by C11)" % (tv, differ))
        agree_total += agree
        if variant == "s_psk" and not w.victim.session_resumed:
            raise core.HarnessError("s_psk: the server did not resume the offered session")
        if tv == "c_offered+psk" and not w.victim.session_resumed:
            raise core.HarnessError("c_offered+psk: the client did not resume")
    ctx.part("selfcheck", legal_handshakes=runs, messages_round_tripped=msgs_rt,
             released_secrets_equal_to_third_opinion=agree_total)


# ---------------------------------------------------------------- part: closure
_CLOSURE_VARIANT = [None]


def closure_expand(node):
    key, _, hist = node
    variant = _CLOSURE_VARIANT[0]
    kinds = CLIENT_VICTIM_KINDS if VARIANTS[variant]["role"] == "client" else SERVER_VICTIM_KINDS
    out = []
    for label in kinds:
        if label == "CH/badbinder" and variant != "s_psk":
            continue
        r = run_history(variant, hist + [label], "each")
        last = r["outcomes"][-1] if r["outcomes"] else None
        if r["violation"] is not None:
            v = r["violation"]
            out.append((label, None, None, (v["sig"], v["what"]), "BAD"))
        elif last == "accepted-optional":
            out.append((label, None, None, None, last))
        else:
            out.append((label, r["canon"], None, None, last))
    return out


def part_closure(ctx, workers):
    for variant in VARIANTS:
        _CLOSURE_VARIANT[0] = variant
        w = World(variant).start()
        res = explore.bfs([(w.canon(), None, [])], closure_expand, workers=1,
                          name="c11.closure." + variant, max_states=400)
        ctx.part("closure." + variant, states=res.states, transitions=res.transitions,
                 evaluations=res.transitions, max_depth=res.max_depth, closure=res.closed,
                 outcomes=len(res.outcomes), distinct_nontrivial=res.states)
        if len(res.outcomes) < 3 and not res.violations:
            raise core.HarnessError("closure.%s: vacuous (%r)" % (variant, res.outcomes))
        if not res.closed:
            ctx.cap("closure.%s not closed (%s)" % (variant, res.capped))
        seen = set()
        for sig, what, hist in res.violations:
            k = core.stable_hash(sig)
            if k in seen:
                continue
            seen.add(k)
            report(ctx, "closure", variant, hist, "each", dict(sig=sig, what=what, step=len(hist) - 1))
        for h in res.samples[:1]:
            ctx.sample({"part": "closure", "variant": variant, "history": h})


# -------------------------------------------------------------- part: sequences
def multiset_orderings(letters, mult, maxlen):
    """Every sequence over `letters` using each letter at most `mult` times, length <= maxlen,
    in length-lexicographic order (shortest first)."""
    out = []

    def rec(prefix, counts):
        out.append(tuple(prefix))
        if len(prefix) == maxlen:
            return
        for ltr in letters:
            if counts[ltr] < mult:
                counts[ltr] += 1
                rec(prefix + [ltr], counts)
                counts[ltr] -= 1

    rec([], {ltr: 0 for ltr in letters})
    out.sort(key=lambda s: (len(s), s))
    return out


def strengths(seq, alts):
    return itertools.product(*[alts.get(x, (x,)) for x in seq])


SEQ_WORLDS = {
    # name -> (variant, hello label, letters, alternatives, literal legal flights)
    "c_full": ("c_full", "SH", ("EE", "CR", "CERT", "CV", "FIN"),
               {"CV": ("CV", "CV/spare", "CV/untrusted"), "EE": ("EE", "EE/early", "EE/unk"), "CERT": ("CERT", "CERT/empty", "CERT/untrusted")},
               {("EE", "CERT", "CV", "FIN"), ("EE", "CR", "CERT", "CV", "FIN")}),
    "c_noverify": ("c_noverify", "SH", ("EE", "CERT", "CV", "FIN"), {"CV": ("CV", "CV/spare"), "CERT": ("CERT", "CERT/empty")},
                   {("EE", "CERT", "CV", "FIN")}),
    "c_offered_not_selected": ("c_offered", "SH", ("EE", "CR", "CERT", "CV", "FIN"), {"CV": ("CV", "CV/spare"), "EE": ("EE", "EE/early", "EE/unk"), "CERT": ("CERT", "CERT/empty")},
                               {("EE", "CERT", "CV", "FIN"), ("EE", "CR", "CERT", "CV", "FIN")}),
    "c_psk_selected": ("c_offered", "SH/psk0", ("EE", "CR", "CERT", "CV", "FIN"), {"CV": ("CV", "CV/spare"), "EE": ("EE", "EE/early", "EE/unk"), "CERT": ("CERT", "CERT/empty")},
                       {("EE", "FIN")}),
    "s_plain": ("s_plain", "CH", ("CERT", "CV", "FIN"),
                {"CV": ("CV", "CV/spare"), "CERT": ("CERT", "CERT/empty")}, {("FIN",)}),
    "s_req": ("s_req", "CH", ("CERT", "CV", "FIN"),
              {"CV": ("CV", "CV/spare"), "CERT": ("CERT", "CERT/empty")},
              {("CERT/empty", "FIN"), ("CERT", "CV", "FIN")}),
    "s_psk": ("s_psk", "CH", ("CERT", "CV", "FIN"),
              {"CV": ("CV", "CV/spare"), "CERT": ("CERT", "CERT/empty")}, {("FIN",)}),
}


def sequence_jobs(plan, extra_slice=None):
    """plan = [(mode, multiplicity, max length, EE flavours?)]; extra_slice = (mult, maxlen, k, n): quick tier
    adds the k-th of n slices of the thorough space (chosen by VERIF_SEED, mode "each").
    Returns {world name: (jobs, info)}."""
    out = {}
    for name, (variant, hello, letters, alts, legal) in SEQ_WORLDS.items():
        jobs = []
        base_seqs = []
        seqs = []
        seen_jobs = set()
        for mode, mult, maxlen, ee_flavours in plan:
            b_ = multiset_orderings(letters, mult, maxlen)
            a_ = dict(alts)
            if not ee_flavours:
                # flavours the victim MAY refuse or take (optional outcomes) only in the runs that judge
                # message by message
                a_.pop("EE", None)
                a_ = {k: tuple(x for x in v if not x.endswith("/untrusted")) for k, v in a_.items()}
            s_ = [s for b in b_ for s in strengths(b, a_)]
            if len(s_) > len(seqs):
                base_seqs, seqs = b_, s_
            for s in s_:
                j = (variant, (hello,) + s, mode)
                if j not in seen_jobs:
                    seen_jobs.add(j)
                    jobs.append(j)
        n_extra = 0
        if extra_slice is not None:
            emult, elen, k, n = extra_slice
            have = set(j[1] for j in jobs if j[2] == "each")
            a_ = dict(alts)
            a_.pop("EE", None)
            a_ = {k: tuple(x for x in v if not x.endswith("/untrusted")) for k, v in a_.items()}
            pool = [s for b in multiset_orderings(letters, emult, elen) for s in strengths(b, a_)]
            for i, s in enumerate(pool):
                if i % n == k and (hello,) + s not in have:
                    jobs.append((variant, (hello,) + s, "each"))
                    n_extra += 1
        modes = sorted(set(p[0] for p in plan))
        out[name] = (jobs, dict(base_seqs=len(base_seqs), seqs=len(seqs), n_extra=n_extra, modes=modes))
    return out


def sequences_eval(ctx, all_jobs, all_res):
    for name, (variant, hello, letters, alts, legal) in SEQ_WORLDS.items():
        jobs, info = all_jobs[name]
        res = all_res[name]
        n_extra, modes = info["n_extra"], info["modes"]
        finished_clean = set()
        finished_after_refusal = 0
        outcomes = set()
        finals = set()
        # one-call delivery is derived behaviour: its violations are only reported when the
        # message-by-message runs of this world are clean (same root cause otherwise)
        each_bad = any(r["violation"] is not None for (v, h, mode), r in res if mode == "each")
        for (v, hist, mode), r in res:
            if r["violation"] is not None:
                if mode == "each" or not each_bad:
                    report(ctx, "sequences", v, hist, mode, r["violation"], world=name)
                continue
            finals.add(r["canon"][0])
            outcomes.update(r["outcomes"])
            if r["finished"]:
                if r["refusals"] == 0:
                    finished_clean.add(hist[1:])
                else:
                    finished_after_refusal += 1
        # the literal statement, independent of the step-wise reference: the flights that make
        # the victim finish without any alert are exactly the legal ones
        # flavours of EncryptedExtensions the victim chose to accept are as good as the plain one
        tolerated = set(legal)
        for flight in legal:
            for fl in ("EE/early", "EE/unk"):
                tolerated.add(tuple(fl if x == "EE" else x for x in flight))
        extra = finished_clean - tolerated
        lacking = legal - finished_clean
        for s in sorted(extra, key=lambda s: (len(s), s)):
            ctx.violation({"monitor": "illegal_flight_finished", "role": VARIANTS[variant]["role"], "world": name,
                           "flight": list(s)},
                          "flight %r let the %s finish in world %s" % (list(s), VARIANTS[variant]["role"], name),
                          {"part": "sequences", "variant": variant, "history": [hello] + list(s), "mode": "each"})
        for s in sorted(lacking):
            ctx.violation({"monitor": "legal_flight_failed", "role": VARIANTS[variant]["role"], "world": name,
                           "flight": list(s)},
                          "legal flight %r did not complete in world %s" % (list(s), name),
                          {"part": "sequences", "variant": variant, "history": [hello] + list(s), "mode": "each"})
        if (len(finals) < 2 or len(outcomes) < 3) and not (ctx.violations or ctx.known_hits):
            raise core.HarnessError("sequences.%s vacuous: final states %r outcomes %r" % (name, finals, outcomes))
        ctx.part("sequences." + name, evaluations=len(jobs), transitions=sum(len(j[1]) for j in jobs),
                 base_sequences=info["base_seqs"], with_strengths=info["seqs"], modes=list(modes),
                 seed_slice_extra=n_extra,
                 flights_finishing_without_alert=len(finished_clean),
                 runs_finishing_after_refused_messages=finished_after_refusal,
                 distinct_final_states=len(finals), distinct_nontrivial=len(outcomes))
        ctx.sample({"part": "sequences", "world": name, "history": list(jobs[len(jobs) // 3][1]),
                    "mode": jobs[len(jobs) // 3][2]})


# ------------------------------------------------------------------- reporting
def report(ctx, part, variant, hist, mode, viol, world=None):
    """Replay the violating history twice in this process before reporting (different
    outcomes = harness nondeterminism, exit 2)."""
    sig = viol["sig"]
    hist = list(hist)[: viol.get("step", len(hist) - 1) + 1] if mode == "each" else list(hist)
    again = [run_history(variant, hist, mode)["violation"] for _ in range(2)]
    for a in again:
        if a is None or core.stable_hash(a["sig"]) != core.stable_hash(sig):
            raise core.HarnessError("violation %r on %r %r did not reproduce identically: %r"
                                    % (sig, variant, hist, a))
    ctx.violation(sig, viol["what"], {"part": part, "variant": variant, "history": hist, "mode": mode})


# ------------------------------------------------------------------------ main
def run(ctx):
    w = core.NCPU
    parts = ctx.only_parts or {"table", "closure", "sequences"}
    material()
    # tickets are obtained once, before forking, so that every worker shares them
    client_ticket()
    server_ticket()
    if ctx.tier == "quick":
        # (mode, multiplicity, max length, with EncryptedExtensions flavours?)
        plan = [("each", 1, 5, True), ("concat", 1, 5, False)]
        extra = (2, 6, ctx.seed % 16, 16)     # a seed-chosen 1/16 of the thorough space on top
    else:
        plan = [("each", 2, 5, True), ("each", 2, 6, False), ("concat", 2, 6, False)]
        extra = None
    mult = max(p[1] for p in plan)
    maxlen = max(p[2] for p in plan)
    modes = [p[0] for p in plan]
    # all replay jobs of the table and of the sequence worlds go through ONE fork pool
    tjobs = table_jobs() if "table" in parts else []
    sjobs = sequence_jobs(plan, extra) if "sequences" in parts else {}
    flat = list(tjobs)
    for name in sjobs:
        flat += sjobs[name][0]
    res = core.pmap(_job, flat, workers=w, chunksize=32)
    part_selfcheck(ctx)
    if "table" in parts:
        part_start_row(ctx)
        table_eval(ctx, tjobs, res[: len(tjobs)])
    if "closure" in parts:
        part_closure(ctx, w)
    if "sequences" in parts:
        pos = len(tjobs)
        sres = {}
        for name in sjobs:
            n = len(sjobs[name][0])
            sres[name] = res[pos: pos + n]
            pos += n
        sequences_eval(ctx, sjobs, sres)
    ctx.cov["rule"] = (
        "real tls.Context driven by a key-holding reftls adversary (valid MAC/signature/binder over "
        "the transcript as accepted): (1) every State x every handshake message kind, (2) BFS with all "
        "kinds to closure of the canonical state, (3) every ordering of every sub-multiset (multiplicity "
        "<= %d, length <= %d) of the server flight {EE,CR,Cert,CV(real|other key),Fin} and client flight "
        "{Cert(leaf|empty),CV(real|other key),Fin}, message-by-message and as one call; oracle = RFC 8446 "
        "next-message table + key-release ledger" % (mult, maxlen))
    ctx.cov["exhaustive"] = not ctx.caps_hit
    ctx.cov["bounds"] = {"multiplicity": mult, "max_flight_length": maxlen, "modes": list(modes),
                         "sequence_plan": [list(p) for p in plan],
                         "quick_seed_slice": list(extra) if extra else None,
                         "client_kinds": len(CLIENT_VICTIM_KINDS), "server_kinds": len(SERVER_VICTIM_KINDS),
                         "variants": sorted(LEGAL_PREFIXES)}
    ctx.assumptions += [
        "CLIENT_HANDSHAKE_START: handle_message() is the API's start trigger; the oracle there is "
        "'input is not processed now or later, no keys' instead of an alert",
        "KeyUpdate and EndOfEarlyData count as not permitted (RFC 9001 sections 6 and 8.3: QUIC "
        "forbids them); compressed_certificate is not permitted because the extension is never offered",
        "HelloRetryRequest is of a permitted type; support is optional, so only 'a refusal changes "
        "nothing' is demanded for it",
        "no early data is offered or accepted in any world (0-RTT keys are out of scope)",
        "which alert is raised for a message of a permitted type that fails verification is not judged",
        "the victim's own randomness (randoms, key shares) never enters a label or a signature of a finding",
        "confirmation pass through a real QUIC client was not built (vlib.refquic absent)",
    ]


def replay(ctx, obj):
    rp = obj["replay"]
    if rp.get("part") == "start_row":
        print("replaying start row for kind %s" % rp["kind"])
        n0 = len(ctx.violations)
        part_start_row(ctx)
        return 1 if len(ctx.violations) > n0 else 0
    variant, hist, mode = rp["variant"], list(rp["history"]), rp.get("mode", "each")
    print("replaying %s history %r (mode %s) on a fresh %s Context" % (variant, hist, mode, VARIANTS[variant]["role"]))
    trace = []
    r = run_history(variant, hist, mode, trace=trace)
    for line in trace:
        print(line)
    print("  final: state=%s finished=%s" % (r["canon"][0], r["finished"]))
    if r["violation"] is not None:
        print("VIOLATION property=C11 replay=(replayed)")
        print("  what: %s" % r["violation"]["what"])
        return 1
    sig = obj.get("signature", {})
    if sig.get("monitor") in ("illegal_flight_finished", "legal_flight_failed"):
        legal = SEQ_WORLDS[sig["world"]][4]
        clean = r["finished"] and r["refusals"] == 0
        bad = (clean and tuple(hist[1:]) not in legal) or (not clean and tuple(hist[1:]) in legal)
        if bad:
            print("VIOLATION property=C11 replay=(replayed)")
            return 1
    print("no violation on replay")
    return 0
