"""C09 - a live connection always has a timer; closing always terminates (once).

World: NetSim; engine: deviation-bounded DFS (E1).  Scripts = C01-style transfers
with close() inserted at every position on either endpoint, fatal errors provoked
by the peer, idle timeouts, simultaneous closes.  Oracle: TimerMonitor.
"""
from vlib import core, netcheck, netsim
from vlib.monitors import TimerMonitor

LEVEL = "model_checking"
V1, V2 = netsim.V1, netsim.V2


def W(sid, n, fin=False, g="hs"):
    return {"op": "w", "sid": sid, "n": n, "fin": fin, "g": g}


def CLOSE(g="hs", code=0, reason="bye"):
    return {"op": "close", "code": code, "reason": reason, "g": g}


BASE = {
    "echo": {"c": [W(0, 2500, True)], "s": [W(0, 700, True, g=("rxfin", 0))]},
    "bulk_both": {"c": [W(0, 5000, True), {"op": "ping", "uid": 1}], "s": [W(1, 5000, True)]},
}


def scripts():
    out = {}
    # close() at every script position of either endpoint (incl. before the first flight is answered)
    for bname, base in BASE.items():
        for side in ("c", "s"):
            ops = base.get(side, [])
            for pos in range(len(ops) + 1):
                for g in (("now",) if pos == 0 else ()) + ("hs",):
                    sc = {k: [dict(o) for o in v] for k, v in base.items()}
                    sc.setdefault(side, [])
                    sc[side] = sc[side][:pos] + [CLOSE(g=g)] + sc[side][pos:]
                    out["close:%s:%s@%d:%s" % (bname, side, pos, g)] = sc
    # close when some data has arrived / mid transfer
    out["close:c_after_rx"] = {"c": [W(0, 2500, True), CLOSE(g=("rx", 0, 1))], "s": [W(0, 3000, True, g=("rx", 0, 1))]}
    out["close:s_mid_rx"] = {"c": [W(0, 6000, True)], "s": [CLOSE(g=("rx", 0, 1200), code=7, reason="x" * 40)]}
    # server closes while its anti-amplification budget is exhausted (big certificate chain)
    out["close:bigchain_s_now"] = {"c": [W(0, 100)], "s": [CLOSE(g="now")]}
    out["close:bigchain_s_hs"] = {"c": [W(0, 100)], "s": [CLOSE(g="hs")]}
    out["close:both"] = {"c": [W(0, 100), CLOSE()], "s": [W(1, 100), CLOSE()]}
    out["close:both_now"] = {"c": [CLOSE(g="now")], "s": [CLOSE(g="now")]}
    # fatal protocol error provoked through the public API of the peer is not possible; use
    # flow-control violation by configuration instead: server advertises tiny limits and the
    # harness client honours them, so no error; errors come from the C05/C07 worlds.
    # idle: nothing is scripted after the transfer; the run continues to the idle deadline
    out["idle:after_echo"] = {"c": [W(0, 500, True)], "s": [W(0, 500, True, g=("rxfin", 0))]}
    out["idle:handshake_only"] = {"c": [], "s": []}
    # total blackout with data outstanding (PTO back-off), then close() / idle
    out["blackout:close_after_ptos"] = {"c": [W(0, 3000, True), W(4, 100, g=("t", 0.05)), CLOSE(g=("t", 2.0))],
                                        "s": [W(1, 3000, True)]}
    # the client's address changes mid-connection (scripted NAT rebinding at 0.6 s) while it keeps talking
    # every 0.5 s for longer than the idle period; then silence until the idle deadline
    out["idle:migrated_chatty"] = {"c": [W(0, 100)] + [W(0, 100, g=("t", 0.5 * i)) for i in range(1, 10)],
                                   "s": [W(1, 100, g=("rx", 0, 100 * i)) for i in range(1, 10, 3)]}
    out["idle:migrated_then_quiet"] = {"c": [W(0, 100), W(0, 100, g=("t", 0.5)), W(0, 100, True, g=("t", 1.0))], "s": []}
    out["blackout:idle"] = {"c": [W(0, 3000, True), W(4, 100, g=("t", 0.05))], "s": [W(1, 3000, True)]}
    return out


SCRIPTS = scripts()


def goal(w):
    return False  # run until both endpoints terminated (or horizon)


def factory(sc):
    if "ops" in sc:
        kw = {"max_steps": 900, "horizon": 100.0, "deviations": tuple(sc.get("dev", ("drop",)))}
        return netsim.resolve_tickets(dict(sc["cfg"])), sc["ops"], [TimerMonitor()], kw, goal
    cfg = dict(sc.get("cfg", {}))
    name = sc["script"]
    if "bigchain" in name:
        cfg.setdefault("chain", "bigchain")
    if name.startswith("idle"):
        cfg.setdefault("idle", 3.0)
        if "migrated" in name:
            cfg.setdefault("rebind_at", 0.6)
    elif name.startswith("blackout"):
        cfg.setdefault("idle", 8.0)
        cfg.setdefault("blackout_from", 0.045)
    else:
        cfg.setdefault("idle", 20.0)
    kw = {"max_steps": 400, "horizon": 100.0, "deviations": tuple(sc.get("dev", ("drop", "dup", "duplate", "delay", "late", "hold")))}
    return cfg, SCRIPTS[name], [TimerMonitor()], kw, goal


netcheck.register("c09", factory)


def sig_extra(sig, sid, devs):
    s = dict(sig)
    s["script_class"] = sid.split(":")[0]
    return s


def first_datagram_case(args):
    """'From the first datagram ... the connection always names a finite next timer deadline': any
    first datagram handed to a fresh server connection - also one that is dropped - must leave a
    finite timer, and firing it must lead to exactly one termination event."""
    lo, hi = args
    from checks import c05

    items = c05.raw_menu(c05.make_bot("server_fresh"), "quick")[lo:hi]
    out = {"n": 0, "viol": [], "outcomes": set()}
    for label, data in items:
        bot = c05.make_bot("server_fresh")
        E = bot.E
        out["n"] += 1
        try:
            bot.feed(data)
            t = E.conn.get_timer()
            if t is None and E.terminated is None:
                out["viol"].append(({"monitor": "timer.none_after_first_datagram"},
                                    "fresh server: get_timer() is None after first datagram %s (%d bytes)"
                                    % (label, len(data)), label, data.hex()[:200]))
                continue
            n = 0
            while E.terminated is None and n < 10:
                t = E.conn.get_timer()
                if t is None:
                    out["viol"].append(({"monitor": "timer.none_while_alive", "state": E.conn._state.name},
                                        "fresh server lost its timer after %d firings following %s" % (n, label),
                                        label, data.hex()[:200]))
                    break
                try:
                    bot.timer()
                except core.HarnessError:
                    raise
                except Exception as e:  # noqa - the exception itself is C05's business; what it leaves behind is ours
                    out["outcomes"].add(("exception", type(e).__name__))
                    if E.terminated is None and E.conn.get_timer() is None:
                        out["viol"].append(({"monitor": "timer.none_while_alive", "state": E.conn._state.name,
                                             "after_exception": type(e).__name__},
                                            "fresh server after first datagram %s: firing the timer raised %s and left the "
                                            "connection in state %s without a timer and without a termination event - it "
                                            "waits forever" % (label, type(e).__name__, E.conn._state.name),
                                            label, data.hex()[:200]))
                        break
                n += 1
            terms = [e for e in E.events if type(e).__name__ == "ConnectionTerminated"]
            if len(terms) > 1:
                out["viol"].append(({"monitor": "close.terminated_twice"}, "two termination events after %s" % label,
                                    label, data.hex()[:200]))
            out["outcomes"].add((E.conn._state.name, n))
        except core.HarnessError:
            raise
        except Exception as e:  # noqa  (C05's business; keep C09 going)
            out["outcomes"].add(("exception", type(e).__name__))
    return out


def run_first_datagram(ctx):
    from checks import c05

    n = len(c05.raw_menu(c05.make_bot("server_fresh"), "quick"))
    tasks = [(lo, min(n, lo + 80)) for lo in range(0, n, 80)]
    res = core.pmap(first_datagram_case, tasks)
    outcomes = set()
    seen = set()
    total = 0
    for r in res:
        total += r["n"]
        outcomes |= r["outcomes"]
        for sig, what, label, hx in r["viol"]:
            k = core.stable_hash(sig)
            if k in seen:
                continue
            seen.add(k)
            ctx.violation(sig, what, {"part": "first_datagram", "label": label, "data_hex": hx})
    ctx.part("fresh_server_first_datagram", evaluations=total, states=total, transitions=total * 2,
             distinct_nontrivial=len(outcomes))


def run(ctx):
    quick = ctx.tier == "quick"
    run_first_datagram(ctx)
    sc = {}
    for name in SCRIPTS:
        sc[name + "|v1"] = {"script": name, "cfg": {}}
    if not quick:
        for name in SCRIPTS:
            sc[name + "|v2cubic"] = {"script": name, "cfg": {"version": V2, "cc": "cubic"}}
    else:
        names = sorted(SCRIPTS)
        for i, name in enumerate(names):
            if i % 4 == ctx.seed % 4:
                sc[name + "|v2cubic"] = {"script": name, "cfg": {"version": V2, "cc": "cubic"}}
    # compatible version negotiation (the client starts in v1, both prefer v2): Initial keys change mid-handshake
    for name in ("hs_only",) if quick and "hs_only" in SCRIPTS else [n for n in SCRIPTS if n in ("hs_only", "echo", "pingpong")]:
        sc[name + "|compat"] = {"script": name, "cfg": {"version": V1, "c_supported": [V2, V1], "s_supported": [V2, V1]}}
    # endings the handshake itself decides: no common version after Version Negotiation, no common ALPN (the
    # server's alert), a certificate the client does not trust (the client's alert) - "a fatal error" of the
    # property that needs no misbehaving peer
    fatal = {}
    ops = {"c": [W(0, 100)], "s": []}
    for vname, ver in (("v1", V1), ("v2", V2)):
        fatal["fatal:vn_no_common_version|" + vname] = {"ops": ops, "cfg": {"vn": True, "version": ver, "c_supported": [ver], "idle": 5.0}}
        fatal["fatal:no_common_alpn|" + vname] = {"ops": ops, "cfg": {"version": ver, "s_alpn": ["other"], "idle": 5.0}}
        fatal["fatal:untrusted_certificate|" + vname] = {"ops": ops, "cfg": {"version": ver, "chain": "otherleaf", "idle": 5.0}}
    for k in fatal:
        fatal[k]["dev"] = ("drop", "dup", "delay", "late", "hold")
    netcheck.explore_scenarios(ctx, "c09", fatal, 1, "fatal_handshake_endings_d1",
                               sig_extra=lambda sig, sid, devs: dict(sig, script_class="fatal"))
    agg = netcheck.explore_scenarios(ctx, "c09", sc, 1, "d1", sig_extra=sig_extra)
    from vlib import cfgpairs

    netcheck.explore_scenarios(ctx, "c09", cfgpairs.scenarios(ctx.seed), 1, "config_pairs_d1",
                               sig_extra=lambda sig, sid, devs: dict(sig, script_class="pairs"))
    if not quick:
        sc2 = {k: v for k, v in sc.items() if k.endswith("|v1")}
        netcheck.explore_scenarios(ctx, "c09", sc2, 2, "d2", sig_extra=sig_extra)
    else:
        keys = sorted(k for k in sc if k.endswith("|v1"))
        pick = {k + "|d2": dict(sc[k], dev=("drop", "delay", "late")) for i, k in enumerate(keys)
                if i % 8 == ctx.seed % 8}
        netcheck.explore_scenarios(ctx, "c09", pick, 2, "d2", sig_extra=sig_extra)
    if len(agg["outcomes"]) < 3:
        raise core.HarnessError("vacuous exploration")
    ctx.cov["rule"] = (
        "deviation-bounded DFS over NetSim: close() inserted at every position of two base scripts on "
        "either endpoint (before the first flight, mid-handshake, with data outstanding), simultaneous "
        "closes, idle periods; every schedule with <= d deviations (drop, dup, delay, late timers); "
        "TimerMonitor after every API call: finite get_timer() while alive, deadline <= start + 3 PTO, "
        "exactly one ConnectionTerminated, only closing packets, nothing after termination")
    ctx.cov["exhaustive"] = not ctx.caps_hit
    ctx.cov["bounds"] = {"scenarios": len(sc), "deviation_bound": "1 (all), 2 (subset)"}
    ctx.assumptions += ["PTO at the start of closing is read from the connection's recovery object",
                        "fatal protocol errors and peer closes in Initial/Handshake space are exercised by the "
                        "PeerBot-based checks (C05/C07), which apply the same API-totality oracle"]


def replay(ctx, obj):
    if obj["replay"].get("part") == "first_datagram":
        from checks import c05

        bot = c05.make_bot("server_fresh")
        bot.feed(bytes.fromhex(obj["replay"]["data_hex"]))
        t = bot.E.conn.get_timer()
        print("get_timer() after first datagram:", t)
        if t is None and bot.E.terminated is None:
            print("VIOLATION property=C09 replay=(replayed): timer is None")
            return 1
        return 0
    v = netcheck.replay("c09", obj)
    if v:
        print("VIOLATION property=C09 replay=(replayed): %s" % v[1])
        return 1
    print("no violation on replay")
    return 0
