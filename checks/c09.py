"""C09 - a live connection always has a timer; closing always terminates (once).

World: NetSim; engine: deviation-bounded DFS (E1).  Scripts = C01-style transfers
with close() inserted at every position on either endpoint, fatal errors provoked
by the peer, idle timeouts, simultaneous closes.  Oracle: TimerMonitor.
"""
from vlib import core, netcheck, netsim
from vlib.monitors import TimerMonitor

LEVEL = "model_checking"
V1, V2 = netsim.V1, netsim.V2


def W(sid, n, fin=False, g="hs"):
    return {"op": "w", "sid": sid, "n": n, "fin": fin, "g": g}


def CLOSE(g="hs", code=0, reason="bye"):
    return {"op": "close", "code": code, "reason": reason, "g": g}


BASE = {
    "echo": {"c": [W(0, 2500, True)], "s": [W(0, 700, True, g=("rxfin", 0))]},
    "bulk_both": {"c": [W(0, 5000, True), {"op": "ping", "uid": 1}], "s": [W(1, 5000, True)]},
}


def scripts():
    out = {}
    # close() at every script position of either endpoint (incl. before the first flight is answered)
    for bname, base in BASE.items():
        for side in ("c", "s"):
            ops = base.get(side, [])
            for pos in range(len(ops) + 1):
                for g in (("now",) if pos == 0 else ()) + ("hs",):
                    sc = {k: [dict(o) for o in v] for k, v in base.items()}
                    sc.setdefault(side, [])
                    sc[side] = sc[side][:pos] + [CLOSE(g=g)] + sc[side][pos:]
                    out["close:%s:%s@%d:%s" % (bname, side, pos, g)] = sc
    # close when some data has arrived / mid transfer
    out["close:c_after_rx"] = {"c": [W(0, 2500, True), CLOSE(g=("rx", 0, 1))], "s": [W(0, 3000, True, g=("rx", 0, 1))]}
    out["close:s_mid_rx"] = {"c": [W(0, 6000, True)], "s": [CLOSE(g=("rx", 0, 1200), code=7, reason="x" * 40)]}
    out["close:both"] = {"c": [W(0, 100), CLOSE()], "s": [W(1, 100), CLOSE()]}
    out["close:both_now"] = {"c": [CLOSE(g="now")], "s": [CLOSE(g="now")]}
    # fatal protocol error provoked through the public API of the peer is not possible; use
    # flow-control violation by configuration instead: server advertises tiny limits and the
    # harness client honours them, so no error; errors come from the C05/C07 worlds.
    # idle: nothing is scripted after the transfer; the run continues to the idle deadline
    out["idle:after_echo"] = {"c": [W(0, 500, True)], "s": [W(0, 500, True, g=("rxfin", 0))]}
    out["idle:handshake_only"] = {"c": [], "s": []}
    # total blackout with data outstanding (PTO back-off), then close() / idle
    out["blackout:close_after_ptos"] = {"c": [W(0, 3000, True), W(4, 100, g=("t", 0.05)), CLOSE(g=("t", 2.0))],
                                        "s": [W(1, 3000, True)]}
    out["blackout:idle"] = {"c": [W(0, 3000, True), W(4, 100, g=("t", 0.05))], "s": [W(1, 3000, True)]}
    return out


SCRIPTS = scripts()


def goal(w):
    return False  # run until both endpoints terminated (or horizon)


def factory(sc):
    cfg = dict(sc.get("cfg", {}))
    name = sc["script"]
    if name.startswith("idle"):
        cfg.setdefault("idle", 3.0)
    elif name.startswith("blackout"):
        cfg.setdefault("idle", 8.0)
        cfg.setdefault("blackout_from", 0.045)
    else:
        cfg.setdefault("idle", 20.0)
    kw = {"max_steps": 400, "horizon": 100.0, "deviations": tuple(sc.get("dev", ("drop", "dup", "duplate", "delay", "late")))}
    return cfg, SCRIPTS[name], [TimerMonitor()], kw, goal


netcheck.register("c09", factory)


def sig_extra(sig, sid, devs):
    s = dict(sig)
    s["script_class"] = sid.split(":")[0]
    return s


def run(ctx):
    quick = ctx.tier == "quick"
    sc = {}
    for name in SCRIPTS:
        sc[name + "|v1"] = {"script": name, "cfg": {}}
    if not quick:
        for name in SCRIPTS:
            sc[name + "|v2cubic"] = {"script": name, "cfg": {"version": V2, "cc": "cubic"}}
    else:
        names = sorted(SCRIPTS)
        for i, name in enumerate(names):
            if i % 4 == ctx.seed % 4:
                sc[name + "|v2cubic"] = {"script": name, "cfg": {"version": V2, "cc": "cubic"}}
    agg = netcheck.explore_scenarios(ctx, "c09", sc, 1, "d1", sig_extra=sig_extra)
    if not quick:
        sc2 = {k: v for k, v in sc.items() if k.endswith("|v1")}
        netcheck.explore_scenarios(ctx, "c09", sc2, 2, "d2", sig_extra=sig_extra)
    else:
        keys = sorted(k for k in sc if k.endswith("|v1"))
        pick = {k + "|d2": dict(sc[k], dev=("drop", "delay", "late")) for i, k in enumerate(keys)
                if i % 8 == ctx.seed % 8}
        netcheck.explore_scenarios(ctx, "c09", pick, 2, "d2", sig_extra=sig_extra)
    if len(agg["outcomes"]) < 3:
        raise core.HarnessError("vacuous exploration")
    ctx.cov["rule"] = (
        "deviation-bounded DFS over NetSim: close() inserted at every position of two base scripts on "
        "either endpoint (before the first flight, mid-handshake, with data outstanding), simultaneous "
        "closes, idle periods; every schedule with <= d deviations (drop, dup, delay, late timers); "
        "TimerMonitor after every API call: finite get_timer() while alive, deadline <= start + 3 PTO, "
        "exactly one ConnectionTerminated, only closing packets, nothing after termination")
    ctx.cov["exhaustive"] = not ctx.caps_hit
    ctx.cov["bounds"] = {"scenarios": len(sc), "deviation_bound": "1 (all), 2 (subset)"}
    ctx.assumptions += ["PTO at the start of closing is read from the connection's recovery object",
                        "fatal protocol errors and peer closes in Initial/Handshake space are exercised by the "
                        "PeerBot-based checks (C05/C07), which apply the same API-totality oracle"]


def replay(ctx, obj):
    v = netcheck.replay("c09", obj)
    if v:
        print("VIOLATION property=C09 replay=(replayed): %s" % v[1])
        return 1
    print("no violation on replay")
    return 0
