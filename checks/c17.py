"""C17 - wire codecs round-trip and agree with an independent codec.

Engine E3: exhaustive enumeration of finite grammars (printed per part) on the real
aioquic codec functions.  Oracles (as worded in the property):
 (1) pull(push(v)) == v
 (2) push(v) is byte-identical to vlib.refcodec (written from the RFCs) and pull of the
     reference encoding gives the same value
 (3) arbitrary bytes (every length field of every encoding replaced by
     {0,1,true-1,true+1,max}; every prefix): documented parse error, or a value v with
     pull(push(v)) == v
 (4) the strict nested-length reference decoder rejects because an inner item extends past its
     enclosing declared length, aioquic accepts, and the read trace of aioquic shows that it
     consumed bytes beyond that declared length as part of the field.
Out-of-domain integers are recorded, not judged.
"""
import itertools
import os
from collections import Counter

from vlib import build, core
from vlib import refcodec as R

LEVEL = "exploration"

from aioquic import tls  # noqa: E402
from aioquic.buffer import (  # noqa: E402
    Buffer,
    BufferReadError,
    encode_uint_var,
    size_uint_var,
)
from aioquic.quic import packet as P  # noqa: E402
from aioquic.quic.packet_builder import QuicPacketBuilder  # noqa: E402
from aioquic.quic.rangeset import RangeSet  # noqa: E402

SRC_PREFIX = os.path.join(build.REPO, "src", "aioquic")
VARINT_BOUNDS = [0, 1, 63, 64, 16383, 16384, (1 << 30) - 1, 1 << 30, (1 << 62) - 1]


# ===================================================================== plumbing
def jenc(o):
    """JSON-able, reversible encoding of nested bytes/tuples/dicts (replay files)."""
    if isinstance(o, (bytes, bytearray)):
        return {"hex": bytes(o).hex()}
    if isinstance(o, tuple):
        return {"tuple": [jenc(x) for x in o]}
    if isinstance(o, list):
        return [jenc(x) for x in o]
    if isinstance(o, dict):
        return {"dict": [[jenc(k), jenc(v)] for k, v in o.items()]}
    return o


def jdec(o):
    if isinstance(o, dict):
        if "hex" in o:
            return bytes.fromhex(o["hex"])
        if "tuple" in o:
            return tuple(jdec(x) for x in o["tuple"])
        if "dict" in o:
            return {jdec(k): jdec(v) for k, v in o["dict"]}
    if isinstance(o, list):
        return [jdec(x) for x in o]
    return o


def innermost(exc):
    """Qualified name of the innermost aioquic function on the traceback."""
    name = "?"
    tb = exc.__traceback__
    while tb is not None:
        code = tb.tb_frame.f_code
        if code.co_filename.startswith(SRC_PREFIX):
            name = getattr(code, "co_qualname", code.co_name)
        tb = tb.tb_next
    return name


class Acc:
    """Per-worker accumulator (picklable)."""

    def __init__(self):
        self.cases = Counter()  # codec -> valid cases
        self.inputs = Counter()  # codec -> arbitrary byte strings decoded
        self.values = {}  # codec -> set(hash of value repr)
        self.outcomes = Counter()
        self.viol = {}  # sigkey -> (rank, sig, what, replay)
        self.notes = Counter()
        self.examples = {}
        self.samples = []

    def value(self, codec, v):
        self.values.setdefault(codec, set()).add(hash(repr(v)))

    def violation(self, sig, what, replay, rank=0):
        k = core.stable_hash(sig)
        old = self.viol.get(k)
        if old is None or rank < old[0]:
            self.viol[k] = (rank, sig, what, replay)

    def example(self, key, obj):
        self.examples.setdefault(key, obj)

    def merge(self, o):
        self.cases.update(o.cases)
        self.inputs.update(o.inputs)
        for k, s in o.values.items():
            self.values.setdefault(k, set()).update(s)
        self.outcomes.update(o.outcomes)
        self.notes.update(o.notes)
        for k, v in o.viol.items():
            if k not in self.viol or v[0] < self.viol[k][0]:
                self.viol[k] = v
        for k, v in o.examples.items():
            self.examples.setdefault(k, v)
        if len(self.samples) < 4:
            self.samples += o.samples[: 4 - len(self.samples)]


class TraceBuf:
    """Forwarding proxy around a real Buffer that records the span of every read."""

    def __init__(self, data):
        self._b = Buffer(data=data)
        self.reads = []

    def _rd(self, name, *a):
        s = self._b.tell()
        v = getattr(self._b, name)(*a)
        self.reads.append((s, self._b.tell()))
        return v

    def pull_bytes(self, n):
        return self._rd("pull_bytes", n)

    def pull_uint8(self):
        return self._rd("pull_uint8")

    def pull_uint16(self):
        return self._rd("pull_uint16")

    def pull_uint32(self):
        return self._rd("pull_uint32")

    def pull_uint64(self):
        return self._rd("pull_uint64")

    def pull_uint_var(self):
        return self._rd("pull_uint_var")

    def tell(self):
        return self._b.tell()

    def eof(self):
        return self._b.eof()

    def seek(self, pos):
        return self._b.seek(pos)

    def data_slice(self, a, b):
        return self._b.data_slice(a, b)

    @property
    def capacity(self):
        return self._b.capacity

    @property
    def data(self):
        return self._b.data


class NoEncoder(Exception):
    """The decoded value lies outside what the only available encoder can produce."""


class Codec:
    """Adapter: one aioquic pull/push pair + its reference."""

    name = "?"
    push_name = "?"
    documented = (ValueError,)  # BufferReadError is a ValueError

    def pull(self, buf):  # buf: Buffer or TraceBuf -> native value
        raise NotImplementedError

    def push(self, v):  # native value -> bytes
        raise NotImplementedError

    def refdec(self, data):  # strict reference decode; raises R.RefReject
        raise NotImplementedError

    def equal(self, a, b):
        return a == b

    def params(self):
        return {}


def judge_bytes(acc, cd, data, base=None, lie=None, origin=""):
    """Oracles (3) and (4) on one byte string.  base: the unmutated encoding (or None);
    lie: (field dict, lie value) when data is base with one length field replaced.
    Returns the decoded value or None."""
    acc.inputs[cd.name] += 1
    def rp():
        return dict(kind="bytes", codec=cd.name, params=cd.params(), data=bytes(data).hex(), origin=origin,
                    base=None if base is None else bytes(base).hex(),
                    lie=None if lie is None else [lie[0]["pos"], lie[0]["size"], lie[0]["value"], lie[1]])

    rank = len(data)
    try:
        v = cd.pull(Buffer(data=bytes(data)))
    except cd.documented as e:
        acc.outcomes["%s:reject:%s" % (cd.name, type(e).__name__)] += 1
        return None
    except Exception as e:  # noqa
        acc.outcomes["%s:raise:%s" % (cd.name, type(e).__name__)] += 1
        acc.violation(
            dict(oracle="undocumented_exception", codec=cd.name, exc=type(e).__name__, where=innermost(e)),
            "%s raised %s (%s) in %s on %d bytes %s [%s]; documented parse errors are %s"
            % (cd.name, type(e).__name__, e, innermost(e), len(data), bytes(data[:48]).hex(), origin,
               "/".join(x.__name__ for x in cd.documented)),
            rp(), rank)
        return None
    acc.outcomes["%s:accept" % cd.name] += 1
    # (3) the value must re-encode to an equivalent encoding
    try:
        again = cd.push(v)
    except NoEncoder:
        acc.notes["%s:reencode_unavailable" % cd.name] += 1
        again = None
    except Exception as e:  # noqa
        again = None
        acc.violation(
            dict(oracle="decoded_value_not_encodable", codec=cd.name, push=cd.push_name,
                 exc=type(e).__name__, where=innermost(e)),
            "%s accepted %d bytes [%s] but %s of the decoded value raised %s (%s): %r"
            % (cd.name, len(data), origin, cd.push_name, type(e).__name__, e, v),
            rp(), rank)
    if again is not None:
        try:
            v2 = cd.pull(Buffer(data=again))
            same = cd.equal(v, v2)
        except Exception as e:  # noqa
            v2, same = "%s: %s" % (type(e).__name__, e), False
        if not same:
            acc.violation(
                dict(oracle="reencode_not_equivalent", codec=cd.name, push=cd.push_name),
                "%s accepted %d bytes [%s] -> %r; %s of it decodes to %r" % (cd.name, len(data), origin, v, cd.push_name, v2),
                rp(), rank)
    # (4) strict nested-length reference
    try:
        cd.refdec(bytes(data))
        acc.outcomes["%s:ref_accept" % cd.name] += 1
    except R.RefReject as rej:
        acc.outcomes["%s:lenient_accept:%s" % (cd.name, rej.kind)] += 1
        if rej.kind == "overrun":
            hit = read_past(cd, data, rej, v, base, lie)
            if hit is not None:
                acc.violation(
                    dict(oracle="read_past_declared_length", codec=cd.name, field=field_class(rej.window.get("name", ""))),
                    "%s accepted %d bytes [%s] although %s: %s; reference: %s"
                    % (cd.name, len(data), origin, rej.window.get("name"), hit, rej.msg),
                    rp(), rank)
            else:
                acc.notes["%s:overrun_not_attributable" % cd.name] += 1
    return v


def field_class(name):
    return "extension" if name.startswith("extension 0x") else (name.split(" ")[0] or "?")


def read_past(cd, data, rej, v1, base, lie):
    """Evidence that the accepted parse consumed bytes beyond a declared length, or None."""
    tb = TraceBuf(bytes(data))
    try:
        vt = cd.pull(tb)
    except Exception as e:  # noqa
        raise core.HarnessError("traced pull differs from plain pull: %r" % e)
    if not cd.equal(vt, v1):
        raise core.HarnessError("traced pull returned a different value")
    w = rej.window
    fpos, fsize = w["field"]
    S, E = w["start"], w["end"]
    if (fpos, fpos + fsize) not in tb.reads:
        return None  # aioquic did not pull that length field as one item: not comparable
    for a, b in tb.reads:
        if S <= a < E < b:
            return "declared length %d covers bytes [%d,%d) but one item was read from [%d,%d)" % (E - S, S, E, a, b)
    if lie is not None and base is not None and lie[0]["pos"] == fpos and lie[1] < lie[0]["value"]:
        try:
            v0 = cd.pull(Buffer(data=bytes(base)))
        except Exception:  # noqa
            return None
        if cd.equal(v0, v1) and any(a >= E for a, b in tb.reads):
            return ("declared length changed from %d to %d yet the same value was decoded: bytes [%d,%d) "
                    "beyond the declared length were consumed as its content" % (lie[0]["value"], lie[1], E, S + lie[0]["value"]))
    return None


def arbitrary(acc, cd, enc, window=None, origin="", do_lies=True, do_cuts=True):
    """All length lies and all truncations of one reference encoding."""
    if do_lies:
        for i, f in enumerate(enc.fields):
            for lv in R.lie_values(f):
                judge_bytes(acc, cd, R.apply_lie(enc, f, lv), base=enc, lie=(f, lv),
                            origin="%s lie %s@%d: %d->%d" % (origin, f["name"], f["pos"], f["value"], lv))
    if do_cuts:
        for n in R.cuts(enc, window):
            judge_bytes(acc, cd, enc[:n], base=enc, origin="%s cut %d/%d" % (origin, n, len(enc)))


def differ(acc, oracle, codec, what, replay, rank=0, **extra):
    acc.violation(dict(oracle=oracle, codec=codec, **extra), what, replay, rank)


# ===================================================================== part: integers
def int_values():
    vals = set()
    for c in (0, 1 << 6, 1 << 7, 1 << 8, 1 << 14, 1 << 16, 1 << 30, 1 << 32, 1 << 62, 1 << 64):
        for d in range(-2, 3):
            vals.add(c + d)
    for k in range(0, 65):
        vals.add(1 << k)
    vals |= {0x0102, 0x01020304, 0x0102030405060708, 0x0102030405060708 & R.VARINT_MAX}
    return sorted(vals)


FIXED = {8: ("push_uint8", "pull_uint8"), 16: ("push_uint16", "pull_uint16"),
         32: ("push_uint32", "pull_uint32"), 64: ("push_uint64", "pull_uint64")}


def work_ints(item):
    acc = Acc()
    what = item[0]
    if what == "values":
        for v in int_values():
            for bits, (pushn, pulln) in FIXED.items():
                _int_case(acc, pushn, pulln, v, 0 <= v < (1 << bits), lambda: R.enc_uint(v, bits // 8))
            _int_case(acc, "push_uint_var", "pull_uint_var", v, 0 <= v <= R.VARINT_MAX, lambda: R.enc_varint(v))
            # helpers in buffer.py
            rp = dict(kind="int", fn="size_uint_var", value=v)
            if 0 <= v <= R.VARINT_MAX:
                acc.cases["size_uint_var"] += 1
                for fn, got, exp in (("size_uint_var", _try(size_uint_var, v), R.varint_size(v)),
                                     ("encode_uint_var", _try(encode_uint_var, v), R.enc_varint(v))):
                    if got != exp:
                        differ(acc, "encoder_differs_from_reference", fn, "%s(%d) = %r, reference %r" % (fn, v, got, exp),
                               dict(rp, fn=fn))
                # every permitted (non-minimal) size decodes to the same value
                for size in (1, 2, 4, 8):
                    if size >= R.varint_size(v):
                        data = R.enc_varint(v, size)
                        b = Buffer(data=data)
                        got = _try(b.pull_uint_var)
                        acc.inputs["pull_uint_var"] += 1
                        if got != v or b.tell() != size:
                            differ(acc, "decoder_differs_from_reference", "pull_uint_var",
                                   "pull_uint_var(%s) = %r at %d, reference %d at %d" % (data.hex(), got, b.tell(), v, size),
                                   dict(kind="varint_bytes", data=data.hex()))
            else:
                for fn in (size_uint_var, encode_uint_var):
                    got = _try(fn, v)
                    key = "%s:out_of_domain:%s" % (fn.__name__, "raised" if isinstance(got, str) else "silent")
                    acc.notes[key] += 1
                    acc.example(key, "%s(%d) -> %r" % (fn.__name__, v, got))
    elif what == "two_bytes":
        lo, hi = item[1], item[2]
        for x in range(lo, hi):
            _varint_bytes(acc, x.to_bytes(2, "big"))
    elif what == "first_bytes":
        for first in range(256):
            for total in range(0, 9):
                for fill in (0x00, 0xFF, 0xA5):
                    if total == 0:
                        if first or fill:
                            continue
                        _varint_bytes(acc, b"")
                    else:
                        _varint_bytes(acc, bytes([first]) + bytes([fill]) * (total - 1))
    return acc


def _try(fn, *a):
    try:
        return fn(*a)
    except Exception as e:  # noqa
        return "%s: %s" % (type(e).__name__, e)


def _int_case(acc, pushn, pulln, v, in_domain, refenc):
    rp = dict(kind="int", fn=pushn, value=v)
    buf = Buffer(capacity=16)
    if not in_domain:
        got = _try(getattr(buf, pushn), v)
        if isinstance(got, str):
            key = "%s:out_of_domain:raised" % pushn
            acc.example(key, "%s(%d) -> %s" % (pushn, v, got))
        else:
            key = "%s:out_of_domain:silent" % pushn
            acc.example(key, "%s(%d) silently wrote %s" % (pushn, v, buf.data.hex()))
        acc.notes[key] += 1
        return
    acc.cases[pushn] += 1
    acc.value(pushn, v)
    exp = refenc()
    err = _try(getattr(buf, pushn), v)
    data = buf.data
    if err is not None or data != exp:
        differ(acc, "encoder_differs_from_reference", pushn,
               "%s(%d) wrote %s (%r), reference %s" % (pushn, v, data.hex(), err, exp.hex()), rp)
        return
    # pull of the reference encoding, followed by a sentinel byte that must stay unread
    b = Buffer(data=exp + b"\x5a")
    got = _try(getattr(b, pulln))
    acc.outcomes["%s:ok" % pulln] += 1
    if got != v or b.tell() != len(exp):
        differ(acc, "roundtrip", pulln, "%s(%s) = %r (pos %d), pushed %d" % (pulln, exp.hex(), got, b.tell(), v), rp)


def _varint_bytes(acc, data):
    acc.inputs["pull_uint_var"] += 1
    rp = dict(kind="varint_bytes", data=data.hex())
    b = Buffer(data=data)
    try:
        got = b.pull_uint_var()
        used = b.tell()
    except BufferReadError:
        got = used = None
    except Exception as e:  # noqa
        differ(acc, "undocumented_exception", "pull_uint_var", "pull_uint_var(%s) raised %r" % (data.hex(), e), rp,
               exc=type(e).__name__)
        return
    try:
        exp, eused = R.dec_varint(data)
    except R.RefReject:
        exp = eused = None
    acc.outcomes["pull_uint_var:%s" % ("reject" if got is None else "size%d" % used)] += 1
    if (got, used) != (exp, eused):
        differ(acc, "decoder_differs_from_reference", "pull_uint_var",
               "pull_uint_var(%s) = %r using %r bytes, reference %r using %r" % (data.hex(), got, used, exp, eused), rp,
               len(data))
        return
    if got is not None:
        acc.value("pull_uint_var", got)
        b2 = Buffer(capacity=8)
        b2.push_uint_var(got)
        if Buffer(data=b2.data).pull_uint_var() != got:
            differ(acc, "reencode_not_equivalent", "pull_uint_var", "value %d from %s does not survive re-encoding" % (got, data.hex()), rp)


def items_ints(ctx):
    step = 4096
    return [("values",), ("first_bytes",)] + [("two_bytes", lo, lo + step) for lo in range(0, 65536, step)]


# ===================================================================== part: ACK frames
class AckCodec(Codec):
    name = "pull_ack_frame"
    push_name = "push_ack_frame"

    def pull(self, buf):
        rs, delay = P.pull_ack_frame(buf)
        return (tuple((r.start, r.stop) for r in rs), delay)

    def push(self, v):
        ranges, delay = v
        buf = Buffer(capacity=64 + 16 * len(ranges))
        P.push_ack_frame(buf, RangeSet([range(a, b) for a, b in ranges]), delay)
        return buf.data

    def refdec(self, data):
        rs, delay, _ = R.dec_ack(data)
        return (tuple(rs), delay)


ACK = AckCodec()
ACK_BASES = [0, (1 << 14) - 5, (1 << 30) - 5]


def enc_ack_with_fields(ranges, delay):
    """Reference encoding in which every count-like varint (range count, first range, gaps,
    range lengths) is a mutable field."""
    e = R.enc_ack(ranges, delay)
    fields = []
    pos = 0
    for i in itertools.count():
        if pos >= len(e):
            break
        v, npos = R.dec_varint(e, pos)
        if i >= 2:
            fields.append(dict(pos=pos, size=npos - pos, kind="varint", value=v,
                               name="count" if i == 2 else ("first_range" if i == 3 else ("gap" if i % 2 == 0 else "range_len"))))
        pos = npos
    return R.Enc(e, fields)


import inspect as _inspect  # noqa: E402

_ACK_HAS_MAX_RANGES = "max_ranges" in _inspect.signature(P.push_ack_frame).parameters


def work_ack(item):
    acc = Acc()
    masks, bases, delays, arb_delays = item
    for mask in masks:
        pns = [i for i in range(10) if mask >> i & 1]
        for base in bases:
            ranges = tuple((a + base, b + base) for a, b in R.ranges_of(pns))
            for delay in delays:
                acc.cases[ACK.push_name] += 1
                v = (ranges, delay)
                acc.value(ACK.name, v)
                rp = dict(kind="ack", ranges=[list(r) for r in ranges], delay=delay)
                ref = enc_ack_with_fields(ranges, delay)
                buf = Buffer(capacity=256)
                n = _try(P.push_ack_frame, buf, RangeSet([range(a, b) for a, b in ranges]), delay)
                got = buf.data
                if isinstance(n, str):
                    differ(acc, "undocumented_exception", ACK.push_name, "push_ack_frame(%r, delay=%d) raised %s" % (ranges, delay, n),
                           rp, len(ranges), exc=n.split(":")[0])
                    continue
                if got != ref:
                    differ(acc, "encoder_differs_from_reference", ACK.push_name,
                           "push_ack_frame(%r, delay=%d) = %s, reference %s" % (ranges, delay, got.hex(), bytes(ref).hex()),
                           rp, len(ranges))
                if n != len(ranges):
                    differ(acc, "roundtrip", ACK.push_name, "push_ack_frame returned %r for %d ranges" % (n, len(ranges)), rp)
                # max_ranges=k: only the k ranges with the highest packet numbers are written; the frame
                # must be exactly what the reference writes for that smaller set
                if _ACK_HAS_MAX_RANGES and delay == delays[0]:
                    for k in range(1, len(ranges) + 2):
                        kept = ranges[-k:]
                        ref_k = enc_ack_with_fields(kept, delay)
                        buf = Buffer(capacity=256)
                        n = _try(P.push_ack_frame, buf, RangeSet([range(a, b) for a, b in ranges]), delay, k)
                        acc.cases[ACK.push_name] += 1
                        rpk = dict(rp, max_ranges=k)
                        if isinstance(n, str):
                            differ(acc, "undocumented_exception", ACK.push_name,
                                   "push_ack_frame(%r, delay=%d, max_ranges=%d) raised %s" % (ranges, delay, k, n),
                                   rpk, len(ranges), exc=n.split(":")[0])
                        elif buf.data != ref_k or n != len(kept):
                            differ(acc, "encoder_differs_from_reference", ACK.push_name,
                                   "push_ack_frame(%r, delay=%d, max_ranges=%d) = %s (returned %r), reference for the "
                                   "%d highest ranges %s" % (ranges, delay, k, buf.data.hex(), n, len(kept), bytes(ref_k).hex()),
                                   rpk, len(ranges))
                for src, data in (("own", got), ("reference", bytes(ref))):
                    b = Buffer(data=data + b"\x5a")
                    back = _try(ACK.pull, b)
                    if back != v or b.tell() != len(data):
                        differ(acc, "roundtrip" if src == "own" else "decoder_differs_from_reference", ACK.name,
                               "pull_ack_frame(%s encoding %s) = %r (pos %d), value %r" % (src, data.hex(), back, b.tell(), v),
                               rp, len(ranges))
                if ACK.refdec(bytes(ref)) != v:
                    raise core.HarnessError("reference ACK codec does not round-trip")
                if delay in arb_delays:
                    arbitrary(acc, ACK, ref, origin="ack %r d=%d" % (ranges, delay))
    return acc


def items_ack(ctx):
    masks = list(range(1, 1024))
    if ctx.tier == "quick":
        arb = {0: tuple(VARINT_BOUNDS), ACK_BASES[1]: (0, 64, 16384), ACK_BASES[2]: (64, (1 << 62) - 1)}
        extra = [(b, d) for b in ACK_BASES for d in VARINT_BOUNDS]
        eb, ed = extra[ctx.seed % len(extra)]
    else:
        arb = {b: tuple(VARINT_BOUNDS) for b in ACK_BASES}
        eb = ed = None
    items = []
    for lo in range(0, len(masks), 64):
        for base in ACK_BASES:
            a = tuple(arb[base]) + ((ed,) if base == eb else ())
            items.append((masks[lo : lo + 64], [base], VARINT_BOUNDS, a))
    return items


# ===================================================================== part: headers
VERS = {"v1": 0x00000001, "v2": 0x6B3343CF}
PTYPE = {"INITIAL": P.QuicPacketType.INITIAL, "ZERO_RTT": P.QuicPacketType.ZERO_RTT,
         "HANDSHAKE": P.QuicPacketType.HANDSHAKE, "RETRY": P.QuicPacketType.RETRY,
         "VERSION_NEGOTIATION": P.QuicPacketType.VERSION_NEGOTIATION, "ONE_RTT": P.QuicPacketType.ONE_RTT}
PNAME = {v: k for k, v in PTYPE.items()}
TOKEN_LENS = [0, 1, 63, 64, 16383]
LENGTHS = [20, 63, 64, 65, 16382, 16383]  # value of the Length field (pn 2 + payload + tag 16)
LENGTHS_OVER = [16384, 16385, 32768]  # beyond the 2-byte Length the builder always writes
PNS = [0, 255, 256, 65535, 65536 + 7]


def cid(n, seed):
    return bytes(((seed + 7 * i) & 0xFF) | 1 for i in range(n))


def blob(n, seed=0x30):
    return bytes((seed + i) & 0xFF for i in range(n))


class NullCrypto:
    """Identity 'encryption' that records the plain header (the narrowest way to obtain the
    header bytes the real QuicPacketBuilder writes)."""

    key_phase = 0

    def __init__(self, tag=16, key_phase=0):
        self.aead_tag_size = tag
        self.key_phase = key_phase
        self.calls = []

    def encrypt_packet(self, plain_header, plain_payload, packet_number):
        self.calls.append((bytes(plain_header), len(plain_payload), packet_number))
        return bytes(plain_header) + bytes(plain_payload) + bytes(self.aead_tag_size)


def build_packet(version, ptype, dcid, scid, token, length, pn, tag=16, spin=False, key_phase=0):
    """Drive the real QuicPacketBuilder; -> (datagram, plain header bytes)."""
    payload = length - 2 - tag
    if payload < 2:
        raise NoEncoder("payload %d too small for the packet builder" % payload)
    size = 64 + len(dcid) + len(scid) + len(token) + length
    builder = QuicPacketBuilder(host_cid=scid, peer_cid=dcid, version=version, is_client=False,
                                max_datagram_size=max(size, 256), packet_number=pn, peer_token=token,
                                spin_bit=spin)
    crypto = NullCrypto(tag, key_phase)
    builder.start_packet(PTYPE[ptype], crypto)
    buf = builder.start_frame(P.QuicFrameType.PADDING)
    buf.push_bytes(bytes(payload - 1))
    datagrams, packets = builder.flush()
    if len(datagrams) != 1 or len(crypto.calls) != 1:
        raise core.HarnessError("builder produced %d datagrams" % len(datagrams))
    return datagrams[0], crypto.calls[0][0]


def hdr_tuple(h):
    return (h.version, PNAME[h.packet_type], h.packet_length, h.destination_cid, h.source_cid, h.token,
            h.integrity_tag, tuple(h.supported_versions))


class HeaderCodec(Codec):
    name = "pull_quic_header"
    push_name = "QuicPacketBuilder/encode_quic_retry/encode_quic_version_negotiation"

    def __init__(self, host_cid_length=None):
        self.host_cid_length = host_cid_length

    def params(self):
        return {"host_cid_length": self.host_cid_length}

    def pull(self, buf):
        return hdr_tuple(P.pull_quic_header(buf, host_cid_length=self.host_cid_length))

    def push(self, v):
        version, ptype, plen, dcid, scid, token, tag, versions = v
        if ptype == "VERSION_NEGOTIATION":
            return P.encode_quic_version_negotiation(source_cid=scid, destination_cid=dcid, supported_versions=list(versions))
        if ptype == "RETRY":
            return P.encode_quic_retry(version=version, source_cid=scid, destination_cid=dcid,
                                       original_destination_cid=b"", retry_token=token)
        if ptype == "ONE_RTT":
            length = plen - 1 - len(dcid)
            if length < 4:
                raise NoEncoder("short packet of %d bytes" % plen)
            return build_packet(None, ptype, dcid, b"", b"", length, 0, tag=0)[0]
        if version not in VERS.values():
            raise NoEncoder("version 0x%x" % version)
        hl = 7 + len(dcid) + len(scid) + (R.varint_size(len(token)) + len(token) if ptype == "INITIAL" else 0)
        # pull_quic_header reports header + Length; find the Length the builder must write
        for lsize in (2, 1, 4, 8):
            length = plen - hl - lsize
            if lsize == 2:
                break
        if not 4 <= length <= 16383:
            raise NoEncoder("Length %d cannot be written by the packet builder" % length)
        return build_packet(version, ptype, dcid, scid, token, length, 0, tag=0)[0]

    def equal(self, a, b):
        if a[1] == "RETRY" and b[1] == "RETRY":
            return a[:6] == b[:6] and a[7] == b[7]  # the tag depends on the (external) ODCID
        if a[1] in ("INITIAL", "ZERO_RTT", "HANDSHAKE") and a[1] == b[1]:
            # the builder always writes a 2-byte Length: compare modulo the size of that field
            return a[:2] == b[:2] and a[3:] == b[3:] and abs(a[2] - b[2]) in (0, 1, 2, 6)
        return a == b

    def refdec(self, data):
        h = R.dec_header(data, short_dcid_len=self.host_cid_length)
        return (h["version"], h["ptype"], h["packet_len"], h["dcid"], h["scid"], h["token"], h["tag"], tuple(h["versions"]))


HDR = HeaderCodec()


def long_case(acc, ver, ptype, dl, sl, tl, length, pn, arb, window=24):
    version = VERS[ver]
    dcid, scid, token = cid(dl, 0x11), cid(sl, 0x83), blob(tl)
    rp = dict(kind="long", ver=ver, ptype=ptype, dl=dl, sl=sl, tl=tl, length=length, pn=pn)
    over = length > 16383
    acc.cases["header:" + ptype] += 1
    try:
        dgram, header = build_packet(version, ptype, dcid, scid, token, length, pn)
    except Exception as e:  # noqa
        if over:
            acc.notes["header:length_over_16383:raised"] += 1
            acc.example("header:length_over_16383:raised", "%r -> %s: %s" % (rp, type(e).__name__, e))
            return
        differ(acc, "undocumented_exception", "QuicPacketBuilder", "builder raised %r for %r" % (e, rp), rp, exc=type(e).__name__)
        return
    ref = R.enc_long_header(version, ptype, dcid, scid, token, length=length, pn=pn, pn_len=2,
                            length_size=2 if not over else None)
    value = (version, ptype, len(dgram), dcid, scid, token, b"", ())
    acc.value(HDR.name, (ver, ptype, dl, sl, tl, length, pn))
    rank = dl + sl + tl + length
    got = _try(HDR.pull, Buffer(data=dgram))
    if over:
        # the builder writes Length with push_uint16(length | 0x4000).  Not judged: the real CryptoPair refuses any
        # packet above 1500 bytes (_crypto.c PACKET_LENGTH_MAX), so such a packet cannot leave the real builder.
        ok = got == value
        key = "header:length_over_16383:%s" % ("roundtrip_ok" if ok else "silently_corrupt")
        acc.notes[key] += 1
        acc.example(key, "%r: header %s..., pull -> %r" % (rp, header[-6:].hex(), got if isinstance(got, str) else got[2]))
        return
    if header != ref:
        differ(acc, "encoder_differs_from_reference", "QuicPacketBuilder",
               "%s %s header %s, reference %s" % (ver, ptype, header[:40].hex(), bytes(ref[:40]).hex()), rp, rank, ptype=ptype, ver=ver)
    if got != value:
        differ(acc, "roundtrip", HDR.name, "pull_quic_header(built %s %s) = %r, built from %r" % (ver, ptype, got, value), rp, rank,
               ptype=ptype, ver=ver)
    # reference encoding of the same packet (header + payload + tag); also with a minimal Length
    body = dgram[len(header):]
    for lsize in (2, None):
        renc = R.enc_long_header(version, ptype, dcid, scid, token, length=length, pn=pn, pn_len=2, length_size=lsize)
        full = bytes(renc) + body
        exp = (version, ptype, len(full), dcid, scid, token, b"", ())
        got = _try(HDR.pull, Buffer(data=full + b"\x5a\x5a"))
        if got != exp or HDR.refdec(full) != exp:
            differ(acc, "decoder_differs_from_reference", HDR.name,
                   "pull_quic_header(reference %s %s, Length in %r bytes) = %r, expected %r" % (ver, ptype, lsize, got, exp),
                   rp, rank, ptype=ptype, ver=ver)
    if arb:
        enc = R.Enc(bytes(ref) + body, ref.fields)
        arbitrary(acc, HDR, enc, window=window, origin="%s %s cid %d/%d token %d len %d" % (ver, ptype, dl, sl, tl, length))


def short_case(acc, dl, spin, kp, payload, pn, arb):
    dcid = cid(dl, 0x21)
    rp = dict(kind="short", dl=dl, spin=spin, kp=kp, payload=payload, pn=pn)
    acc.cases["header:ONE_RTT"] += 1
    cd = HeaderCodec(dl)
    dgram, header = build_packet(None, "ONE_RTT", dcid, cid(8, 0x55), b"", payload + 2 + 16, pn, spin=bool(spin), key_phase=kp)
    ref = R.enc_short_header(dcid, pn=pn, pn_len=2, spin=spin, key_phase=kp)
    acc.value(HDR.name, ("short", dl, spin, kp, payload, pn))
    if header != ref:
        differ(acc, "encoder_differs_from_reference", "QuicPacketBuilder", "short header %s, reference %s" % (header.hex(), bytes(ref).hex()),
               rp, dl, ptype="ONE_RTT")
    exp = (None, "ONE_RTT", len(dgram), dcid, b"", b"", b"", ())
    got = _try(cd.pull, Buffer(data=dgram))
    if got != exp or cd.refdec(dgram) != exp:
        differ(acc, "roundtrip", HDR.name, "pull_quic_header(short) = %r, expected %r" % (got, exp), rp, dl, ptype="ONE_RTT")
    if arb:
        arbitrary(acc, cd, R.Enc(dgram), window=24, origin="short dcid %d" % dl)


def retry_case(acc, ver, dl, sl, ol, tl, unused, arb):
    version = VERS[ver]
    dcid, scid, odcid, token = cid(dl, 0x11), cid(sl, 0x83), cid(ol, 0x39), blob(tl)
    rp = dict(kind="retry", ver=ver, dl=dl, sl=sl, ol=ol, tl=tl, unused=unused)
    acc.cases["header:RETRY"] += 1
    acc.value(HDR.name, ("retry", ver, dl, sl, ol, tl, unused))
    got = P.encode_quic_retry(version=version, source_cid=scid, destination_cid=dcid,
                              original_destination_cid=odcid, retry_token=token, unused=unused)
    ref = R.enc_retry(version, scid, dcid, odcid, token, unused)
    rank = dl + sl + ol + tl
    if got != ref:
        differ(acc, "encoder_differs_from_reference", "encode_quic_retry",
               "encode_quic_retry(%s) = ...%s, reference ...%s" % (rp, got[-20:].hex(), bytes(ref[-20:]).hex()), rp, rank, ver=ver)
    tag = _try(P.get_retry_integrity_tag, bytes(ref[:-16]), odcid, version)
    if tag != R.retry_integrity_tag(bytes(ref[:-16]), odcid, version):
        differ(acc, "encoder_differs_from_reference", "get_retry_integrity_tag", "tag %r differs from RFC 9001 5.8 reference" % (tag,), rp, rank, ver=ver)
    exp = (version, "RETRY", len(ref), dcid, scid, token, bytes(ref[-16:]), ())
    back = _try(HDR.pull, Buffer(data=bytes(ref)))
    if back != exp or HDR.refdec(bytes(ref)) != exp:
        differ(acc, "roundtrip", HDR.name, "pull_quic_header(Retry) = %r, expected %r" % (back, exp), rp, rank, ptype="RETRY", ver=ver)
    if arb:
        arbitrary(acc, HDR, ref, window=24, origin="retry %s cid %d/%d token %d" % (ver, dl, sl, tl))


VN_VERSIONS = [0x00000001, 0x6B3343CF, 0x0A0A0A0A, 0xFF00001D]


def vn_case(acc, dl, sl, nv, arb):
    dcid, scid = cid(dl, 0x11), cid(sl, 0x83)
    versions = VN_VERSIONS[:nv]
    rp = dict(kind="vn", dl=dl, sl=sl, nv=nv)
    acc.cases["header:VERSION_NEGOTIATION"] += 1
    acc.value(HDR.name, ("vn", dl, sl, nv))
    got = P.encode_quic_version_negotiation(source_cid=scid, destination_cid=dcid, supported_versions=versions)
    ref = R.enc_version_negotiation(scid, dcid, versions)
    # the 7 low bits of the first byte are unused and randomised (RFC 9000 17.2.1)
    if not got[0] & 0x80 or got[1:] != ref[1:]:
        differ(acc, "encoder_differs_from_reference", "encode_quic_version_negotiation",
               "encode_quic_version_negotiation = %s, reference %s" % (got.hex(), bytes(ref).hex()), rp, dl + sl + nv)
    exp = (0, "VERSION_NEGOTIATION", len(ref), dcid, scid, b"", b"", tuple(versions))
    for data in (got, bytes(ref)):
        back = _try(HDR.pull, Buffer(data=data))
        if back != exp or HDR.refdec(data) != exp:
            differ(acc, "roundtrip", HDR.name, "pull_quic_header(VN) = %r, expected %r" % (back, exp), rp, dl + sl + nv,
                   ptype="VERSION_NEGOTIATION")
    if arb:
        arbitrary(acc, HDR, ref, origin="vn cid %d/%d n %d" % (dl, sl, nv))


ARB_PAIRS = [(0, 0), (0, 20), (20, 0), (20, 20), (8, 8), (1, 1), (5, 0), (0, 5), (19, 20)]


def _guard(acc, fn, *a, **kw):
    """An exception escaping an aioquic encoder/decoder on a *valid* case is a finding, not a harness error."""
    try:
        fn(acc, *a, **kw)
    except (core.HarnessError, NoEncoder):
        raise
    except Exception as e:  # noqa
        differ(acc, "undocumented_exception", innermost(e), "%s%r: %s: %s" % (fn.__name__, a, type(e).__name__, e),
               dict(kind="guard", fn=fn.__name__, args=jenc(list(a) + list(kw.values()))), 0, exc=type(e).__name__)


def work_headers(item):
    acc = Acc()
    kind = item[0]
    thorough = item[-1]
    if kind == "long":
        _, ver, dl = item[:3]
        k = 0
        for sl in range(21):
            pair = (dl, sl) in ARB_PAIRS
            for ptype in ("INITIAL", "ZERO_RTT", "HANDSHAKE"):
                for tl in (TOKEN_LENS if ptype == "INITIAL" else [0]):
                    for length in LENGTHS + (LENGTHS_OVER if pair else []):
                        k += 1
                        arb = (length in (20, 64) and tl <= 1) or pair or (thorough and tl <= 64)
                        if tl == 16383 and not (pair and (dl, sl) in ARB_PAIRS[:4 if thorough else 2]):
                            arb = False
                        _guard(acc, long_case, ver, ptype, dl, sl, tl, length, PNS[k % len(PNS)], arb)
    elif kind == "short":
        for dl in range(21):
            for spin in (0, 1):
                for kp in (0, 1):
                    for payload in (2, 3, 63, 64, 1200):
                        _guard(acc, short_case, dl, spin, kp, payload, PNS[(dl + payload) % len(PNS)], arb=payload in (2, 64) or thorough)
    elif kind == "retry":
        _, ver, dl = item[:3]
        for sl in range(21):
            _guard(acc, retry_case, ver, dl, sl, 8, 1, 0, arb=True)
            if (dl, sl) in ARB_PAIRS:
                for tl in TOKEN_LENS:
                    for ol in range(21):
                        for unused in (0, 0x0F):
                            _guard(acc, retry_case, ver, dl, sl, ol, tl, unused,
                                       arb=(ol in (0, 8, 20) and unused == 0 and (tl < 16383 or (dl, sl) in ARB_PAIRS[:2] or thorough)))
    elif kind == "vn":
        dl = item[1]
        for sl in range(21):
            for nv in range(5):
                _guard(acc, vn_case, dl, sl, nv, arb=True)
    return acc


def items_headers(ctx):
    th = ctx.tier == "thorough"
    items = [("short", th)]
    for dl in range(21):
        items.append(("vn", dl, th))
        for ver in VERS:
            items.append(("long", ver, dl, th))
            items.append(("retry", ver, dl, th))
    return items


# ===================================================================== part: transport parameters
# id -> QuicTransportParameters field, written from RFC 9000 18.2 / RFC 9221 / RFC 9368 names
TP_NAME = {
    0x00: "original_destination_connection_id", 0x01: "max_idle_timeout", 0x02: "stateless_reset_token",
    0x03: "max_udp_payload_size", 0x04: "initial_max_data", 0x05: "initial_max_stream_data_bidi_local",
    0x06: "initial_max_stream_data_bidi_remote", 0x07: "initial_max_stream_data_uni",
    0x08: "initial_max_streams_bidi", 0x09: "initial_max_streams_uni", 0x0A: "ack_delay_exponent",
    0x0B: "max_ack_delay", 0x0C: "disable_active_migration", 0x0D: "preferred_address",
    0x0E: "active_connection_id_limit", 0x0F: "initial_source_connection_id",
    0x10: "retry_source_connection_id", 0x11: "version_information", 0x20: "max_datagram_frame_size",
    0x0C37: "quantum_readiness",
}
TP_IDS = sorted(TP_NAME)
UNKNOWN_IDS = [0x12, 0x3F, 0x40, 0x21, 27 + 31 * 5, 0x3FFFFFFFFFFFFFBE]  # the last one is a 31*N+27 GREASE id


def ip4s(b):
    return ".".join(str(x) for x in b)


def ip6s(b):
    import ipaddress

    return str(ipaddress.IPv6Address(bytes(b)))


def pa_variants():
    out = []
    for v4 in (False, True):
        for v6 in (False, True):
            for cl in (0, 1, 20):
                out.append(dict(
                    ipv4=(bytes([192, 0, 2, 33]), 4433) if v4 else (bytes(4), 0),
                    ipv6=(bytes.fromhex("20010db8000000000000000000000001"), 443) if v6 else (bytes(16), 0),
                    cid=cid(cl, 0x61), token=blob(16, 0xD0)))
    return out


def tp_value_sets():
    """id -> list of reference values (first = default, full list for singletons)."""
    out = {}
    for pid in TP_IDS:
        kind = R.TP_KIND[pid]
        if kind == "int":
            out[pid] = list(VARINT_BOUNDS)
        elif kind == "flag":
            out[pid] = [True]
        elif kind == "preferred_address":
            out[pid] = pa_variants()
        elif kind == "version_information":
            out[pid] = [(0x00000001, VN_VERSIONS[1 : 1 + n]) for n in range(4)]
        elif pid == 0x02:
            out[pid] = [blob(16, 0xA0)]
        elif pid == 0x0C37:
            out[pid] = [blob(n, 0x51) for n in (0, 1, 255, 256, 1200)]
        else:
            out[pid] = [cid(n, 0x71 + pid) for n in (0, 1, 8, 20)]
    return out


def tp_native(items):
    """Reference item list -> QuicTransportParameters (the harness side of the adapter)."""
    tp = P.QuicTransportParameters()
    for pid, v in items:
        kind = R.TP_KIND[pid]
        if kind == "preferred_address":
            v = P.QuicPreferredAddress(
                ipv4_address=None if v["ipv4"][0] == bytes(4) else (ip4s(v["ipv4"][0]), v["ipv4"][1]),
                ipv6_address=None if v["ipv6"][0] == bytes(16) else (ip6s(v["ipv6"][0]), v["ipv6"][1]),
                connection_id=v["cid"], stateless_reset_token=v["token"])
        elif kind == "version_information":
            v = P.QuicVersionInformation(chosen_version=v[0], available_versions=list(v[1]))
        setattr(tp, TP_NAME[pid], v)
    return tp


class TPCodec(Codec):
    name = "pull_quic_transport_parameters"
    push_name = "push_quic_transport_parameters"

    def pull(self, buf):
        return P.pull_quic_transport_parameters(buf)

    def push(self, v):
        buf = Buffer(capacity=8192)
        P.push_quic_transport_parameters(buf, v)
        return buf.data

    def refdec(self, data):
        return R.dec_transport_parameters(data)

    def view(self, data):
        """Reference decode mapped onto QuicTransportParameters (unknown ids dropped)."""
        return tp_native([(pid, v) for pid, kind, v in R.dec_transport_parameters(data) if kind != "unknown"])


TP = TPCodec()


def tp_case(acc, items, arb, unknown=None, origin=""):
    """items: [(id, refvalue)] ascending ids.  unknown: list of (position, id, body)."""
    acc.cases[TP.push_name] += 1
    native = tp_native(items)
    acc.value(TP.name, native)
    rp = dict(kind="tp", items=jenc(items), unknown=jenc(unknown))
    rank = len(items) * 100 + sum(len(repr(v)) for _, v in items)
    ref = R.enc_transport_parameters(items)
    got = _try(TP.push, native)
    if got != ref:
        differ(acc, "encoder_differs_from_reference", TP.push_name,
               "push_quic_transport_parameters(%r) = %s, reference %s" % (native, got if isinstance(got, str) else got.hex(), bytes(ref).hex()),
               rp, rank)
    back = _try(TP.pull, Buffer(data=bytes(ref)))
    if back != native:
        differ(acc, "roundtrip", TP.name, "pull_quic_transport_parameters(%s) = %r, pushed %r" % (bytes(ref).hex(), back, native), rp, rank)
    if TP.view(bytes(ref)) != native:
        raise core.HarnessError("reference transport parameter codec does not round-trip: %r" % (items,))
    encs = [("", ref)]
    if unknown:
        mixed = list(items)
        for pos, uid, body in sorted(unknown, key=lambda u: -u[0]):
            mixed.insert(min(pos, len(mixed)), (uid, body))
        renc = R.enc_transport_parameters(mixed)
        back = _try(TP.pull, Buffer(data=bytes(renc)))
        if back != native:
            differ(acc, "decoder_differs_from_reference", TP.name,
                   "with unknown ids interleaved: pull(%s) = %r, expected %r" % (bytes(renc).hex(), back, native), rp, rank, input="unknown_ids")
        encs.append(("+unknown", renc))
    if arb:
        for tag, e in encs:
            arbitrary(acc, TP, e, window=24, origin="tp%s %s" % (tag, origin or [hex(i) for i, _ in items]))


def tp_cases(tier, seed):
    vs = tp_value_sets()
    cases = []
    # empty set, singletons with every value
    cases.append(([], True, None))
    for pid in TP_IDS:
        for v in vs[pid]:
            cases.append(([(pid, v)], True, None))
    # pairs: 3 representative values each
    def rep(pid):
        v = vs[pid]
        return [v[0], v[len(v) // 2], v[-1]] if len(v) >= 3 else v
    pairs = []
    for a, b in itertools.combinations(TP_IDS, 2):
        for va in rep(a):
            for vb in rep(b):
                pairs.append(([(a, va), (b, vb)], False, None))
    for i, c in enumerate(pairs):
        arb = True
        cases.append((c[0], arb, None))
    if tier == "thorough":
        for a, b, c in itertools.combinations(TP_IDS, 3):
            for va in (vs[a][0], vs[a][-1]):
                for vb in (vs[b][0], vs[b][-1]):
                    for vc in (vs[c][0], vs[c][-1]):
                        cases.append(([(a, va), (b, vb), (c, vc)], True, None))
    # full set: every integer at the same boundary, x preferred address x version information
    for bi in range(len(VARINT_BOUNDS)):
        for pa_i, pa in enumerate(vs[0x0D]):
            for vi_i, vi in enumerate(vs[0x11]):
                if tier == "quick" and not (pa_i in (0, 11) or vi_i == 3 and pa_i % 4 == 1):
                    continue
                items = []
                for pid in TP_IDS:
                    kind = R.TP_KIND[pid]
                    if kind == "int":
                        items.append((pid, VARINT_BOUNDS[bi]))
                    elif pid == 0x0D:
                        items.append((pid, pa))
                    elif pid == 0x11:
                        items.append((pid, vi))
                    else:
                        items.append((pid, vs[pid][min(bi % 4, len(vs[pid]) - 1)]))
                arb = tier == "thorough" or (pa_i in (0, 11) and vi_i in (0, 3))
                cases.append((items, arb, None))
    # unknown ids interleaved (decoding): every position x id kind x body size, on a 3-parameter base
    base = [(0x01, 30000), (0x0C, True), (0x0F, cid(8, 0x77))]
    for pos in range(4):
        for uid in UNKNOWN_IDS:
            for n in (0, 1, 64):
                cases.append((base, True, [(pos, uid, blob(n, 0x90))]))
    cases.append((base, True, [(0, UNKNOWN_IDS[0], b""), (1, UNKNOWN_IDS[2], b"x"), (2, UNKNOWN_IDS[5], blob(64)), (3, UNKNOWN_IDS[3], b"yz")]))
    full = cases[[i for i, c in enumerate(cases) if len(c[0]) == len(TP_IDS)][0]][0]
    cases.append((full, True, [(i, UNKNOWN_IDS[i % 6], blob(i % 3, 0x90)) for i in range(0, 21, 2)]))
    return cases


def work_tp(item):
    acc = Acc()
    tier, seed, lo, hi = item
    for items, arb, unknown in tp_cases(tier, seed)[lo:hi]:
        _guard(acc, tp_case, items, arb, unknown)
    return acc


def items_tp(ctx):
    n = len(tp_cases(ctx.tier, ctx.seed))
    step = 40
    return [(ctx.tier, ctx.seed, lo, min(n, lo + step)) for lo in range(0, n, step)]


# ===================================================================== part: TLS handshake messages
TLS_FN = {
    "CH": ("pull_client_hello", "push_client_hello"), "SH": ("pull_server_hello", "push_server_hello"),
    "EE": ("pull_encrypted_extensions", "push_encrypted_extensions"), "CT": ("pull_certificate", "push_certificate"),
    "CR": ("pull_certificate_request", "push_certificate_request"), "CV": ("pull_certificate_verify", "push_certificate_verify"),
    "FIN": ("pull_finished", "push_finished"), "NST": ("pull_new_session_ticket", "push_new_session_ticket"),
}
# extension types each aioquic pull function gives structure to (everything else -> other_extensions)
TLS_KNOWN = {"CH": (51, 43, 13, 10, 45, 0, 16, 42, 41), "SH": (43, 51, 41), "EE": (16, 42), "CR": (13,), "NST": (42,)}


class NotInView(Exception):
    """A well-formed message that aioquic's value types cannot represent."""


def _ascii(b):
    try:
        return b.decode("ascii")
    except UnicodeDecodeError:
        raise NotInView("non-ASCII")


def tls_view(msg):
    """Reference message (dict, extensions as (type, raw, parsed) or (type, value)) -> aioquic dataclass."""
    t = msg["type"]
    exts = {}
    other = []
    for e in msg.get("extensions", []):
        etype, raw, parsed = e if len(e) == 3 else (e[0], None, e[1])
        if etype in TLS_KNOWN.get(t, ()):
            if etype in exts:
                raise NotInView("duplicate extension")
            exts[etype] = parsed
        else:
            other.append((etype, raw if raw is not None else parsed))
    if t == "CH":
        sni = exts.get(0)
        if sni is not None:
            if len(sni) != 1 or sni[0][0] != 0:
                raise NotInView("server_name list")
            sni = _ascii(sni[0][1])
        psk = exts.get(41)
        if psk is not None and list(e[0] for e in msg["extensions"])[-1] != 41:
            raise NotInView("pre_shared_key not last")
        return tls.ClientHello(
            random=msg["random"], legacy_session_id=msg["session_id"], cipher_suites=list(msg["cipher_suites"]),
            legacy_compression_methods=list(msg["compression_methods"]),
            alpn_protocols=None if exts.get(16) is None else [_ascii(p) for p in exts[16]],
            early_data=42 in exts, key_share=None if exts.get(51) is None else [tuple(k) for k in exts[51]],
            pre_shared_key=None if psk is None else tls.OfferedPsks(identities=[tuple(i) for i in psk[0]], binders=list(psk[1])),
            psk_key_exchange_modes=exts.get(45), server_name=sni, signature_algorithms=exts.get(13),
            supported_groups=exts.get(10), supported_versions=exts.get(43), other_extensions=other)
    if t == "SH":
        return tls.ServerHello(
            random=msg["random"], legacy_session_id=msg["session_id"], cipher_suite=msg["cipher_suite"],
            compression_method=msg["compression_method"], key_share=None if exts.get(51) is None else tuple(exts[51]),
            pre_shared_key=exts.get(41), supported_version=exts.get(43), other_extensions=other)
    if t == "EE":
        alpn = exts.get(16)
        if alpn is not None:
            if len(alpn) != 1:
                raise NotInView("ALPN list of %d in EncryptedExtensions" % len(alpn))
            alpn = _ascii(alpn[0])
        return tls.EncryptedExtensions(alpn_protocol=alpn, early_data=42 in exts, other_extensions=other)
    if t == "CT":
        return tls.Certificate(request_context=msg["request_context"], certificates=[tuple(e) for e in msg["entries"]])
    if t == "CR":
        return tls.CertificateRequest(request_context=msg["request_context"], signature_algorithms=exts.get(13), other_extensions=other)
    if t == "CV":
        return tls.CertificateVerify(algorithm=msg["algorithm"], signature=msg["signature"])
    if t == "FIN":
        return tls.Finished(verify_data=msg["verify_data"])
    if t == "NST":
        return tls.NewSessionTicket(ticket_lifetime=msg["lifetime"], ticket_age_add=msg["age_add"], ticket_nonce=msg["nonce"],
                                    ticket=msg["ticket"], max_early_data_size=exts.get(42), other_extensions=other)
    raise KeyError(t)


class TlsCodec(Codec):
    documented = (tls.Alert, BufferReadError)

    def __init__(self, t):
        self.t = t
        self.name, self.push_name = TLS_FN[t]
        self._pull = getattr(tls, self.name)
        self._push = getattr(tls, self.push_name)

    def params(self):
        return {"msg": self.t}

    def pull(self, buf):
        return self._pull(buf)

    def push(self, v):
        buf = Buffer(capacity=len(repr(v)) + 131072 if self.t == "CT" else 70000)
        self._push(buf, v)
        return buf.data

    def refdec(self, data):
        return R.dec_handshake(data, expect=self.t)


TLS = {t: TlsCodec(t) for t in TLS_FN}
RANDOM = bytes(range(0x20, 0x40))
U = 0x0039  # quic_transport_parameters: not parsed by tls.py -> other_extensions
U2, U3 = 0x2A2A, 0xFFFF


def nitems(n, f):
    return [f(i) for i in range(n)]


def ch_msg(o):
    """o: dict of options -> reference ClientHello in the order push_client_hello writes."""
    exts = []
    if o.get("key_share", 1) is not None:
        exts.append((51, nitems(o.get("key_share", 1), lambda i: (0x001D + i, blob(o.get("key_exchange", 32), 0x40 + i)))))
    if o.get("versions", 1) is not None:
        exts.append((43, nitems(o.get("versions", 1), lambda i: 0x0304 - i)))
    if o.get("sigalgs", 1) is not None:
        exts.append((13, nitems(o.get("sigalgs", 1), lambda i: 0x0403 + 0x100 * i)))
    if o.get("groups", 1) is not None:
        exts.append((10, nitems(o.get("groups", 1), lambda i: 0x001D + i)))
    if o.get("psk_modes") is not None:
        exts.append((45, nitems(o["psk_modes"], lambda i: 1 - i % 2)))
    if o.get("sni") is not None:
        exts.append((0, o.get("sni_list") or [(0, bytes([o.get("fill", 0x61)]) * o["sni"])]))
    if o.get("alpn") is not None:
        exts.append((16, nitems(o["alpn"], lambda i: bytes([o.get("fill", 0x68) + (i if o.get("fill", 0) < 0x80 else 0)]) * o.get("proto", 2))))
    for i in range(o.get("other", 0)):
        exts.append(((U, U2, U3)[i], blob(o.get("other_body", 5) if i == 0 else i, 0x70)))
    if o.get("early_data"):
        exts.append((42, None))
    if o.get("psk") is not None:
        exts.append((41, (nitems(o["psk"], lambda i: (blob(o.get("identity", 16), 0x10 + i), 0x01020304 + i)),
                          nitems(o.get("binders", o["psk"]), lambda i: blob(o.get("binder", 32), 0xB0 + i)))))
    if o.get("order") == "reversed":
        exts = list(reversed([e for e in exts if e[0] != 41])) + [e for e in exts if e[0] == 41]
    elif o.get("order") == "psk_first":
        exts = [e for e in exts if e[0] == 41] + [e for e in exts if e[0] != 41]
    return dict(type="CH", random=RANDOM, session_id=blob(o.get("session_id", 0), 0xE0),
                cipher_suites=nitems(o.get("cipher_suites", 1), lambda i: 0x1301 + i),
                compression_methods=nitems(o.get("compression", 1), lambda i: i), extensions=exts)


CH_FULL = dict(psk_modes=1, sni=11, alpn=1, other=1, early_data=True, psk=1)


def ch_cases(tier, seed):
    """-> list of (options, pushable, arbitrary?)"""
    out = []
    # (a) every subset of the 9 structured extensions x {no, one} unknown extension
    names = ["key_share", "versions", "sigalgs", "groups", "psk_modes", "sni", "alpn", "early_data", "psk"]
    for mask in range(512):
        for other in (0, 1):
            o = {"other": other}
            for i, n in enumerate(names):
                on = mask >> i & 1
                if n in ("key_share", "versions", "sigalgs", "groups"):
                    if not on:
                        o[n] = None
                elif on:
                    o[n] = {"psk_modes": 1, "sni": 11, "alpn": 1, "early_data": True, "psk": 1}[n]
            out.append((o, (mask & 15) == 15, True))
            if tier == "thorough" or (mask * 2 + other) % 4 == seed % 4:
                out.append((dict(o, order="reversed"), False, True))
    # (b) one-at-a-time variations on the full and on the minimal message
    var = ch_variations()
    for base in (CH_FULL, {}):
        for k, v in var:
            if k in base or base or k in ("session_id", "cipher_suites", "compression", "key_share", "versions", "sigalgs",
                                          "groups", "key_exchange"):
                o = dict(base)
                o[k] = v
                out.append((o, True, True))
    # (c) pairs of variations on the full message (thorough: all; quick: a seed-selected slice)
    pairs = [(a, b) for a, b in itertools.combinations(var, 2) if a[0] != b[0]]
    nsl = 2
    for i, (a, b) in enumerate(pairs):
        if tier == "thorough" or i % nsl == seed % nsl:
            o = dict(CH_FULL)
            o[a[0]] = a[1]
            o[b[0]] = b[1]
            out.append((o, True, True))
    # (d) well-formed per RFC 8446 syntax but outside what push_client_hello writes
    for o in (dict(CH_FULL, order="reversed"), dict(CH_FULL, order="psk_first"), dict(CH_FULL, fill=0xC3),
              dict(CH_FULL, sni=3, fill=0xE9), dict(CH_FULL, alpn=3, fill=0xFF),
              dict(CH_FULL, sni=1, sni_list=[(0, b"a.example"), (0, b"b.example")]),
              dict(CH_FULL, sni=1, sni_list=[(1, b"x")]), dict(CH_FULL, sni=1, sni_list=[]),
              dict(order="reversed"), dict(CH_FULL, other=3, order="reversed")):
        out.append((o, False, True))
    return out


def ch_variations():
    v = []
    for k in ("cipher_suites", "compression", "key_share", "versions", "sigalgs", "groups", "psk_modes", "alpn", "psk", "other"):
        for n in (0, 3):
            v.append((k, n))
    v.append(("binders", 0))
    v.append(("binders", 3))
    for k, sizes in (("session_id", (1, 32, 255)), ("key_exchange", (0, 1, 255, 256)), ("sni", (0, 1, 255, 256)),
                     ("proto", (0, 1, 255)), ("identity", (0, 1, 255, 256)), ("binder", (0, 1, 255)),
                     ("other_body", (0, 1, 255, 256))):
        for n in sizes:
            v.append((k, n))
    return v


def ext_list(o, known):
    exts = list(known)
    for i in range(o.get("other", 0)):
        exts.append(((U, U2, U3)[i], blob(o.get("other_body", 5) if i == 0 else i, 0x70)))
    if o.get("order") == "reversed":
        exts.reverse()
    return exts


def simple_cases(t):
    """(reference message, pushable) for the seven smaller messages."""
    out = []
    if t == "SH":
        for mask in range(8):
            for other in (0, 1, 3):
                for order in (None, "reversed"):
                    known = []
                    if mask & 1:
                        known.append((43, 0x0304))
                    if mask & 2:
                        known.append((51, (0x001D, blob(32, 0x40))))
                    if mask & 4:
                        known.append((41, 0))
                    o = dict(other=other, order=order)
                    out.append((dict(type="SH", random=RANDOM, session_id=blob(32 if mask & 1 else 0), cipher_suite=0x1301 + mask % 3,
                                     compression_method=0, extensions=ext_list(o, known)), order is None))
        for sid in (0, 1, 32, 255):
            for kx in (0, 1, 255, 256):
                for body in (0, 1, 255, 256):
                    for psk in (0, 1, 0xFFFF):
                        out.append((dict(type="SH", random=RANDOM, session_id=blob(sid), cipher_suite=0xFFFF if psk else 0, compression_method=255 if psk == 1 else 0,
                                         extensions=ext_list(dict(other=1, other_body=body), [(43, 0x0304), (51, (0xFFFF, blob(kx))), (41, psk)])), True))
    elif t == "EE":
        for alpn in (None, 0, 1, 2, 255):
            for early in (False, True):
                for other in (0, 1, 3):
                    for body in (0, 1, 255, 256):
                        if body != 1 and other != 1:
                            continue
                        known = ([] if alpn is None else [(16, [b"h" * alpn])]) + ([(42, None)] if early else [])
                        out.append((dict(type="EE", extensions=ext_list(dict(other=other, other_body=body), known)), True))
        # well-formed but not producible by push_encrypted_extensions
        for protos in ([], [b"h3", b"hq", b"x"], [b"\xc3\xa9"], [b"\xff", b"h3"], [b"h3", b"\xff"]):
            for order in (None, "reversed"):
                out.append((dict(type="EE", extensions=ext_list(dict(other=1, order=order), [(16, protos), (42, None)])), False))
    elif t == "CT":
        for ctx_n in (0, 1, 255):
            for n in (0, 1, 3):
                for dn in (0, 1, 255, 256, 70000):
                    for en in (0, 1, 255, 256):
                        if dn == 70000 and (ctx_n or en > 1):
                            continue
                        out.append((dict(type="CT", request_context=blob(ctx_n), entries=nitems(n, lambda i: (blob(dn, i), blob(en, 0x80 + i)))), True))
        out.append((dict(type="CT", request_context=b"", entries=[(blob(300), b""), (b"", R.enc_uint(4, 2)[0:0] + bytes.fromhex("0005000100")), (blob(1), blob(2))]), True))
    elif t == "CR":
        for ctx_n in (0, 1, 255):
            for algs in (None, 0, 1, 3):
                for other in (0, 1, 3):
                    for body in (0, 1, 255, 256):
                        for order in (None, "reversed"):
                            if (body != 1 and other != 1) or (order and ctx_n):
                                continue
                            known = [] if algs is None else [(13, nitems(algs, lambda i: 0x0403 + 0x100 * i))]
                            out.append((dict(type="CR", request_context=blob(ctx_n), extensions=ext_list(dict(other=other, other_body=body, order=order), known)),
                                        algs is not None and order is None))
    elif t == "CV":
        for alg in (0, 1, 0x0403, 0x0804, 0xFFFF):
            for n in (0, 1, 64, 255, 256, 384):
                out.append((dict(type="CV", algorithm=alg, signature=blob(n)), True))
    elif t == "FIN":
        for n in (0, 1, 32, 48, 255, 256, 65536):
            out.append((dict(type="FIN", verify_data=blob(n)), True))
    elif t == "NST":
        for early in (None, 0, 1, 0xFFFFFFFF):
            for other in (0, 1, 3):
                for order in (None, "reversed"):
                    for nn in (0, 1, 255):
                        for tn in (0, 1, 255, 256):
                            if order and (nn != 1 or tn != 1):
                                continue
                            known = [] if early is None else [(42, early)]
                            out.append((dict(type="NST", lifetime=(0, 1, 86400, 0xFFFFFFFF)[tn % 4], age_add=(0, 0x01020304, 0xFFFFFFFF)[nn % 3],
                                             nonce=blob(nn), ticket=blob(tn), extensions=ext_list(dict(other=other, order=order), known)), order is None))
        for body in (0, 255, 256):
            out.append((dict(type="NST", lifetime=7, age_add=9, nonce=b"n", ticket=b"t",
                             extensions=ext_list(dict(other=1, other_body=body), [(42, 16384)])), True))
    return out


def tls_case(acc, msg, pushable, arb, origin=""):
    t = msg["type"]
    cd = TLS[t]
    acc.cases[cd.push_name if pushable else cd.name + ":reference_only"] += 1
    rp = dict(kind="tls", msg=jenc(msg), pushable=pushable)
    ref = R.enc_handshake(msg)
    rank = len(ref)
    try:
        view = tls_view(msg)
    except NotInView as e:
        view = None
        acc.notes["%s:not_in_view" % cd.name] += 1
    if R.dec_handshake(bytes(ref), expect=t) is None:
        raise core.HarnessError("reference decode")
    if view is not None:
        back = tls_view(R.dec_handshake(bytes(ref)))
        if back != view:
            raise core.HarnessError("reference TLS codec does not round-trip: %r != %r" % (back, view))
        acc.value(cd.name, view)
    if pushable:
        got = _try(cd.push, view)
        if got != ref:
            if isinstance(got, str):
                differ(acc, "undocumented_exception", cd.push_name, "%s(%r) raised %s" % (cd.push_name, view, got), rp, rank, exc=got.split(":")[0])
            else:
                n = next((i for i in range(min(len(got), len(ref))) if got[i] != ref[i]), min(len(got), len(ref)))
                differ(acc, "encoder_differs_from_reference", cd.push_name,
                       "%s(%r): %d bytes, reference %d bytes, first difference at %d: %s vs %s"
                       % (cd.push_name, view, len(got), len(ref), n, got[n : n + 12].hex(), bytes(ref[n : n + 12]).hex()), rp, rank)
        if not isinstance(got, str):
            back = _try(cd.pull, Buffer(data=got))
            if back != view:
                differ(acc, "roundtrip", cd.name, "%s(%s(v)) = %r, v = %r" % (cd.name, cd.push_name, back, view), rp, rank)
    # the reference encoding itself: oracle (2b) when representable, (3)/(4) always
    v = judge_bytes(acc, cd, bytes(ref), origin="reference encoding %s" % origin)
    if view is not None and v != view:
        differ(acc, "decoder_differs_from_reference", cd.name,
               "%s(reference encoding, %d bytes) = %r, expected %r" % (cd.name, len(ref), v, view), rp, rank)
    if arb:
        arbitrary(acc, cd, ref, window=16 if len(ref) > 3000 else None, origin=origin or t)


def work_tls(item):
    acc = Acc()
    kind, tier, seed, lo, hi = item
    if kind == "CH":
        for o, pushable, arb in ch_cases(tier, seed)[lo:hi]:
            _guard(acc, tls_case, ch_msg(o), pushable, arb, "CH %r" % (o,))
    else:
        for msg, pushable in simple_cases(kind)[lo:hi]:
            _guard(acc, tls_case, msg, pushable, True, kind)
    return acc


def items_tls(ctx):
    items = []
    n = len(ch_cases(ctx.tier, ctx.seed))
    for lo in range(0, n, 16):
        items.append(("CH", ctx.tier, ctx.seed, lo, min(n, lo + 16)))
    for t in ("SH", "EE", "CT", "CR", "CV", "FIN", "NST"):
        n = len(simple_cases(t))
        step = 8 if t in ("CT", "FIN") else 24
        for lo in range(0, n, step):
            items.append((t, ctx.tier, ctx.seed, lo, min(n, lo + step)))
    return items


# ===================================================================== part: captured fixtures
def work_fixtures(item):
    acc = Acc()
    d = os.path.join(build.REPO, "tests")
    for name in sorted(os.listdir(d)):
        if not (name.startswith("tls_") and name.endswith(".bin")):
            continue
        with open(os.path.join(d, name), "rb") as f:
            data = f.read()
        msg = R.dec_handshake(data)
        cd = TLS[msg["type"]]
        acc.cases[cd.name + ":fixture"] += 1
        enc = R.enc_handshake(dict(msg, extensions=[(t, raw) for t, raw, _ in msg.get("extensions", [])]))
        if enc != data:
            raise core.HarnessError("reference codec does not reproduce %s" % name)
        v = judge_bytes(acc, cd, data, origin="fixture " + name)
        try:
            view = tls_view(msg)
        except NotInView:
            view = None
        if view is not None:
            acc.value(cd.name, view)
            if v != view:
                differ(acc, "decoder_differs_from_reference", cd.name, "%s(%s) = %r, reference %r" % (cd.name, name, v, view),
                       dict(kind="fixture", name=name), len(data))
        arbitrary(acc, cd, enc, origin="fixture " + name)
    return acc


# ===================================================================== part: length-prefixed blocks
def work_blocks(item):
    """tls.push_block / push_opaque / push_list and their pull counterparts: for every prefix size 1..3 and body
    lengths around 0, 2^8 and 2^16 (2^24 for the 3-byte prefix): a body that fits is written as
    big-endian length + body (the reference) and read back; a body that does NOT fit its prefix must make the
    encoder raise - never a prefix that lies about what follows."""
    from aioquic import tls as T

    acc = Acc()
    cap, = item
    mx = (1 << (8 * cap)) - 1
    lens = sorted(set([0, 1, 2, 255, 256, 257, 300, 65535, 65536, 65537, 70000, mx - 1, mx, mx + 1, mx + 2, 2 * (mx + 1),
                       2 * (mx + 1) + 5, 3 * (mx + 1) + 260]))
    lens = [n for n in lens if n <= (1 << 24) + 600]
    for n in lens:
        body = bytes((i * 31 + n) & 0xFF for i in range(min(n, 4096))) * (n // 4096 + 1)
        body = body[:n]
        ref = None if n > mx else n.to_bytes(cap, "big") + body
        for name in ("push_opaque", "push_block", "push_list"):
            acc.cases["tls." + name] += 1
            rp = dict(kind="block", cap=cap, n=n, fn=name)
            buf = Buffer(capacity=n + 16)
            try:
                if name == "push_opaque":
                    T.push_opaque(buf, cap, body)
                elif name == "push_block":
                    with T.push_block(buf, cap):
                        buf.push_bytes(body)
                else:
                    T.push_list(buf, cap, buf.push_uint8, list(body[:70000]) if n <= 70000 else None)
                got, exc = buf.data, None
            except Exception as e:  # noqa
                got, exc = None, type(e).__name__
            if name == "push_list" and n > 70000:
                continue
            acc.outcomes["tls.%s:%s" % (name, "fits" if ref is not None else ("refused:" + exc if exc else "accepted_too_long"))] += 1
            acc.value("tls." + name, (cap, n))
            if ref is not None:
                if exc is not None:
                    differ(acc, "undocumented_exception", "tls." + name,
                           "%s with a %d-byte body and a %d-byte length prefix raised %s" % (name, n, cap, exc), rp, n, exc=exc)
                elif got != ref:
                    differ(acc, "encoder_differs_from_reference", "tls." + name,
                           "%s(%d-byte body, %d-byte prefix) wrote prefix %s, reference %s"
                           % (name, n, cap, got[:cap].hex(), ref[:cap].hex()), rp, n)
                else:
                    b = Buffer(data=got + b"\x5a")
                    if name == "push_list":
                        back = _try(lambda: bytes(T.pull_list(b, cap, b.pull_uint8)))
                    else:
                        back = _try(T.pull_opaque, b, cap)
                    if back != body or b.tell() != len(got):
                        differ(acc, "roundtrip", "tls.pull_" + name[5:],
                               "reading back %s(%d-byte body, %d-byte prefix) gave %d bytes at position %d"
                               % (name, n, cap, len(back) if isinstance(back, bytes) else -1, b.tell()), rp, n)
            elif exc is None:
                differ(acc, "out_of_range_accepted", "tls." + name,
                       "%s accepted a %d-byte body for a %d-byte length prefix (maximum %d) and wrote the prefix %s - "
                       "a length that lies about what follows" % (name, n, cap, mx, got[:cap].hex()), rp, n)
    return acc


# ===================================================================== main
PARTS = [
    ("ints", items_ints, work_ints),
    ("ack", items_ack, work_ack),
    ("headers", items_headers, work_headers),
    ("tparams", items_tp, work_tp),
    ("tls", items_tls, work_tls),
    ("fixtures", lambda ctx: [("all",)], work_fixtures),
    ("blocks", lambda ctx: [(1,), (2,), (3,)], work_blocks),
]

GRAMMAR = {
    "ints": "values within +-2 of 0,2^6,2^7,2^8,2^14,2^16,2^30,2^32,2^62,2^64 and every 2^k (k<=64) through push/pull_uint8/16/32/64/_var, "
            "encode_uint_var, size_uint_var, every permitted varint size; all 65536 two-byte strings; 256 first bytes x lengths 0..8 x 3 fills",
    "ack": "1023 non-empty subsets of {0..9} x base {0,2^14-5,2^30-5} x 9 delays at varint boundaries; lies on range count / first range / "
           "gaps / range lengths and every prefix",
    "headers": "v1,v2 x Initial/0-RTT/Handshake through QuicPacketBuilder (identity crypto) x 441 DCID/SCID length pairs x token "
               "{0,1,63,64,16383} x Length {20,63,64,65,16382,16383} (+16384,16385,32768 on 9 pairs); short x DCID 0..20 x spin x key phase x 5 "
               "payload sizes; Retry x 441 pairs + 9 pairs x 5 tokens x ODCID 0..20 x unused bits; VN x 441 pairs x 0..4 versions",
    "tparams": "empty, every parameter alone at every boundary value, all 190 pairs x 3x3 representative values, (thorough: all 1140 triples x 2x2x2 values), full set x 9 integer "
               "boundaries x preferred_address(v4,v6 present/absent, cid 0/1/20) x version_information lists 0..3; 6 unknown ids x 4 positions x 3 sizes",
    "tls": "ClientHello: all 512 subsets of 9 structured extensions x {0,1} unknown (thorough: also each in reversed order), one-at-a-time list sizes {0,1,3} and opaque sizes "
           "{0,1,255,256} on full and minimal message, pairs of variations; 7 other messages: all extension subsets x unknown 0/1/3 x "
           "opaque sizes; non-ASCII / multi-name / reordered well-formed inputs",
    "fixtures": "the 16 captured messages in tests/tls_*.bin",
    "blocks": "push/pull_opaque, push/pull_block, push/pull_list x prefix size 1..3 x body lengths around 0, 2^8, 2^16, 2^24 and beyond the prefix maximum",
}


def _dispatch(x):
    import time

    t = time.process_time()
    for name, _, work in PARTS:
        if name == x[0]:
            return work(x[1]), time.process_time() - t
    raise KeyError(x[0])


def run(ctx):
    try:
        R.selftest()
    except AssertionError as e:
        raise core.HarnessError("reference codec fails the RFC test vectors: %r" % (e,))
    total = Acc()
    per_codec = {}
    # one pool for all parts (work items are independent); heavier parts first
    works = {name: work for name, _, work in PARTS}
    todo = []
    for name, mkitems, work in PARTS:
        if ctx.only_parts and name not in ctx.only_parts:
            continue
        todo += [(name, it) for it in mkitems(ctx)]
    order = {"tls": 0, "headers": 1, "tparams": 2, "ack": 3, "ints": 4, "fixtures": 5, "blocks": 6}
    todo.sort(key=lambda x: order[x[0]])
    results = core.pmap(_dispatch, todo)
    for name, mkitems, work in PARTS:
        if ctx.only_parts and name not in ctx.only_parts:
            continue
        t0 = ctx.elapsed()
        acc = Acc()
        items = [it for n, it in todo if n == name]
        secs = 0.0
        for (n, it), (a, dt) in zip(todo, results):
            if n == name:
                acc.merge(a)
                secs += dt
        ncases = sum(acc.cases.values())
        ninputs = sum(acc.inputs.values())
        ndist = sum(len(s) for s in acc.values.values())
        ctx.part(name, evaluations=ncases + ninputs, distinct_nontrivial=ndist, cases=ncases, arbitrary_inputs=ninputs,
                 work_items=len(items), outcomes=len(acc.outcomes), cpu_seconds=round(secs, 1), grammar=GRAMMAR[name])
        if len(acc.outcomes) < 3:
            raise core.HarnessError("part %s: vacuous (%d distinct outcomes)" % (name, len(acc.outcomes)))
        ctx.cov["parts"][name]["per_codec"] = {
            k: dict(cases=acc.cases.get(k, 0), inputs=acc.inputs.get(k, 0), distinct_values=len(acc.values.get(k, ())))
            for k in sorted(set(acc.cases) | set(acc.inputs) | set(acc.values))
        }
        ctx.cov["parts"][name]["outcome_counts"] = dict(sorted(acc.outcomes.items()))
        ctx.cov["parts"][name]["not_judged"] = dict(sorted(acc.notes.items()))
        ctx.cov["parts"][name]["not_judged_examples"] = acc.examples
        for rank, sig, what, replay in sorted(acc.viol.values(), key=lambda v: (v[0], core.stable_hash(v[1]))):
            ctx.violation(dict(sig, part=name), what, replay)
        total.merge(acc)
    for k in sorted(set(total.cases) | set(total.inputs)):
        per_codec[k] = (total.cases.get(k, 0), total.inputs.get(k, 0), len(total.values.get(k, ())))
    print("[C17] per codec (valid cases, arbitrary byte strings, distinct values):")
    for k, v in per_codec.items():
        print("        %-52s %7d %8d %7d" % ((k,) + v))
    ctx.sample({"ack": "ranges [(3,5),(7,8)] delay 64 -> " + bytes(R.enc_ack([(3, 5), (7, 8)], 64)).hex()})
    ctx.sample({"tls": "ServerHello length lie: extension_length 2->0 of supported_versions"})
    ctx.cov["rule"] = (
        "exhaustive enumeration of the finite grammars listed per part on the real codec functions; each value: pull(push(v))==v, "
        "push(v) byte-identical to vlib.refcodec, pull(reference encoding)==v; each arbitrary byte string (every length field x "
        "{0,1,true-1,true+1,max}, every prefix): documented parse error or a value that survives push+pull; strict nested-length "
        "reference + read trace decide 'read past a declared length'"
    )
    ctx.cov["exhaustive"] = not ctx.caps_hit and not ctx.only_parts
    ctx.cov["bounds"] = dict(tier=ctx.tier, prefix_rule="every prefix; encodings > 96 (headers, transport parameters) / 3000 (TLS) bytes: "
                             "all cut points within 24 / 16 bytes of every field boundary")
    ctx.assumptions += [
        "header bytes are obtained from QuicPacketBuilder with an identity CryptoPair stand-in (there is no standalone header encoder)",
        "extension order is the encoder's choice: the reference is asked for aioquic's order when bytes are compared, other orders are decode-only",
        "the unused bits of a Version Negotiation first byte are random and excluded from the byte comparison",
        "out-of-domain integers (negative, >= 2^width) are recorded under not_judged; so is Length > 16383 in the packet builder (silently corrupt with the identity crypto stand-in, but the real CryptoPair rejects packets above 1500 bytes, so it is unreachable)",
        "ACK frames with a range below packet number 0 are accepted by pull_ack_frame and re-encode to the same bytes: RFC 9000 19.3.1 "
        "demands FRAME_ENCODING_ERROR, the property does not; counted as lenient_accept:semantic",
    ]


# ===================================================================== replay
def _codec_by_name(name, params):
    if name == ACK.name:
        return ACK
    if name == HDR.name:
        return HeaderCodec(params.get("host_cid_length"))
    if name == TP.name:
        return TP
    return TLS[params["msg"]]


def replay(ctx, obj):
    rp = obj["replay"]
    acc = Acc()
    kind = rp["kind"]
    print("replaying %s case: %s" % (kind, {k: v for k, v in rp.items() if k not in ("data", "base")}))
    if kind == "bytes":
        cd = _codec_by_name(rp["codec"], rp.get("params") or {})
        data = bytes.fromhex(rp["data"])
        base = None if rp.get("base") is None else bytes.fromhex(rp["base"])
        lie = None
        if rp.get("lie"):
            pos, size, val, lv = rp["lie"]
            lie = (dict(pos=pos, size=size, value=val, name="?"), lv)
        print("  input (%d bytes): %s" % (len(data), data.hex()))
        try:
            v = cd.pull(Buffer(data=data))
            print("  %s -> %r" % (cd.name, v))
            try:
                again = cd.push(v)
                print("  %s -> %s" % (cd.push_name, again.hex()))
                print("  %s again -> %r" % (cd.name, _try(cd.pull, Buffer(data=again))))
            except Exception as e:  # noqa
                print("  %s raised %s: %s" % (cd.push_name, type(e).__name__, e))
        except Exception as e:  # noqa
            print("  %s raised %s: %s (innermost %s)" % (cd.name, type(e).__name__, e, innermost(e)))
        try:
            print("  reference -> %r" % (cd.refdec(data),))
        except R.RefReject as e:
            print("  reference rejects: %s (window %r)" % (e, e.window))
        judge_bytes(acc, cd, data, base=base, lie=lie, origin=rp.get("origin", ""))
    elif kind == "int":
        v = rp["value"]
        for bits, (pushn, pulln) in FIXED.items():
            _int_case(acc, pushn, pulln, v, 0 <= v < (1 << bits), lambda: R.enc_uint(v, bits // 8))
        _int_case(acc, "push_uint_var", "pull_uint_var", v, 0 <= v <= R.VARINT_MAX, lambda: R.enc_varint(v))
        acc.merge(work_ints(("values",)))
    elif kind == "varint_bytes":
        _varint_bytes(acc, bytes.fromhex(rp["data"]))
        acc.merge(work_ints(("values",)))
    elif kind == "ack":
        ranges = tuple(tuple(r) for r in rp["ranges"])
        base = min(ACK_BASES, key=lambda b: abs(ranges[0][0] - b) if ranges[0][0] >= b else 1 << 70)
        mask = 0
        for a, b in ranges:
            for x in range(a, b):
                mask |= 1 << (x - base)
        acc.merge(work_ack(([mask], [base], [rp["delay"]], (rp["delay"],))))
    elif kind == "long":
        long_case(acc, rp["ver"], rp["ptype"], rp["dl"], rp["sl"], rp["tl"], rp["length"], rp["pn"], True)
    elif kind == "short":
        short_case(acc, rp["dl"], rp["spin"], rp["kp"], rp["payload"], rp["pn"], True)
    elif kind == "retry":
        retry_case(acc, rp["ver"], rp["dl"], rp["sl"], rp["ol"], rp["tl"], rp["unused"], True)
    elif kind == "vn":
        vn_case(acc, rp["dl"], rp["sl"], rp["nv"], True)
    elif kind == "tp":
        tp_case(acc, jdec(rp["items"]), True, jdec(rp["unknown"]))
    elif kind == "tls":
        tls_case(acc, jdec(rp["msg"]), rp["pushable"], True)
    elif kind == "fixture":
        acc.merge(work_fixtures(("all",)))
    elif kind == "block":
        acc.merge(work_blocks((rp["cap"],)))
    elif kind == "guard":
        _guard(acc, globals()[rp["fn"]], *jdec(rp["args"]))
    want = core.stable_hash({k: v for k, v in obj["signature"].items() if k != "part"})
    hit = 0
    for k, (rank, sig, what, _) in sorted(acc.viol.items()):
        mark = "*" if k == want else " "
        print(" %s VIOLATION %s\n     %s" % (mark, core.jdump(sig, sort_keys=True), what[:1500]))
        hit |= k == want
    if hit:
        print("VIOLATION property=C17 replay=(replayed)")
        return 1
    print("the recorded violation does not reproduce" + (" (others do)" if acc.viol else ""))
    return 0
