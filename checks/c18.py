"""C18 - connection-ID lifecycle honours the peer's instructions.

World: PeerBot - one REAL QuicConnection endpoint E (both roles), bootstrapped by a
real handshake; from the cut on the harness plays the key-holding peer through the
independent codec/crypto in vlib/refquic.py.  Engine: explicit-state BFS (E2) with
history replay (E holds OpenSSL keys and cannot be copied), merged on a canonical
state read from E (key only).

Base states
  fresh   the handshake is complete on E but the throw-away peer's own
          NEW_CONNECTION_ID frames were never delivered: E knows only the peer's
          sequence number 0 (alphabet NEW_CONNECTION_ID(seq 0..5, rpt 0..seq)).
  full    the ordinary connected state: the peer has issued 0..7 (E's advertised
          limit of 8 is exhausted); alphabet adds seq 8, 9 so that the limit and
          mass retirement are reachable.

Moves   peer NEW_CONNECTION_ID(seq, rpt) (consistent CID per seq), peer
        RETIRE_CONNECTION_ID(seq 0..9), peer switches the DCID it uses to another CID E
        issued (PING addressed to it), peer source address change, E
        change_connection_id(), E send_ping, ack-all, lose-newest (everything but the
        newest ack-eliciting packet is acknowledged, then three later packets, so the
        packet threshold declares it lost), timer (PTO / ack timer).

Oracle (wire + events only)
  dcid_below_rpt     after NEW_CONNECTION_ID(retire_prior_to=r) was delivered every
                     later packet of E is addressed to a peer CID with seq >= r (not
                     judged when the peer has provided no such CID)
  retire_missing     every peer CID E abandons (below retire-prior-to, or replaced as
                     DCID) appears in a RETIRE_CONNECTION_ID frame in a packet that is
                     eventually delivered (again after loss)
  peer_cid_limit     peer-issued, un-retired CIDs held by E <= 8 (advertised
                     active_connection_id_limit) unless E closed with 0x09
  host_cid_limit     E-issued CIDs not retired by the peer <= the peer's limit (8)
  cid_not_accepted   a PING addressed to any issued, un-retired CID of E is acknowledged
  no_replacement     after the peer retired one of E's CIDs a NEW_CONNECTION_ID with a
                     fresh sequence number is (eventually) delivered
  api_exception      nothing escapes the public API
The eventual obligations are evaluated in an *epilogue* run on the throw-away endpoint
of each transition (acknowledge everything not declared lost, fire due timers, a few
rounds) - it is not part of the explored history.
"""
import hashlib
import logging
import time
import traceback

from vlib import core, explore, netcheck, netsim, peerbot, refquic, seams

LEVEL = "model_checking"
logging.getLogger("quic").setLevel(logging.CRITICAL + 1)  # E's own error log is not evidence

LIMIT_LOCAL = 8  # E's advertised active_connection_id_limit (checked against the wire)
LIMIT_PEER = 8  # what the throw-away peer advertises
TOKEN = bytes(16)


def peer_cid(seq):
    """The CID the harness issues for sequence number seq (consistent per seq)."""
    return bytes([0xC0 + seq]) * 8


# ================================================================== alphabets
def _alpha_full(base):
    mv = [("ack",), ("change",), ("timer",), ("lose",)]
    if base == "fresh":
        for s in range(0, 6):
            for r in range(0, s + 1):
                mv.append(("ncid", s, r))
    else:
        for s, rs in ((3, (0, 3)), (8, (0, 1, 8)), (9, (0, 8, 9))):
            for r in rs:
                mv.append(("ncid", s, r))
    for s in range(0, 10):
        mv.append(("retire", s))
    mv += [("switch", "lo"), ("switch", "hi"), ("addr",)]
    return mv


def _alpha_medium(base):
    mv = [("ack",), ("change",), ("lose",)]
    if base == "fresh":
        for s in range(1, 4):
            for r in range(0, s + 1):
                mv.append(("ncid", s, r))
    else:
        mv += [("ncid", 3, 3), ("ncid", 8, 0), ("ncid", 8, 8), ("ncid", 9, 1), ("ncid", 9, 9)]
    for s in (0, 1, 7, 8):
        mv.append(("retire", s))
    mv += [("switch", "hi")]
    return mv


def _alpha_small(base):
    mv = [("ack",), ("change",), ("lose",)]
    if base == "fresh":
        mv += [("ncid", 1, 0), ("ncid", 1, 1), ("ncid", 2, 0), ("ncid", 2, 2)]
    else:
        mv += [("ncid", 3, 3), ("ncid", 8, 0), ("ncid", 8, 8)]
    mv += [("retire", 1), ("switch", "hi")]
    return mv


def _alpha_replenish(base):
    """The peer retires E's IDs one after the other (each replacement is announced in a packet of its own)
    and packets of E are lost - the oldest or the newest outstanding one."""
    return [("retire", 0), ("retire", 1), ("retire", 2), ("lose_old",), ("lose",), ("ack",), ("timer",)]


def _alpha_rotate(base):
    """E rotates through the peer's IDs while the peer's NEW_CONNECTION_ID frames are repeated
    (retransmissions of frames E has long processed - including for IDs E retired meanwhile)."""
    if base == "fresh":
        return [("change",), ("ncid", 1, 0), ("ncid", 2, 0), ("ack",)]
    return [("change",), ("ncid", 1, 0), ("ncid", 8, 0), ("ncid", 9, 0), ("ack",)]


def split_alpha(alpha):
    """'small@4' = alphabet 'small' against a peer that advertises active_connection_id_limit 4."""
    name, _, lim = alpha.partition("@")
    return name, int(lim) if lim else LIMIT_PEER


def moves_of(alpha, base):
    return ALPHABETS[split_alpha(alpha)[0]](base)


ALPHABETS = {"full": _alpha_full, "medium": _alpha_medium, "small": _alpha_small, "rotate": _alpha_rotate,
             "replenish": _alpha_replenish}


# ===================================================================== world
class Violation(Exception):
    def __init__(self, sig, what):
        self.sig = sig
        self.what = what


class World:
    """E + harness peer + wire-derived bookkeeping (the oracle's only input)."""

    def __init__(self, role, base, alpha="full"):
        seams.install()
        self.role = role
        self.base = base
        self.alpha = alpha
        self.peer_limit = split_alpha(alpha)[1]
        self.viol = []  # (sig, what)
        self.exc = None
        self.issued = {}  # peer seq -> cid, as delivered to E
        self.R = 0  # largest retire-prior-to delivered
        self.retire_pns = {}  # peer seq -> [pn of E packets carrying RETIRE(seq)]
        self.new_pns = {}  # E seq -> [pn of E packets carrying NEW_CONNECTION_ID(seq)]
        self.acked = set()  # pns of E (application space) the harness acknowledged
        self.never_ack = set()  # pns the harness decided to lose
        self.peer_retired = set()  # E seqs the peer retired (frame delivered, E still open)
        self.dcid_hist = []  # peer seqs E used as DCID, compressed
        self.abandoned = set()
        self.n_sent = 0
        self.closed = None  # (error_code, frame_type, reason) once E reports termination
        self.close_frame = None
        self.addr_changed = False
        self.my_pings = {}  # harness pn -> dcid used (for acceptance)
        self.acked_by_e = set()  # harness pns acknowledged by E
        self.challenges = []  # PATH_CHALLENGE data not yet answered
        self.boot_failed = False  # a monitor fired on the handshake traffic itself
        self._boot()

    def _peer_cfg(self):
        if self.peer_limit == LIMIT_PEER:
            return {}
        return {("c_cid_limit" if self.role == "server" else "s_cid_limit"): self.peer_limit}

    # ------------------------------------------------------------- bootstrap
    def _boot(self):
        role = self.role
        if self.base == "full":
            bot = peerbot.PeerBot(role, cfg=self._peer_cfg(), cut="connected")
            self.bot = bot
            self.issued[0] = bot.p_scid()
            for r in bot.P.sent_packets:
                for f in r.frames or []:
                    if f["t"] == "NEW_CONNECTION_ID":
                        self.issued[f["seq"]] = f["cid"]
            self.n_sent = len(bot.E.sent_packets)
            self._scan_boot()
        else:
            if role == "server":
                bot = peerbot.PeerBot(role, cfg=self._peer_cfg(), cut=("steps", 2))
                self.bot = bot
                d = bot.pending[0]
                pk, _ = refquic.split_datagram(d.data, 8)
                off = [p.start for p in pk if p.form == "short"][0]
                self.issued[0] = bot.p_scid()
                self._do(lambda: bot.feed(d.data[:off], pad_to=1200), boot=True)
            else:
                bot = peerbot.PeerBot(role, cfg=self._peer_cfg(), cut=("steps", 3))
                self.bot = bot
                self.issued[0] = bot.p_scid()
                self._scan_boot()
                pns = [r.pn for r in bot.E.sent_packets if r.epoch == "A" and r.ack_eliciting]
                self._do(lambda: bot.send([{"t": "HANDSHAKE_DONE"}]), boot=True)
                self.acked.update(pns)
                self._do(lambda: bot.ack(pns), boot=True)
            bot.pending = []
        if not bot.E.hs_done:
            raise core.HarnessError("bootstrap: handshake not complete on E (%s/%s)" % (role, self.base))
        if bot.E.conn._remote_active_connection_id_limit != self.peer_limit:
            raise core.HarnessError("bootstrap: E learnt active_connection_id_limit %r from the peer, harness wanted %d"
                                    % (bot.E.conn._remote_active_connection_id_limit, self.peer_limit))
        self._limits()  # what E issued during the handshake already counts
        if self.viol:
            self.boot_failed = True
            return
        self.settle(boot=True)
        if self.bot.E.terminated is not None or self.viol:
            raise core.HarnessError("bootstrap failed: %r %r" % (self.bot.E.terminated, self.viol))
        self.boot_dcid = self.dcid_hist[-1] if self.dcid_hist else 0

    def _scan_boot(self):
        """Account the packets E sent before the cut (NEW_CONNECTION_ID frames)."""
        bot = self.bot
        for rec in bot.E.sent_packets:
            self._scan(rec, boot=True)
            if rec.epoch == "A" and rec.pn is not None:
                self.acked.add(rec.pn)  # the real peer acknowledged them during the handshake
        self.n_sent = len(bot.E.sent_packets)

    # ----------------------------------------------------------------- wire
    def _seq_of(self, cid):
        for s, c in self.issued.items():
            if c == cid:
                return s
        return None

    def usable(self):
        """peer seqs >= R that the peer has provided and E has not retired itself."""
        return [s for s in self.issued if s >= self.R and s not in self.retire_pns]

    def _scan(self, rec, boot=False):
        if rec.frames is None:
            return
        for f in rec.frames:
            t = f["t"]
            if t == "RETIRE_CONNECTION_ID":
                self.retire_pns.setdefault(f["seq"], []).append(rec.pn)
            elif t == "NEW_CONNECTION_ID":
                self.new_pns.setdefault(f["seq"], []).append(rec.pn)
            elif t == "ACK" and rec.epoch == "A":
                for a, b in f["ranges"]:
                    for pn in self.my_pings:
                        if a <= pn <= b:
                            self.acked_by_e.add(pn)
            elif t == "CONNECTION_CLOSE":
                self.close_frame = f
            elif t == "PATH_CHALLENGE":
                self.challenges.append(f["data"])
        if rec.epoch != "A" or boot and rec.type != "1rtt":
            return
        s = self._seq_of(rec.dcid)
        if not self.dcid_hist or self.dcid_hist[-1] != s:
            if self.dcid_hist and self.dcid_hist[-1] is not None:
                self.abandoned.add(self.dcid_hist[-1])
            self.dcid_hist.append(s)
        if boot:
            return
        # ---- monitor: retire-prior-to is honoured on every later packet
        if self.usable() and (s is None or s < self.R):
            self._v("dcid_below_rpt",
                    "packet pn=%s of E is addressed to peer CID seq %s although retire-prior-to %d "
                    "was delivered and the peer has provided seq %s"
                    % (rec.pn, s, self.R, sorted(self.usable())),
                    cls="current_below_rpt" if s is not None else "unknown_dcid")

        # ---- monitor: an ID whose retirement E announced is not used again (RFC 9000 5.1.2 / 19.16:
        # RETIRE_CONNECTION_ID says the ID "will no longer be used"; the peer forgets it, so later
        # packets addressed to it cannot be delivered) - unless the peer has provided nothing else
        if s is not None and any(pn < rec.pn for pn in self.retire_pns.get(s, ())) and self.usable():
            self._v("dcid_after_retire",
                    "packet pn=%s of E is addressed to peer CID seq %s although E announced its retirement in "
                    "packet(s) %s and holds usable peer CID(s) %s (DCID history %s)"
                    % (rec.pn, s, [pn for pn in self.retire_pns[s] if pn < rec.pn], sorted(self.usable()),
                       self.dcid_hist))

    def _v(self, monitor, what, **extra):
        sig = dict(monitor=monitor, **extra)
        what = "[E=%s, base=%s] %s" % (self.role, self.base, what)
        for s, _ in self.viol:
            if s == sig:
                return
        self.viol.append((sig, what))

    def _do(self, fn, boot=False, entry="?"):
        """Run one bot action; account what E sent; catch escaping exceptions."""
        if self.exc is not None:
            return None
        try:
            r = fn()
        except core.HarnessError:
            raise
        except Exception as e:  # noqa
            self._exc(e)
            return None
        bot = self.bot
        # a caller honours get_timer(): pacing deadlines (milliseconds) are served at once
        try:
            for _ in range(8):
                if bot.E.terminated is not None or bot.E.conn._pacing_at is None:
                    break
                t = bot.E.conn.get_timer()
                if t is None or t > bot.E.conn._pacing_at:
                    break
                bot.timer()  # time passes up to the pacer's deadline (earlier ack timers fire too)
        except core.HarnessError:
            raise
        except Exception as e:  # noqa
            self._exc(e)
            return None
        for rec in bot.E.sent_packets[self.n_sent:]:
            self._scan(rec, boot=boot)
        self.n_sent = len(bot.E.sent_packets)
        if bot.E.terminated is not None and self.closed is None:
            t = bot.E.terminated
            self.closed = (t.error_code, t.frame_type, t.reason_phrase)
            # ---- monitor: E may only accuse the peer of exceeding the limit when it did.  The peer's
            # own count (IDs delivered, at or above the largest retire-prior-to delivered, for which E has
            # not sent RETIRE_CONNECTION_ID) is an upper bound of what E legitimately holds.
            if t.error_code == 0x09 and not boot:
                kept = self.usable()
                if len(kept) <= LIMIT_LOCAL:
                    self._v("unjustified_cid_limit_close",
                            "E closed with CONNECTION_ID_LIMIT_ERROR (%r) although the peer keeps only %d "
                            "active connection IDs %s (limit %d): delivered %s, retire-prior-to %d, retired by E %s"
                            % (t.reason_phrase, len(kept), sorted(kept), LIMIT_LOCAL, sorted(self.issued), self.R,
                               sorted(self.retire_pns)))
        if not boot:
            self._limits()
        return r

    def _exc(self, e):
        tb = traceback.extract_tb(e.__traceback__)
        inner = [f for f in tb if "/aioquic/" in f.filename]
        where = inner[-1].name if inner else "?"
        api = [f.name for f in tb if f.filename.endswith("quic/connection.py")]
        self.exc = (type(e).__name__, where, api[0] if api else "?")
        self._v("api_exception", "%s escaped %s (innermost aioquic function %s): %s"
                % (type(e).__name__, api[0] if api else "?", where, e),
                exc=type(e).__name__, where=where, entry=api[0] if api else "?")

    def _kept_limit(self):
        """Evaluated once E had the chance to transmit its pending RETIRE frames."""
        if self.closed is None and self.close_frame is None:
            kept = [s for s in self.issued if s not in self.retire_pns]
            if len(kept) > LIMIT_LOCAL:
                self._v("peer_cid_limit", "E holds %d peer-issued un-retired connection IDs %s "
                        "(advertised limit %d) and did not close" % (len(kept), sorted(kept), LIMIT_LOCAL))

    def _limits(self):
        active = [s for s in self.e_issued() if s not in self.peer_retired]
        if len(active) > self.peer_limit:
            self._v("host_cid_limit", "E has %d issued, un-retired connection IDs %s; the peer "
                    "allows %d" % (len(active), sorted(active), self.peer_limit), peer_limit=self.peer_limit)

    def e_issued(self):
        return set(self.new_pns) | {0}

    def is_closed(self):
        return self.closed is not None or self.close_frame is not None or self.exc is not None

    # ---------------------------------------------------------------- moves
    def outstanding(self):
        return [r for r in self.bot.outstanding if r.epoch == "A" and r.pn not in self.never_ack]

    def ack_all(self):
        pns = sorted(r.pn for r in self.outstanding())
        if not pns:
            return False
        self.acked.update(pns)
        self._do(lambda: self.bot.ack(pns))
        return True

    def enabled(self):
        """Menu of moves in the current state (simplest first)."""
        if self.is_closed():
            return []
        return list(moves_of(self.alpha, self.base))

    def apply(self, mv):
        """Apply one move; returns False if the move is not enabled here (no-op)."""
        bot = self.bot
        k = mv[0]
        if k == "ack":
            return self.ack_all()
        if k == "ping":
            self._do(lambda: bot.app("send_ping", lambda c: c.send_ping(uid=1)))
            return True
        if k == "change":
            self._do(lambda: bot.app("change_connection_id", lambda c: c.change_connection_id()))
            return True
        if k == "timer":
            t = bot.E.conn.get_timer()
            if t is None or t - bot.w.now > 30.0:
                return False  # only the idle timer is armed
            self._do(lambda: bot.timer())
            return True
        if k in ("lose", "lose_old"):
            out = self.outstanding()
            if not out or (k == "lose_old" and len(out) < 2):
                return False
            # lose = the newest, lose_old = the OLDEST outstanding ack-eliciting packet (a later one got through)
            victim = max(r.pn for r in out) if k == "lose" else min(r.pn for r in out)
            self.never_ack.add(victim)
            self.ack_all()
            sp = bot.E.conn._loss.spaces[-1]
            for _ in range(8):
                # harness sanity (not oracle): has the packet threshold declared it lost?
                if self.is_closed() or victim not in sp.sent_packets:
                    break
                self._do(lambda: bot.app("send_ping", lambda c: c.send_ping(uid=2)))
                if len([r for r in self.outstanding() if r.pn > victim]) >= 3:
                    self.ack_all()
            if not self.is_closed() and victim in sp.sent_packets:
                raise core.HarnessError("lose-newest: packet %d was not declared lost" % victim)
            return True
        if k == "ncid":
            _, s, r = mv
            cid = self.issued.get(s) or peer_cid(s)
            self.issued.setdefault(s, cid)
            self.R = max(self.R, r)
            self.abandoned.update(x for x in self.issued if x < self.R)
            self._do(lambda: self.send([{"t": "NEW_CONNECTION_ID", "seq": s, "rpt": r, "cid": cid,
                                        "token": TOKEN}]))
            return True
        if k == "retire":
            s = mv[1]
            if s in self.e_issued():
                self.peer_retired.add(s)  # if E refuses the frame it closes: nothing is judged then
            self._do(lambda: self.send([{"t": "RETIRE_CONNECTION_ID", "seq": s}]))
            return True
        if k == "switch":
            active = sorted(s for s in self.e_issued() if s not in self.peer_retired)
            cur = self.cur_dcid_seq()
            cand = [s for s in active if s != cur]
            if not cand:
                return False
            s = cand[0] if mv[1] == "lo" else cand[-1]
            bot.dcid = bot.e_cids()[s]
            self._do(lambda: self.send([{"t": "PING"}], ping=True))
            return True
        if k == "addr":
            if self.addr_changed:
                return False
            self.addr_changed = True
            bot.peer_addr = ("9.9.9.9", 4321)
            self._do(lambda: self.send([{"t": "PING"}], ping=True))
            self.answer_challenges()
            return True
        raise ValueError(mv)

    def cur_dcid_seq(self):
        cur = getattr(self.bot, "dcid", None)
        cids = self.bot.e_cids()
        if cur is None:
            return 0
        for s, c in cids.items():
            if c == cur:
                return s
        return None

    def send(self, frames, ping=False, dcid=None):
        bot = self.bot
        pn = bot.next_pn
        if ping:
            self.my_pings[pn] = dcid or getattr(bot, "dcid", None) or bot.e_cids().get(0)
        if dcid is not None:
            return bot.send(frames, dcid=dcid)
        return bot.send(frames)

    def answer_challenges(self):
        """A well-behaved peer answers PATH_CHALLENGE (path validation is C13's topic)."""
        while self.challenges and not self.is_closed():
            data = self.challenges.pop(0)
            self._do(lambda: self.send([{"t": "PATH_RESPONSE", "data": data}]))

    # ------------------------------------------------------------- settling
    def settle(self, boot=False, rounds=8):
        """Acknowledge everything not declared lost and fire due (non-idle) timers until
        E is quiet."""
        bot = self.bot
        for _ in range(rounds):
            if self.is_closed():
                return True
            progressed = bool(self.challenges)
            self.answer_challenges()
            pns = sorted(r.pn for r in self.outstanding())
            if pns:
                self.acked.update(pns)
                self._do(lambda: bot.ack(pns), boot=boot)
                progressed = True
            if self.is_closed():
                return True
            t = bot.E.conn.get_timer()
            if t is not None and t - bot.w.now <= 30.0:
                self._do(lambda: bot.timer(), boot=boot)
                progressed = True
            if not progressed:
                return True
        return False

    def epilogue(self):
        """Eventual obligations, evaluated destructively on this throw-away endpoint."""
        bot = self.bot
        if self.exc is not None or self.boot_failed:
            return
        if self.is_closed():
            self._do(lambda: bot.drive_to_end())
            return
        quiet = self.settle()
        if self.is_closed():
            if self.exc is None:
                self._do(lambda: bot.drive_to_end())
            return
        self._kept_limit()
        # ---- every abandoned peer CID was announced in a delivered RETIRE frame
        if self.usable() or True:
            for s in sorted(self.abandoned):
                if s not in self.issued:
                    continue
                pns = self.retire_pns.get(s, [])
                if not any(pn in self.acked for pn in pns):
                    cls = ("never_announced" if not pns else "not_repeated_after_loss")
                    self._v("retire_missing",
                            "peer CID seq %d was abandoned by E (retire-prior-to %d, DCID history %s) "
                            "but no RETIRE_CONNECTION_ID(%d) reached the peer: carried by packets %s, "
                            "lost %s" % (s, self.R, self.dcid_hist, s, pns, sorted(self.never_ack)),
                            cls=cls, below_rpt=s < self.R)
        # ---- replacement of retired host CIDs, delivered
        active = sorted(s for s in self.e_issued() if s not in self.peer_retired)
        if self.peer_retired and len(active) < min(self.peer_limit, LIMIT_PEER):
            self._v("no_replacement",
                    "the peer retired E's connection IDs %s; E has only %d active IDs %s afterwards "
                    "(peer limit %d)" % (sorted(self.peer_retired), len(active), active, self.peer_limit))
        for s in active:
            if s == 0:
                continue
            if not any(pn in self.acked for pn in self.new_pns.get(s, [])):
                self._v("no_replacement",
                        "NEW_CONNECTION_ID(%d) of E never reached the peer (carried by %s, lost %s)"
                        % (s, self.new_pns.get(s), sorted(self.never_ack)), cls="not_repeated_after_loss")
        # ---- every issued, un-retired CID still routes
        cids = bot.e_cids()
        sent = {}
        for s in active:
            if self.is_closed():
                break
            pn = bot.next_pn
            sent[pn] = s
            self._do(lambda: self.send([{"t": "PING"}], ping=True, dcid=cids[s]))
        for _ in range(4):
            if self.is_closed() or all(pn in self.acked_by_e for pn in sent):
                break
            t = bot.E.conn.get_timer()
            if t is None or t - bot.w.now > 30.0:
                break
            self._do(lambda: bot.timer())
        if not self.is_closed():
            for pn, s in sorted(sent.items()):
                if pn not in self.acked_by_e:
                    self._v("cid_not_accepted",
                            "PING addressed to E's connection ID seq %d (issued, not retired by the "
                            "peer; retired: %s) was never acknowledged" % (s, sorted(self.peer_retired)))
                    break
        if not quiet:
            self._v("not_quiescent", "E keeps sending after 8 ack/timer rounds")

    # ------------------------------------------------------------ canonical
    def key(self):
        """Canonical state for merging (attribute reads of E are used for the KEY only)."""
        c = self.bot.E.conn
        w = self.bot.w
        if self.is_closed():
            return ("closed", self.closed, self.exc)
        loss = c._loss
        sp = loss.spaces[-1]
        delay = 9 / 8 * max(loss._rtt_latest, loss._rtt_smoothed) if loss._rtt_initialized else 0
        out = []
        for pn in sorted(sp.sent_packets):
            p = sp.sent_packets[pn]
            hs = []
            for h, args in p.delivery_handlers:
                n = h.__name__
                if n == "_on_retire_connection_id_delivery":
                    hs.append(("R", args[0]))
                elif n == "_on_new_connection_id_delivery":
                    hs.append(("N", args[0].sequence_number))
                elif n == "_on_ping_delivery":
                    hs.append(("P", len(args[0])))
                else:
                    hs.append((n,))
            out.append((tuple(hs), p.is_ack_eliciting, p.in_flight, pn in self.never_ack,
                        w.now - p.sent_time >= delay))
        paths = tuple((p.addr[0], p.is_validated, p.local_challenge_sent, len(p.remote_challenges))
                      for p in c._network_paths)
        t = c.get_timer()
        return (
            c._peer_cid.sequence_number,
            tuple(x.sequence_number for x in c._peer_cid_available),
            tuple(sorted(c._peer_cid_sequence_numbers)),
            c._peer_retire_prior_to,
            tuple(c._retire_connection_ids),
            tuple((x.sequence_number, x.was_sent) for x in c._host_cids),
            c._host_cid_seq,
            tuple(out),
            paths,
            loss._pto_count,
            sp.ack_at is not None,
            len(c._ping_pending),
            c._probe_pending,
            t is not None and t - w.now <= 30.0,
            # harness side
            self.cur_dcid_seq(),
            self.addr_changed,
            tuple(sorted(self.issued)),
            self.R,
            tuple(sorted(self.peer_retired)),
            tuple(sorted(self.abandoned)),
            tuple(sorted((s, tuple(pn in self.acked for pn in pns), tuple(pn in self.never_ack for pn in pns))
                         for s, pns in self.retire_pns.items())),
            tuple(sorted((s, any(pn in self.acked for pn in pns)) for s, pns in self.new_pns.items())),
            tuple(self.dcid_hist[-1:]),
        )


# ======================================================================= BFS
def replay_history(role, base, hist, alpha="full"):
    w = World(role, base, alpha)
    for mv in hist:
        w.apply(tuple(mv))
    return w


def expand_node(arg):
    """arg = (role, base, hist).  One fresh endpoint per transition."""
    role, base, alpha, hist = arg
    menu = moves_of(alpha, base)
    out = []
    for mv in menu:
        w = replay_history(role, base, hist, alpha)
        if w.is_closed():
            break
        nv = len(w.viol)
        try:
            ok = w.apply(mv)
        except core.HarnessError as e:
            raise core.HarnessError("%s [%s/%s/%s history %r + %r]" % (e, role, base, alpha, hist, mv))
        if not ok:
            continue
        key = w.key()
        closed_key = key[0] == "closed"
        key = ("closed" if closed_key else "open", hashlib.sha256(repr(key).encode()).digest())
        w.epilogue()
        viols = w.viol[nv:]
        dead = w.exc is not None
        out.append((mv, None if dead else key, viols, _outcome(w)))
    return out


def _outcome(w):
    if w.exc is not None:
        return ("exc",) + w.exc
    if w.closed is not None:
        return ("closed", w.closed[0])
    if w.close_frame is not None:
        return ("closing", w.close_frame.get("err"))
    return ("open", len(w.retire_pns), len(w.new_pns), w.R)


def _expand_chunk(chunk):
    return [expand_node(a) for a in chunk]


_WORKERS = [None]


def pick_workers():
    """Forked pool workers can be far slower than the parent on an oversubscribed VM (the
    per-transition cost is dominated by fresh allocations): measure both once and use what is
    faster.  Affects wall time only, never what is explored."""
    if _WORKERS[0] is not None:
        return _WORKERS[0]
    if core.NCPU <= 1:
        _WORKERS[0] = 1
        return 1
    probe = [("server", "fresh", "small", [("ncid", 1, 0)])]
    expand_node(probe[0])  # warm caches (certificates)
    t0 = time.time()
    _expand_chunk(probe * 2)
    inline = 2 / (time.time() - t0)
    n = core.NCPU * 2
    t0 = time.time()
    core.pmap(_expand_chunk, [probe] * n)
    pooled = n / (time.time() - t0)
    _WORKERS[0] = core.NCPU if pooled > 1.3 * inline else 1
    return _WORKERS[0]


def bfs(role, base, alpha, depth, max_states=None, time_cap=None):
    t0 = time.time()
    root = World(role, base, alpha)
    if root.boot_failed:
        viols = {core.stable_hash(sig): (sig, what, []) for sig, what in root.viol}
        stats = dict(states=1, transitions=0, runs=0, depth_done=0, capped=None, closed_states=0,
                     closure=False, per_level=[], wall=0.0)
        return stats, {("boot_violation",)}, viols, []
    seen = {("open", hashlib.sha256(repr(root.key()).encode()).digest())}
    frontier = [[]]
    stats = dict(states=1, transitions=0, runs=0, depth_done=0, capped=None, closed_states=0)
    outcomes = set()
    viols = {}  # sigkey -> (sig, what, hist)
    samples = []
    per_level = []
    for d in range(depth):
        if not frontier:
            break
        if time_cap is not None and time.time() - t0 > time_cap:
            stats["capped"] = "time cap %ss before depth %d" % (time_cap, d + 1)
            break
        args = [(role, base, alpha, h) for h in frontier]
        wk = pick_workers()
        n = max(1, len(args) // (wk * 6))
        chunks = [args[i:i + n] for i in range(0, len(args), n)]
        res = core.pmap(_expand_chunk, chunks, workers=wk)
        flat = [r for ch in res for r in ch]
        nxt = []
        for h, succ in zip(frontier, flat):
            for mv, key, vs, outcome in succ:
                stats["transitions"] += 1
                outcomes.add(outcome)
                hist = h + [mv]
                for sig, what in vs:
                    k = core.stable_hash(sig)
                    if k not in viols:
                        viols[k] = (sig, what, hist)
                if key is None or key in seen:
                    continue
                seen.add(key)
                if key[0] == "closed":
                    stats["closed_states"] += 1
                    continue  # terminal: nothing is enabled
                nxt.append(hist)
                if len(samples) < 3 and len(hist) >= 3:
                    samples.append(hist)
        stats["states"] = len(seen)
        stats["depth_done"] = d + 1
        per_level.append(len(nxt))
        frontier = nxt
        if max_states is not None and len(seen) > max_states:
            stats["capped"] = "state cap %d after depth %d" % (max_states, d + 1)
            break
    stats["closure"] = not frontier
    stats["per_level"] = per_level
    stats["wall"] = round(time.time() - t0, 1)
    return stats, outcomes, viols, samples


# ============================================= part "load": CID changes under load
# NetSim: two REAL endpoints, bulk transfer that fills the congestion window, one
# endpoint calls change_connection_id() at a swept virtual time.  The same oracle as
# above, from the decrypted wire of BOTH endpoints, evaluated when the goal (all data
# delivered) is reached and the world is quiescent.
def _W(sid, n):
    return {"op": "w", "sid": sid, "n": n, "fin": True, "g": "hs"}


LOAD_SCRIPTS = {
    "up": {"c": [_W(0, 60000)], "s": []},
    "down": {"c": [], "s": [_W(1, 60000)]},
    "both": {"c": [_W(0, 30000)], "s": [_W(1, 30000)]},
}
# seconds after start (one-way latency 10 ms; the handshake completes at 20 ms on the
# client, 30 ms on the server; the client learns the server's spare IDs at 40 ms)
LOAD_TIMES = (0.021, 0.025, 0.03, 0.035, 0.04, 0.045, 0.05, 0.06, 0.07, 0.08)


class CidMonitor(netsim.Monitor):
    def attach(self, w):
        self.issued = {"c": {}, "s": {}}  # endpoint -> {cid bytes: seq} it issued
        self.retire = {"c": {}, "s": {}}  # endpoint -> {peer seq: [dgram ids carrying RETIRE]}
        self.retired_by_peer = {"c": set(), "s": set()}  # own seqs whose RETIRE was delivered
        self.dcid_hist = {"c": [], "s": []}  # peer seqs used as DCID (compressed)
        self.rpt = {"c": 0, "s": 0}  # largest retire-prior-to delivered TO the endpoint
        self.delivered = set()
        self.dgram_frames = {}  # dgram id -> [(kind, seq, rpt)] of CID frames

    def after_pump(self, w, ep, cause, sent, new_events, timer):
        me = ep.name
        peer = "s" if me == "c" else "c"
        for d, _addr in sent:
            for rec in d.recs or []:
                if rec.frames is None:
                    continue
                if rec.type in ("initial", "handshake") and rec.scid and not self.issued[me]:
                    self.issued[me][rec.scid] = 0
                for f in rec.frames:
                    if f["t"] == "NEW_CONNECTION_ID":
                        self.issued[me].setdefault(f["cid"], f["seq"])
                        self.dgram_frames.setdefault(d.id, []).append(("N", f["seq"], f["rpt"]))
                    elif f["t"] == "RETIRE_CONNECTION_ID":
                        self.retire[me].setdefault(f["seq"], []).append(d.id)
                        self.dgram_frames.setdefault(d.id, []).append(("R", f["seq"], None))
                if rec.type != "1rtt":
                    continue
                seq = self.issued[peer].get(rec.dcid)
                h = self.dcid_hist[me]
                if not h or h[-1] != seq:
                    h.append(seq)
                usable = [s2 for s2 in self.issued[peer].values()
                          if s2 >= self.rpt[me] and s2 not in self.retire[me]]
                if usable and (seq is None or seq < self.rpt[me]):
                    raise netsim.Violation(
                        {"monitor": "dcid_below_rpt", "cls": "under_load"},
                        "endpoint %s sent pn=%s to peer CID seq %s although retire-prior-to %d "
                        "was delivered" % (me, rec.pn, seq, self.rpt[me]))
            active = [q for q in self.issued[me].values() if q not in self.retired_by_peer[me]]
            if len(active) > LIMIT_PEER:
                raise netsim.Violation(
                    {"monitor": "host_cid_limit", "cls": "under_load"},
                    "endpoint %s has %d issued, un-retired connection IDs %s (peer limit %d)"
                    % (me, len(active), sorted(active), LIMIT_PEER))

    def on_deliver(self, w, ep, d, addr):
        if d.id in self.delivered:
            return
        self.delivered.add(d.id)
        for kind, seq, rpt in self.dgram_frames.get(d.id, ()):
            if kind == "N":
                self.rpt[ep.name] = max(self.rpt[ep.name], rpt)
            else:
                self.retired_by_peer[ep.name].add(seq)

    def at_end(self, w, outcome):
        if outcome != "done":
            return  # the fair phase did not reach the goal: liveness is C01's business
        for me, peer in (("c", "s"), ("s", "c")):
            ep = w.ep[me]
            if ep.terminated is not None:
                raise netsim.Violation(
                    {"monitor": "closed_under_load", "code": ep.terminated.error_code},
                    "endpoint %s terminated: %r" % (me, ep.terminated))
            h = self.dcid_hist[me]
            for s2 in h[:-1]:
                if s2 is None:
                    continue
                ids = self.retire[me].get(s2, [])
                if not any(i in self.delivered for i in ids):
                    raise netsim.Violation(
                        {"monitor": "retire_missing", "below_rpt": False,
                         "cls": "never_announced" if not ids else "not_repeated_after_loss"},
                        "under load: endpoint %s stopped using peer CID seq %d (DCID history %s) but "
                        "no RETIRE_CONNECTION_ID(%d) reached the peer (carried by datagrams %s); all "
                        "data delivered, world quiescent" % (me, s2, h, s2, ids))
            kept = [q for q in self.issued[peer].values() if q not in self.retire[me]]
            if len(kept) > LIMIT_LOCAL:
                raise netsim.Violation(
                    {"monitor": "peer_cid_limit", "cls": "under_load"},
                    "endpoint %s holds %d peer-issued un-retired IDs" % (me, len(kept)))
            if self.retired_by_peer[me]:
                active = [q for q in self.issued[me].values() if q not in self.retired_by_peer[me]]
                if len(active) < LIMIT_PEER:
                    raise netsim.Violation(
                        {"monitor": "no_replacement", "cls": "under_load"},
                        "endpoint %s: peer retired %s, only %d active IDs afterwards"
                        % (me, sorted(self.retired_by_peer[me]), len(active)))


def load_goal(w):
    peer = {"c": "s", "s": "c"}
    for name in ("c", "s"):
        ep = w.ep[name]
        if ep.op_i < len(ep.ops):
            return False
        for sid, (n, fin, rst) in w.written(name).items():
            if len(w.ep[peer[name]].rx.get(sid, b"")) < n:
                return False
    return True


def load_factory(sc):
    script = {k: [dict(o) for o in v] for k, v in LOAD_SCRIPTS[sc["script"]].items()}
    script[sc["who"]].append({"op": "cid", "g": ("t", sc["t"])})
    kw = {"max_steps": 900, "horizon": 60.0, "deviations": tuple(sc.get("dev", ("drop", "delay")))}
    return {"cc": sc["cc"]}, script, [CidMonitor()], kw, load_goal


netcheck.register("c18", load_factory)


def run_load(ctx):
    quick = ctx.tier == "quick"
    scen = {}
    for script in LOAD_SCRIPTS:
        for who in ("c", "s"):
            for cc in ("reno", "cubic"):
                for t in LOAD_TIMES:
                    if quick and cc == "cubic" and t not in (0.025, 0.045):
                        continue
                    scen["%s|cid@%s|t=%g|%s" % (script, who, t, cc)] = {
                        "script": script, "who": who, "t": t, "cc": cc}
    agg = netcheck.explore_scenarios(ctx, "c18", scen, 0, "load_d0")
    if len(agg["outcomes"]) < 3:
        raise core.HarnessError("vacuous load exploration")
    if quick:
        sub = {k: dict(v, dev=("drop",)) for k, v in scen.items()
               if v["cc"] == "reno" and (v["script"], v["who"], v["t"]) in (("up", "c", 0.045), ("down", "s", 0.025))}
    else:
        sub = {k: v for k, v in scen.items() if v["t"] in (0.025, 0.045) and v["script"] != "both"}
    netcheck.explore_scenarios(ctx, "c18", sub, 1, "load_d1")


# ====================================================================== main
PLAN = {
    # (role, base, alphabet, depth)
    "quick": [
        ("server", "fresh", "full", 2), ("client", "fresh", "full", 1),
        ("server", "full", "full", 1), ("client", "full", "full", 2),
        ("server", "fresh", "medium", 3), ("client", "fresh", "medium", 2),
        ("server", "full", "medium", 2), ("client", "full", "medium", 3),
        ("server", "fresh", "small", 4), ("client", "fresh", "small", 3),
        ("server", "full", "small", 3), ("client", "full", "small", 3),
        # a peer that advertises a smaller active_connection_id_limit than aioquic's own 8
        ("server", "fresh", "small@2", 3), ("client", "fresh", "small@3", 2),
        ("client", "full", "small@4", 3), ("server", "full", "small@7", 2),
        ("server", "fresh", "rotate", 10), ("client", "fresh", "rotate", 10),
        ("server", "full", "rotate", 6), ("client", "full", "rotate", 6),
        ("server", "full", "replenish", 4), ("client", "full", "replenish", 4),
    ],
    "thorough": [
        ("server", "fresh", "full", 3), ("client", "fresh", "full", 2),
        ("server", "full", "full", 2), ("client", "full", "full", 3),
        ("server", "fresh", "medium", 4), ("client", "fresh", "medium", 4),
        ("server", "full", "medium", 4), ("client", "full", "medium", 4),
        ("server", "fresh", "small", 6), ("client", "fresh", "small", 5),
        ("server", "full", "small", 5), ("client", "full", "small", 5),
        ("server", "fresh", "medium@2", 3), ("client", "fresh", "medium@2", 3),
        ("server", "full", "medium@3", 3), ("client", "full", "medium@4", 3),
        ("server", "full", "small@7", 4), ("client", "fresh", "small@7", 4),
        ("server", "full", "replenish", 6), ("client", "full", "replenish", 6), ("client", "fresh", "replenish", 5),
        ("server", "fresh", "rotate", 14), ("client", "fresh", "rotate", 14),
        ("server", "full", "rotate", 10), ("client", "full", "rotate", 10),
    ],
}


def advertised_limit(role):
    """E's active_connection_id_limit as sent on the wire (harness sanity for LIMIT_LOCAL)."""
    w = World(role, "full")
    return w.bot.E.conn._local_active_connection_id_limit, w.bot.P.conn._local_active_connection_id_limit


def run(ctx):
    for role in ("server", "client"):
        loc, peer = advertised_limit(role)
        if loc != LIMIT_LOCAL or peer != LIMIT_PEER:
            raise core.HarnessError("active_connection_id_limit changed: E=%r peer=%r" % (loc, peer))
    all_viols = []
    outcomes = set()
    if not ctx.only_parts or "load" in ctx.only_parts:
        run_load(ctx)
    ctx.cov["bfs_workers_used"] = pick_workers()
    for role, base, alpha, depth in PLAN[ctx.tier]:
        name = "%s_%s_%s_d%d" % (role, base, alpha, depth)
        if ctx.only_parts and name not in ctx.only_parts and alpha not in ctx.only_parts:
            continue
        st, outc, viols, samples = bfs(role, base, alpha, depth)
        outcomes |= outc
        ctx.part(
            name,
            states=st["states"],
            transitions=st["transitions"],
            evaluations=st["transitions"],
            traces_validated_against_impl=st["transitions"],
            distinct_nontrivial=st["states"],
            depth=st["depth_done"],
            closure=st["closure"],
            new_states_per_level=str(st["per_level"]),
            alphabet=len(moves_of(alpha, base)),
            outcomes=len(outc),
            wall_s=st["wall"],
        )
        if st["capped"]:
            ctx.cap("%s: %s" % (name, st["capped"]))
        for h in samples[:1]:
            ctx.sample({"part": name, "history": h})
        for k, (sig, what, hist) in viols.items():
            all_viols.append((len(hist), name, sig, what, dict(role=role, base=base, alpha=alpha, history=hist)))
    if len(outcomes) < 3 and not all_viols and not (ctx.only_parts and "load" in ctx.only_parts):
        raise core.HarnessError("vacuous exploration: %d distinct outcomes" % len(outcomes))
    # shortest counterexample per signature first
    all_viols.sort(key=lambda v: (v[0], v[1], core.jdump(v[2], sort_keys=True)))
    for n, name, sig, what, rp in all_viols:
        # replay twice on fresh endpoints before reporting
        a = _replay_sigs(rp)
        b = _replay_sigs(rp)
        if a != b or core.stable_hash(sig) not in a:
            raise core.HarnessError("violation does not replay deterministically: %s %r" % (what, rp))
        ctx.violation(sig, "%s [history %s]" % (what, rp["history"]), rp)
    ctx.cov["rule"] = (
        "explicit-state BFS with history replay over PeerBot moves on a real QuicConnection (both "
        "roles, two base states), merged on (peer CID state, host CIDs, outstanding packets with "
        "their CID frames, path/timer state, harness bookkeeping); wire monitors on every packet, "
        "eventual obligations in a per-transition epilogue"
    )
    ctx.cov["exhaustive"] = not ctx.caps_hit
    ctx.cov["bounds"] = {
        "plan": [list(p) for p in PLAN[ctx.tier]],
        "alphabets": {k: [list(m) for m in f("fresh")] for k, f in ALPHABETS.items()},
        "alphabets_full_base": {k: [list(m) for m in f("full")] for k, f in ALPHABETS.items()},
    }
    ctx.assumptions += [
        "the peer answers PATH_CHALLENGE at once (path validation / anti-amplification is C13's topic)",
        "pacing deadlines are served immediately by the caller; the idle timer is never fired",
        "loss is declared through the packet threshold only (the harness acknowledges three later "
        "packets); a packet the harness decided to lose is never acknowledged later",
        "merging: round-trip estimates, congestion window and absolute packet numbers are not part of "
        "the key (they do not feed connection-ID decisions)",
        "retire_missing counts a NEW_CONNECTION_ID whose sequence number is already below the "
        "delivered retire-prior-to as an abandoned ID (RFC 9000 19.15: MUST send RETIRE_CONNECTION_ID)",
    ]


def _replay_sigs(rp):
    w = replay_history(rp["role"], rp["base"], [tuple(m) for m in rp["history"]], rp["alpha"])
    w.epilogue()
    return {core.stable_hash(s) for s, _ in w.viol}


def replay(ctx, obj):
    rp = obj["replay"]
    if rp.get("engine") == "netsim":
        v = netcheck.replay("c18", obj)
        if v is not None:
            print("VIOLATION property=C18 replay=(replayed)")
            return 1
        print("no violation on replay")
        return 0
    print("E role %s, base state %s, alphabet %s" % (rp["role"], rp["base"], rp["alpha"]))
    w = World(rp["role"], rp["base"], rp["alpha"])
    c = w.bot.E.conn

    def show(n0):
        for r in w.bot.E.sent_packets[n0:]:
            print("      E sent %s pn=%s dcid=peer-seq %s %s" % (
                r.type, r.pn, w._seq_of(r.dcid),
                [(f["t"], f.get("seq")) if "seq" in f else f["t"] for f in r.frames or []]))

    print("   start: E uses peer seq %s, peer has issued %s, E has issued %s" % (
        w.dcid_hist[-1:], sorted(w.issued), sorted(w.e_issued())))
    for mv in rp["history"]:
        n0 = len(w.bot.E.sent_packets)
        ok = w.apply(tuple(mv))
        print("  move %s%s" % (tuple(mv), "" if ok else "  (not enabled)"))
        show(n0)
        if w.exc:
            print("      EXCEPTION %s" % (w.exc,))
        if w.closed:
            print("      E terminated: %r" % (w.closed,))
    n0 = len(w.bot.E.sent_packets)
    w.epilogue()
    print("  epilogue (ack everything not lost, fire due timers, PING every un-retired CID of E)")
    show(n0)
    want = obj.get("signature", {}).get("monitor")
    hit = [v for v in w.viol if want is None or v[0]["monitor"] == want]
    for sig, what in w.viol:
        print("  violation: %s :: %s" % (core.jdump(sig, sort_keys=True), what))
    if hit:
        print("VIOLATION property=C18 replay=(replayed)")
        return 1
    print("no violation on replay")
    return 0
