"""C05 - network input can never make the QUIC/TLS API raise.

World: PeerBot (one real endpoint E, harness = key-holding peer) + raw datagram
grammar.  Engine: exhaustive enumeration (E3) over (state x input), inputs chained on
the same endpoint until it closes, so depth>1 histories arise too; every exception is
re-derived on a fresh endpoint (single input first, else the chain).  Oracle:
receive_datagram returns; afterwards get_timer / handle_timer / datagrams_to_send /
next_event keep returning normally until ConnectionTerminated is popped.
"""
import struct
import traceback

from vlib import core, peerbot, refquic, netsim

LEVEL = "model_checking"
V1, V2 = refquic.V1, refquic.V2
v = refquic.enc_varint
B = [0, 1, 63, 64, 16383, 16384, (1 << 30) - 1, 1 << 30, (1 << 62) - 1]
B_SMALL = [0, 1, 63, 16384, (1 << 62) - 1]
SIDS = [0, 1, 2, 3, 4, 5, 6, 7, 508, 512, 513, 514, 515, (1 << 62) - 1, (1 << 62) - 4]


# ------------------------------------------------------------------ input menus
def frame_menu(tier):
    """[(label, payload bytes)] - frames a key-holding peer can seal."""
    out = []

    def add(label, *parts):
        out.append((label, b"".join(parts)))

    add("PADDING", b"\x00")
    add("PADDING_only_many", bytes(60))
    add("EMPTY_PAYLOAD", b"")
    add("PING", b"\x01")
    # ACK
    for t in (2, 3):
        ecn = v(0) + v(0) + v(0) if t == 3 else b""
        for largest in B:
            for first in (0, 1, largest, min(largest + 1, (1 << 62) - 1)):
                add("ACK", v(t), v(largest), v(0), v(0), v(first), ecn)
        for delay in B:
            add("ACK_delay", v(t), v(5), v(delay), v(0), v(0), ecn)
        add("ACK_count_gt_data", v(t), v(100), v(0), v(3), v(0), v(1), v(1))
        add("ACK_ranges_below_zero", v(t), v(3), v(0), v(2), v(1), v(5), v(5), v(9), v(9), ecn)
        add("ACK_big_gap", v(t), v(10), v(0), v(1), v(0), v((1 << 62) - 1), v(0), ecn)
        add("ACK_many_ranges", v(t), v(4000), v(0), v(600), v(0), b"".join(v(0) + v(0) for _ in range(600)), ecn)
        add("ACK_ecn_huge", v(3), v(1), v(0), v(0), v(0), v((1 << 62) - 1), v((1 << 62) - 1), v((1 << 62) - 1))
    # stream-ish frames
    for sid in SIDS:
        for err in B_SMALL:
            add("RESET_STREAM", v(4), v(sid), v(err), v(0))
            add("STOP_SENDING", v(5), v(sid), v(err))
        for final in B:
            add("RESET_STREAM", v(4), v(sid), v(0), v(final))
        for mx in B:
            add("MAX_STREAM_DATA", v(0x11), v(sid), v(mx))
            add("STREAM_DATA_BLOCKED", v(0x15), v(sid), v(mx))
        for ft in range(8, 16):
            for off in ([0] if not ft & 4 else B):
                for ln in (0, 1, 5):
                    body = v(ft) + v(sid) + (v(off) if ft & 4 else b"")
                    if ft & 2:
                        body += v(ln)
                    add("STREAM_%x" % ft, body, bytes(ln))
            if ft & 2:
                add("STREAM_len_lie", v(ft), v(sid), (v(0) if ft & 4 else b""), v(1000), b"xx")
                add("STREAM_len_huge", v(ft), v(sid), (v(0) if ft & 4 else b""), v((1 << 62) - 1))
    for off in B:
        for ln in (0, 1, 40):
            add("CRYPTO", v(6), v(off), v(ln), bytes(range(ln)))
    add("CRYPTO_len_lie", v(6), v(0), v(500), b"ab")
    add("CRYPTO_garbage_hs", v(6), v(0), v(8), b"\x01\x00\x00\x04abcd")
    add("CRYPTO_unknown_msg", v(6), v(0), v(4), b"\x63\x00\x00\x00")
    add("CRYPTO_huge_declared", v(6), v(0), v(4), b"\x0b\xff\xff\xff")
    for ln in (0, 1, 16, 1000):
        add("NEW_TOKEN", v(7), v(ln), bytes(min(ln, 40)))
    add("NEW_TOKEN_full", v(7), v(30), bytes(30))
    for t in (0x10, 0x12, 0x13, 0x14, 0x16, 0x17):
        for x in B + [1 << 60, (1 << 60) + 1]:
            add("LIMIT_%x" % t, v(t), v(x))
    # connection ids
    for seq in (0, 1, 2, 5, 9, 63, 64, (1 << 62) - 1):
        for rpt in (0, 1, seq, min(seq + 1, (1 << 62) - 1)):
            for cl in (0, 1, 8, 20, 21, 255):
                cid = bytes([seq & 0xFF]) * cl
                add("NEW_CONNECTION_ID", v(0x18), v(seq), v(rpt), bytes([cl]), cid, bytes(16))
        add("RETIRE_CONNECTION_ID", v(0x19), v(seq))
    add("NEW_CONNECTION_ID_short_token", v(0x18), v(1), v(0), bytes([8]), bytes(8), bytes(5))
    add("PATH_CHALLENGE", v(0x1A), bytes(8))
    add("PATH_CHALLENGE_x40", (v(0x1A) + bytes(range(8))) * 40)
    add("PATH_RESPONSE", v(0x1B), bytes(8))
    add("PATH_CHALLENGE_short", v(0x1A), bytes(3))
    for code in B_SMALL:
        for reason in (b"", b"bye", b"\xff\xfe", b"x" * 300):
            add("CONNECTION_CLOSE_T", v(0x1C), v(code), v(0), v(len(reason)), reason)
            add("CONNECTION_CLOSE_A", v(0x1D), v(code), v(len(reason)), reason)
    add("CONNECTION_CLOSE_ftype_huge", v(0x1C), v(0), v((1 << 62) - 1), v(0))
    add("CONNECTION_CLOSE_len_lie", v(0x1C), v(0), v(0), v(100), b"a")
    add("HANDSHAKE_DONE", v(0x1E))
    for ln in (0, 1, 100, 2000):
        add("DATAGRAM_len", v(0x31), v(ln), bytes(min(ln, 1100)))
    add("DATAGRAM_nolen", v(0x30), b"abc")
    add("DATAGRAM_len_lie", v(0x31), v(500), b"a")
    for t in (0x1F, 0x20, 0x21, 0x2F, 0x32, 0x40, (1 << 62) - 1):
        add("UNKNOWN_%x" % t, v(t))
    add("TYPE_nonminimal", b"\x40\x01")
    add("TYPE_truncated_varint", b"\xc0\x00")
    base = list(out)
    # truncations of one benign instance of every label
    seen = set()
    for label, p in base:
        if label in seen or len(p) < 2:
            continue
        seen.add(label)
        cuts = range(1, len(p)) if tier == "thorough" or len(p) <= 12 else list(range(1, 6)) + [len(p) - 1]
        for k in cuts:
            out.append((label + "_trunc%d" % k, p[:k]))
    # every frame twice in one packet / behind a PING
    seen = set()
    seen2 = set()
    for label, p in base:
        if label in seen or len(p) > 200:
            continue
        seen.add(label)
        out.append((label + "_x2", p + p))
        out.append(("PING+" + label, b"\x01" + p))
    # frames that change what later frames refer to (connection IDs, stream ends): EVERY instance twice - a repeated
    # frame is what a retransmission looks like, and the second copy meets the state the first one left
    for label, p in base:
        if label in ("RETIRE_CONNECTION_ID", "NEW_CONNECTION_ID", "RESET_STREAM", "STOP_SENDING") and (label, p) not in seen2:
            seen2.add((label, p))
            out.append((label + "_each_x2", p + p))
    return out


def raw_menu(bot, tier):
    """[(label, datagram bytes)] - no keys needed: header grammar, garbage, prefixes."""
    out = []
    cid = bot.e_cids().get(0, bytes(8))
    scid = bot.p_scid()
    versions = [V1, V2, 0, 0x0A0A0A0A, 0xFFFFFFFF]
    totals = [0, 1, 2, 5, 7, 8, 9, 20, 21, 22, 40, 64, 1199, 1200, 1201, 1500, 4096]
    if tier == "thorough":
        totals += list(range(3, 64)) + [65535]
    for fb in (0x00, 0x40, 0x43, 0x5F, 0x7F, 0x80, 0xC0, 0xC3, 0xD0, 0xE3, 0xF0, 0xFF):
        for total in totals:
            if total == 0:
                out.append(("raw:empty", b""))
                continue
            body = bytes([fb]) + cid + bytes(max(0, total - 1 - len(cid)))
            out.append(("raw:fb%02x_len%d" % (fb, total), body[:total]))
    for ver in versions:
        for fb in (0xC0, 0xD0, 0xE0, 0xF0, 0x80):
            for dl, sl in ((0, 0), (8, 8), (20, 20), (21, 0), (8, 21), (255, 0)):
                dc = (cid + bytes(255))[:dl] if dl >= 8 else bytes(dl)
                head = bytes([fb]) + struct.pack(">I", ver) + bytes([dl]) + dc + bytes([sl]) + bytes(sl)
                for tl in (0, 1, 2, 1400, 1490, 2000, 60000):
                    for rest in (0, 1, 3, 4, 19, 20, 21, 1000, 1 << 20):
                        pkt = head + v(tl) + bytes(min(tl, 2100)) + v(rest) + bytes(min(rest, 1300))
                        out.append(("raw:long_v%x_fb%02x_d%d_s%d_t%d_r%d" % (ver, fb, dl, sl, tl, rest), pkt))
                        if tier != "thorough":
                            break
                    if tier != "thorough" and tl > 2:
                        pass
                out.append(("raw:long_trunc_v%x_fb%02x_d%d" % (ver, fb, dl), head))
    # version negotiation and retry, well-formed and not
    for vers in ([], [V1], [V2], [V1, V2], [0x0A0A0A0A], [V1] * 50):
        out.append(("raw:vn_%d" % len(vers), refquic.build_vn(scid, cid, vers)))
        out.append(("raw:vn_swapped_%d" % len(vers), refquic.build_vn(cid, scid, vers)))
    out.append(("raw:vn_odd", refquic.build_vn(scid, cid, [V2]) + b"\x01\x02"))
    for ver in (V1, V2):
        for tok in (b"", b"t", b"t" * 100):
            good = refquic.build_retry(ver, scid, b"\x77" * 8, bot.w.obs.initial_dcids[-1] if bot.w.obs.initial_dcids else cid, tok)
            out.append(("raw:retry_good_v%x_%d" % (ver, len(tok)), good))
            out.append(("raw:retry_badtag", good[:-1] + bytes([good[-1] ^ 1])))
            out.append(("raw:retry_short", good[:-10]))
    # every prefix length class of the genuine datagrams in flight at the cut
    for d in bot.pending[:3]:
        n = len(d.data)
        cuts = sorted(set([1, 2, 5, 6, 7, 20, 21, 22, 23, 30, 50, 100, n // 2, n - 17, n - 16, n - 1]))
        if tier == "thorough":
            cuts = sorted(set(cuts + list(range(1, min(n, 80)))))
        for k in cuts:
            if 0 < k < n:
                out.append(("raw:genuine_prefix", d.data[:k]))
        out.append(("raw:genuine+garbage", d.data + b"\x40" + bytes(30)))
        out.append(("raw:garbage+genuine", bytes([0xC0]) + bytes(30) + d.data))
    return out


# ------------------------------------------------------------------------ states
STATES = {
    # name: (role, kwargs for PeerBot, epochs with keys, post-setup op or None)
    "server_fresh": ("server", {"cut": "fresh"}, ["initial"]),
    "client_first_flight": ("client", {"cut": "fresh"}, ["initial"]),
    "server_after_initial": ("server", {"cut": ("steps", 1)}, ["initial", "handshake"]),
    "client_after_server_flight": ("client", {"cut": ("steps", 2)}, ["initial", "handshake", "1rtt"]),
    "server_connected": ("server", {"cut": "connected"}, ["1rtt"]),
    "client_connected": ("client", {"cut": "connected"}, ["1rtt"]),
    "client_after_retry": ("client", {"cut": ("steps", 2), "cfg": {"retry": True}}, ["initial"]),
    "client_after_vn": ("client", {"cut": ("steps", 2), "cfg": {"vn": True}}, ["initial"]),
    "server_streams": ("server", {"cut": "connected", "script": {
        "c": [{"op": "w", "sid": 0, "n": 2000}, {"op": "w", "sid": 4, "n": 10, "fin": True}, {"op": "w", "sid": 2, "n": 10}],
        "s": [{"op": "w", "sid": 1, "n": 10, "fin": True}, {"op": "w", "sid": 3, "n": 10}, {"op": "reset", "sid": 3}]},
        "settle": True}, ["1rtt"]),
    "client_streams": ("client", {"cut": "connected", "script": {
        "c": [{"op": "w", "sid": 0, "n": 2000}, {"op": "w", "sid": 4, "n": 10, "fin": True}, {"op": "reset", "sid": 4}],
        "s": [{"op": "w", "sid": 1, "n": 10, "fin": True}, {"op": "w", "sid": 3, "n": 10}]},
        "settle": True}, ["1rtt"]),
    "server_v2_cubic": ("server", {"cut": "connected", "cfg": {"version": V2, "cc": "cubic"}}, ["1rtt"]),
    "client_closing": ("client", {"cut": "connected", "close": True}, ["1rtt"]),
    # a resuming client with accepted early data: the one state in which the peer holds 0-RTT keys
    "server_early_data": ("server", {"cut": ("steps", 2), "cfg": {"tickets": "obtain"},
                                     "script": {"c": [{"op": "w", "sid": 0, "n": 300, "fin": False, "g": "pre"}]}}, ["0rtt"]),
    "server_early_data_v2": ("server", {"cut": ("steps", 2), "cfg": {"tickets": "obtain", "version": V2},
                                        "script": {"c": [{"op": "w", "sid": 0, "n": 300, "fin": False, "g": "pre"}]}}, ["0rtt"]),
    "server_mid_handshake_v2": ("server", {"cut": ("steps", 1), "cfg": {"version": V2, "chain": "bigchain"}},
                                ["initial", "handshake"]),
}
QUICK_STATES = ["server_fresh", "client_first_flight", "server_after_initial", "client_after_server_flight",
                "server_connected", "client_connected", "client_after_retry", "server_streams", "server_early_data"]


def make_bot(state):
    role, kw, epochs = STATES[state]
    kw = dict(kw)
    settle = kw.pop("settle", False)
    close = kw.pop("close", False)
    if settle:
        def pred(w):
            return (w.ep["c"].hs_done and w.ep["s"].hs_done and w.ep["c"].op_i == len(w.ep["c"].ops)
                    and w.ep["s"].op_i == len(w.ep["s"].ops) and w.nsteps > 12)
        kw["cut"] = pred
    if kw.get("cfg", {}).get("tickets") == "obtain":
        kw["cfg"] = netsim.resolve_tickets(kw["cfg"])
    bot = peerbot.PeerBot(role, **kw)
    if epochs == ["0rtt"] and bot.keys("0rtt") is None:
        raise core.HarnessError("state %s: the peer has no 0-RTT keys" % state)
    if close:
        bot.app("close", lambda c: c.close(error_code=0, reason_phrase="x"))
    return bot


def inputs_for(state, tier):
    """deterministic list of (label, kind, epoch, bytes)"""
    role, kw, epochs = STATES[state]
    bot = make_bot(state)
    out = []
    for label, data in raw_menu(bot, tier):
        out.append((label, "raw", None, data))
    fm = frame_menu(tier)
    for ep in epochs:
        if bot.keys(ep) is None:
            continue
        for label, payload in fm:
            out.append(("%s@%s" % (label, ep), "frames", ep, payload))
    return out


# --------------------------------------------------- anti-amplification budget part
def budget_case(args):
    """A server whose 3x budget for the unvalidated client address is drained, topped up by a
    tiny garbage datagram of length L, then made to close by a protected packet arriving from
    ANOTHER address: the closing packet has to be built within the remaining budget."""
    L, trig = args
    bot = peerbot.PeerBot("server", cut=("steps", 1), cfg={"chain": "bigchain"})
    E = bot.E
    out = {"L": L, "trig": trig, "viol": None, "budget": None, "closed": None}
    try:
        for _ in range(12):          # PTO retransmissions until the budget is exhausted
            t = E.conn.get_timer()
            if t is None or t == E.conn._close_at:
                break
            n0 = len(E.sent_packets)
            bot.timer()
            if len(E.sent_packets) == n0 and _ > 3:
                break
        if L:
            # a caller may hand over several received datagrams before it transmits: the top-up
            # datagram is delivered without an intermediate datagrams_to_send()
            E.conn.receive_datagram(bytes([0x40]) + bytes(L - 1), bot.peer_addr, now=bot.w.now)
        path = E.conn._network_paths[0]
        out["budget"] = 3 * path.bytes_received - path.bytes_sent
        frames = {"handshake_done": b"\x1e", "unknown": b"\x21", "reserved_stream": v(8) + v(3) + v(0) + v(0),
                  "crypto_garbage": v(6) + v(0) + v(4) + b"\x63\x00\x00\x00"}[trig]
        pkt = bot.build(None, epoch="handshake", payload=frames)
        bot.feed(pkt, addr=("10.7.7.7", 7777))
        out["closed"] = E.conn._state.name
        bot.drive_to_end()
    except core.HarnessError:
        raise
    except Exception as e:  # noqa
        entry, inner = classify(e)
        if inner is None:
            raise
        out["viol"] = ({"monitor": "api_exception", "exc": type(e).__name__, "where": inner, "entry": entry,
                        "role": "server", "input": "close_with_small_budget"},
                       "%s: %s in %s (API entry %s): server closing with %r bytes of anti-amplification "
                       "budget left (top-up datagram of %d bytes, trigger %s from another address)"
                       % (type(e).__name__, e, inner, entry, out["budget"], L, trig))
    return out


def gaps_case(args):
    """N ack-eliciting packets using every other packet number, E's ACKs never acknowledged:
    the ACK frame E owes grows by one range per packet (peer-driven, unbounded)."""
    state, epoch, n = args
    bot = make_bot(state)
    out = {"state": state, "epoch": epoch, "n": 0, "viol": None, "max_ranges": 0}
    try:
        base = bot.next_pn + 1
        for i in range(n):
            r = bot.send([{"t": "PING"}], epoch=epoch, pn=base + 2 * i)
            out["n"] += 1
            for f in r.frames("ACK"):
                out["max_ranges"] = max(out["max_ranges"], len(f["ranges"]))
            if i % 7 == 0:
                bot.advance(0.002)
            if bot.E.conn._state.name != "CONNECTED":
                break
        for _ in range(3):
            t = bot.E.conn.get_timer()
            if t is None or t == bot.E.conn._close_at:
                break
            r = bot.timer()
            for f in r.frames("ACK"):
                out["max_ranges"] = max(out["max_ranges"], len(f["ranges"]))
    except core.HarnessError:
        raise
    except Exception as e:  # noqa
        entry, inner = classify(e)
        if inner is None:
            raise
        out["viol"] = ({"monitor": "api_exception", "exc": type(e).__name__, "where": inner, "entry": entry,
                        "role": STATES[state][0], "input": "alternating_packet_numbers"},
                       "%s: %s in %s (API entry %s) after %d ack-eliciting %s packets with every other packet "
                       "number in state %s" % (type(e).__name__, e, inner, entry, out["n"], epoch, state))
    return out


def run_gaps(ctx):
    tasks = [("server_connected", "1rtt", 700), ("client_connected", "1rtt", 700),
             ("server_after_initial", "handshake", 700), ("client_after_server_flight", "handshake", 300)]
    res = core.pmap(gaps_case, tasks)
    for r in res:
        if r["viol"]:
            ctx.violation(r["viol"][0], r["viol"][1], {"part": "gaps", "state": r["state"], "epoch": r["epoch"]})
    ctx.part("alternating_packet_numbers", evaluations=sum(r["n"] for r in res), states=len(res),
             transitions=sum(r["n"] for r in res), distinct_nontrivial=len(set(r["max_ranges"] for r in res)) + 1,
             max_ack_ranges_seen=max(r["max_ranges"] for r in res))


def config_case(args):
    """A complete genuine exchange between two real endpoints under one version / cipher-suite /
    ALPN configuration pair: every datagram is genuine peer output, so no API call may raise."""
    from vlib import explore
    from aioquic.tls import CipherSuite

    label, cfg, c_suites, s_suites = args
    out = {"label": label, "viol": None, "outcome": None}
    w = netsim.NetSim(cfg, {"c": [{"op": "ping", "uid": 1}]}, explore.Chooser([]), max_steps=120, horizon=30.0)
    if c_suites:
        w.c_cfg.cipher_suites = [CipherSuite(x) for x in c_suites]
    if s_suites:
        w.s_cfg.cipher_suites = [CipherSuite(x) for x in s_suites]
    try:
        out["outcome"] = w.run(lambda ww: 1 in ww.ep["c"].pings_acked)
        for name in ("c", "s"):
            ep = w.ep[name]
            if ep.conn is not None:
                ep.conn.get_timer()
                ep.conn.datagrams_to_send(now=w.now)
                ep.conn.next_event()
    except core.HarnessError:
        raise
    except Exception as e:  # noqa
        entry, inner = classify(e)
        if inner is None:
            raise
        out["viol"] = ({"monitor": "api_exception", "exc": type(e).__name__, "where": inner, "entry": entry,
                        "input": "genuine_peer_flight"},
                       "%s: %s in %s (API entry %s) during a genuine exchange under configuration %s"
                       % (type(e).__name__, e, inner, entry, label))
    return out


def _config_tasks():
    tasks = []
    clients = [(V1, [V1]), (V2, [V2]), (V1, [V1, V2]), (V1, [V2, V1]), (V2, [V1, V2]), (V2, [V2, V1])]
    servers = [[V1], [V2], [V1, V2], [V2, V1]]
    for orig, sup in clients:
        for ssup in servers:
            cfg = {"version": orig, "c_supported": sup, "s_supported": ssup}
            tasks.append(("versions c=%x%s s=%s" % (orig, [hex(x) for x in sup], [hex(x) for x in ssup]), cfg, None, None))
    suites = [0x1301, 0x1302, 0x1303]
    import itertools

    lists = [list(p) for n in (1, 2) for p in itertools.permutations(suites, n)]
    for cs in lists:
        for ss in lists:
            tasks.append(("suites c=%s s=%s" % (cs, ss), {}, cs, ss))
    for ca in (["a"], ["b"], ["a", "b"]):
        for sa in (["a"], ["b"], ["b", "a"]):
            tasks.append(("alpn c=%s s=%s" % (ca, sa), {"alpn": ca, "s_alpn": sa}, None, None))
    return tasks


def run_configs(ctx):
    tasks = _config_tasks()
    res = core.pmap(config_case, tasks, chunksize=4)
    outcomes = set()
    for r in res:
        outcomes.add(r["outcome"])
        if r["viol"]:
            ctx.violation(r["viol"][0], r["viol"][1], {"part": "config", "label": r["label"]})
    ctx.part("genuine_exchange_config_matrix", evaluations=len(res), states=len(res), transitions=len(res) * 10,
             distinct_nontrivial=len(outcomes))


def loss_case(args):
    """A genuine bulk exchange under scripted loss episodes (everything sent inside a window is lost):
    all input is genuine peer output - ACK frames that declare losses, PTO probes - so nothing may raise."""
    from vlib import explore

    label, cfg = args
    out = {"label": label, "viol": None, "outcome": None, "cfg": cfg}
    script = {"c": [{"op": "w", "sid": 0, "n": 30000, "fin": True, "g": "hs"}],
              "s": [{"op": "w", "sid": 1, "n": 30000, "fin": True, "g": "hs"}]}
    w = netsim.NetSim(cfg, script, explore.Chooser([]), max_steps=4000, horizon=60.0)
    try:
        out["outcome"] = w.run(lambda ww: ww.ep["s"].rx_fin.get(0) and ww.ep["c"].rx_fin.get(1))
    except core.HarnessError:
        raise
    except Exception as e:  # noqa
        entry, inner = classify(e)
        if inner is None:
            raise
        out["viol"] = ({"monitor": "api_exception", "exc": type(e).__name__, "where": inner, "entry": entry,
                        "input": "genuine_peer_flight_under_loss"},
                       "%s: %s in %s (API entry %s) during a genuine bulk exchange with loss episodes, configuration %s"
                       % (type(e).__name__, e, inner, entry, label))
    out["lost"] = sum(1 for st in w.steps if st[0] == "send_lost") if hasattr(w, "steps") else 0
    return out


def run_loss(ctx):
    tasks = []
    starts = (0.05, 0.075, 0.1) if ctx.tier == "quick" else (0.05, 0.06, 0.075, 0.09, 0.1, 0.13)
    for cc in ("reno", "cubic"):
        for version in (V1,) if ctx.tier == "quick" else (V1, V2):
            for a in starts:
                for dur in (0.03, 0.3):
                    for gap in (0.1, 0.6, 2.0):
                        for n in (2, 3):
                            wins, t = [], a
                            for _ in range(n):
                                wins.append((round(t, 3), round(t + dur, 3)))
                                t += dur + gap
                            tasks.append(("cc=%s v=%x blackouts=%s" % (cc, version, wins),
                                          {"cc": cc, "version": version, "blackouts": wins, "idle": 30.0}))
    res = core.pmap(loss_case, tasks, chunksize=2)
    outcomes = {}
    for r in res:
        outcomes[r["outcome"]] = outcomes.get(r["outcome"], 0) + 1
        if r["viol"]:
            ctx.violation(r["viol"][0], r["viol"][1], {"part": "loss", "label": r["label"], "cfg": r["cfg"]})
    if not ctx.violations and outcomes.get("done", 0) < len(tasks) // 2:
        raise core.HarnessError("loss part: most exchanges do not complete: %r" % outcomes)
    ctx.part("genuine_bulk_under_loss_episodes", evaluations=len(res), states=len(res), transitions=len(res) * 100,
             distinct_nontrivial=len(outcomes), outcomes=outcomes)


# ------------------------------------------------------------------ ACK / loss episodes
EPISODE_MOVES = ("LOSS", "ACKALL", "PTO")


def episodes_case(args):
    """One real endpoint with a large write pending (always congestion-limited); the key-holding peer
    acknowledges in blocks: LOSS = after one second only the newest outstanding packet is acknowledged
    (everything older is declared lost - a new loss episode each time), ACKALL, PTO = the endpoint's timer
    fires.  Every input is a well-formed ACK frame a real peer could send: nothing may raise."""
    role, cc, blocks = args
    out = {"viol": None, "steps": 0, "role": role, "cc": cc, "blocks": blocks, "cwnd_min": None}
    bot = peerbot.PeerBot(role, cut="connected", cfg={"cc": cc})
    sid = 0 if role == "client" else 1
    step = "send_stream_data"
    def serve_pacing():
        # a caller honours get_timer(): pacing deadlines (fractions of a millisecond) are served at once
        conn = bot.E.conn
        for _ in range(64):
            if bot.E.terminated is not None or conn._pacing_at is None:
                break
            t = conn.get_timer()
            if t is None or t > conn._pacing_at:
                break
            bot.timer()

    try:
        bot.app("send_stream_data", lambda c: c.send_stream_data(sid, bytes(400000), end_stream=True))
        serve_pacing()
        for mv, rep in blocks:
            for _ in range(rep):
                step = mv
                out["steps"] += 1
                if bot.E.conn._state.name != "CONNECTED":
                    return out
                if mv == "LOSS":
                    pns = sorted(x.pn for x in bot.outstanding if x.epoch == "A")
                    if len(pns) < 2:
                        continue
                    bot.advance(1.0)
                    bot.ack([pns[-1]])
                    # the harness decided: the older packets are lost for good
                    bot.outstanding = [x for x in bot.outstanding if not (x.epoch == "A" and x.pn < pns[-1])]
                    # packets inside the reordering window are declared lost by the loss timer a little later
                    for _ in range(3):
                        t = bot.E.conn.get_timer()
                        if t is None or t == bot.E.conn._close_at or t - bot.w.now > 0.25:
                            break
                        bot.timer()
                        serve_pacing()
                elif mv == "ACKALL":
                    bot.advance(0.01)      # a round trip passes (packets sent from now on are past the recovery start)
                    bot.ack()
                else:
                    t = bot.E.conn.get_timer()
                    if t is None or t == bot.E.conn._close_at:
                        continue
                    bot.timer()
                serve_pacing()
                cw = bot.E.conn._loss._cc.congestion_window
                out["cwnd_min"] = cw if out["cwnd_min"] is None else min(out["cwnd_min"], cw)
    except core.HarnessError:
        raise
    except Exception as e:  # noqa
        entry, inner = classify(e)
        if inner is None:
            raise
        out["viol"] = ({"monitor": "api_exception", "exc": type(e).__name__, "where": inner, "entry": entry,
                        "role": role, "input": "ack_loss_episodes"},
                       "%s: %s in %s (API entry %s) at step %d (%s) of the acknowledgement pattern %s, %s endpoint, "
                       "congestion control %s" % (type(e).__name__, e, inner, entry, out["steps"], step,
                                                  "".join("%s^%d " % b for b in blocks).strip(), role, cc))
    return out


def run_episodes(ctx):
    reps = (1, 2, 4, 8)
    one = [((m, r),) for m in EPISODE_MOVES for r in reps]
    two = [a + b for a in one for b in one if a[0][0] != b[0][0]]
    three = [a + b for a in two for b in one if a[-1][0] != b[0][0]]
    seqs = one + two + (three if ctx.tier != "quick" else [x for i, x in enumerate(three) if i % 8 == ctx.seed % 8])
    tasks = [(role, cc, blocks) for blocks in seqs for cc in ("cubic", "reno")
             for role in (("server",) if ctx.tier == "quick" else ("server", "client"))]
    res = core.pmap(episodes_case, tasks, chunksize=8)
    reported = set()
    for r in sorted(res, key=lambda r: sum(b[1] for b in r["blocks"])):
        if r["viol"]:
            k = core.stable_hash(r["viol"][0])
            if k in reported:
                continue
            reported.add(k)
            ctx.violation(r["viol"][0], r["viol"][1], {"part": "episodes", "role": r["role"], "cc": r["cc"],
                                                       "blocks": [list(b) for b in r["blocks"]]})
    mins = [r["cwnd_min"] for r in res if r["cwnd_min"] is not None]
    if not mins or min(mins) > 3000:
        raise core.HarnessError("episodes: the congestion window never reached its minimum (%r)" % (min(mins) if mins else None))
    ctx.part("ack_loss_episodes", evaluations=sum(r["steps"] for r in res), states=len(res),
             transitions=sum(r["steps"] for r in res), patterns=len(seqs), smallest_congestion_window=min(mins),
             distinct_nontrivial=len(set(mins)))


def dcid_case(args):
    """The key-holding peer addresses its packets to several of the endpoint's connection IDs in turn
    (reordering around a connection-ID change looks like that), more often than the endpoint has spare
    peer connection IDs to answer each switch with a fresh one: all of it is legal input."""
    role, pattern, n = args
    out = {"viol": None, "n": 0, "role": role, "pattern": pattern, "switches": 0}
    bot = peerbot.PeerBot(role, cut="connected")
    step = 0
    try:
        cids = bot.e_cids()
        seqs = sorted(cids)[:3]
        if len(seqs) < 2:
            raise core.HarnessError("endpoint issued fewer than two connection IDs")
        last = None
        for i in range(n):
            step = i
            s = seqs[pattern[i % len(pattern)] % len(seqs)]
            bot.dcid = cids[s]
            if s != last:
                out["switches"] += 1
            last = s
            bot.send([{"t": "PING"}])
            out["n"] += 1
            if bot.E.conn._state.name != "CONNECTED":
                break
            if i % 5 == 4:
                bot.advance(0.002)
                t = bot.E.conn.get_timer()
                if t is not None and t != bot.E.conn._close_at and t <= bot.w.now:
                    bot.timer()
        bot.drive_to_end(max_timers=2)
    except core.HarnessError:
        raise
    except Exception as e:  # noqa
        entry, inner = classify(e)
        if inner is None:
            raise
        out["viol"] = ({"monitor": "api_exception", "exc": type(e).__name__, "where": inner, "entry": entry,
                        "role": role, "input": "alternating_destination_connection_ids"},
                       "%s: %s in %s (API entry %s) at packet %d of a peer that alternates between the %s endpoint's "
                       "connection IDs in the pattern %r" % (type(e).__name__, e, inner, entry, step, role, pattern))
    return out


def run_dcid(ctx):
    pats = [(0, 1), (1, 0, 2), (0, 0, 1), (1, 2), (0, 1, 1, 2)]
    tasks = [(role, p, 24) for role in ("server", "client") for p in pats]
    res = core.pmap(dcid_case, tasks)
    for r in res:
        if r["viol"]:
            ctx.violation(r["viol"][0], r["viol"][1], {"part": "dcid", "role": r["role"], "pattern": list(r["pattern"])})
    ctx.part("alternating_destination_connection_ids", evaluations=sum(r["n"] for r in res), states=len(res),
             transitions=sum(r["n"] for r in res), distinct_nontrivial=len(set(r["switches"] for r in res)) + 1,
             max_switches=max(r["switches"] for r in res))


def run_ack_patterns(ctx):
    """Every arrival order of small sets of packet numbers, ack-eliciting packets mixed with ACK-only packets
    that acknowledge everything the endpoint has sent (C12's pattern generator; C12 judges the ACK frames,
    here only: nothing raises)."""
    from checks import c12_gaps

    pats = c12_gaps.patterns(ctx.tier) + c12_gaps.long_patterns("quick")
    tasks = []
    for role in ("server", "client"):
        for i in range(0, len(pats), 40):
            tasks.append((role, pats[i:i + 40]))
    res = core.pmap(c12_gaps.run_pattern, tasks)
    n = 0
    seen = set()
    for r in res:
        n += r["n"]
        for sig, what, rp in sorted(r["viol"], key=lambda x: len(x[2]["pattern"])):
            if sig.get("monitor") != "api_exception":
                continue
            sig = {"monitor": "api_exception", "exc": sig.get("exc"), "input": "packet_number_arrival_pattern"}
            k = core.stable_hash(sig)
            if k in seen:
                continue
            seen.add(k)
            ctx.violation(sig, "%s [a real %s endpoint, arrival pattern of a key-holding peer]" % (what, rp["role"]),
                          {"part": "ack_patterns", "role": rp["role"], "pattern": rp["pattern"]})
    ctx.part("packet_number_arrival_patterns", evaluations=n, states=n, transitions=n * 3, distinct_nontrivial=len(pats))


def run_budget(ctx):
    tasks = [(L, trig) for L in range(0, 44) for trig in ("handshake_done", "unknown", "crypto_garbage")]
    res = core.pmap(budget_case, tasks, chunksize=4)
    budgets = set()
    closed = 0
    for r in res:
        budgets.add(r["budget"])
        closed += 1 if (r["closed"] in ("CLOSING", "DRAINING", "TERMINATED") or r["viol"]) else 0
        if r["viol"]:
            ctx.violation(r["viol"][0], r["viol"][1], {"part": "budget", "L": r["L"], "trig": r["trig"]})
    ctx.part("server_small_budget_close", evaluations=len(res), states=len(res), transitions=len(res),
             distinct_nontrivial=len(budgets), closed=closed,
             budgets="%s..%s" % (min(b for b in budgets if b is not None), max(b for b in budgets if b is not None)))
    if closed < len(res) // 2:
        raise core.HarnessError("budget part: only %d of %d cases closed" % (closed, len(res)))


# ----------------------------------------------------------------------- running
def classify(exc):
    tb = traceback.extract_tb(exc.__traceback__)
    inner = None
    entry = None
    for fr in tb:
        if "/aioquic/" in fr.filename:
            if entry is None:
                entry = fr.name
            inner = "%s:%s" % (fr.filename.split("/aioquic/")[-1], fr.name)
    return entry, inner


def apply_input(bot, item):
    label, kind, epoch, data = item
    if kind == "raw":
        bot.feed(data)
    else:
        pad = 1200 if epoch == "initial" and bot.p_name == "c" else None
        bot.feed(bot.build(None, epoch=epoch, payload=data), pad_to=pad)


def run_chunk(args):
    """Run a slice of the inputs of one state, chaining on the same endpoint until it closes."""
    state, tier, lo, hi = args
    items = inputs_for(state, tier)[lo:hi]
    res = {"n": 0, "bots": 0, "closed": {}, "ignored": 0, "viol": [], "reacted": 0, "maxchain": 0}
    bot = None
    chain = []
    for item in items:
        if bot is None or bot.E.terminated is not None or len(chain) >= 60:
            bot = make_bot(state)
            chain = []
            res["bots"] += 1
        chain.append(item)
        res["n"] += 1
        res["maxchain"] = max(res["maxchain"], len(chain))
        try:
            n_ev, n_sent = len(bot.E.events), len(bot.E.sent_packets)
            apply_input(bot, item)
            closing = bot.E.conn._state.name in ("CLOSING", "DRAINING", "TERMINATED")
            if closing or bot.E.terminated is not None:
                bot.drive_to_end()
                ev = bot.E.terminated
                code = ev.error_code if ev is not None else "not_terminated"
                res["closed"][code] = res["closed"].get(code, 0) + 1
                if ev is None:
                    res["viol"].append(({"monitor": "close.never_terminated", "state": state,
                                         "input": item[0].split("@")[0]},
                                        "closing after %s in %s but no ConnectionTerminated after 8 timers"
                                        % (item[0], state), [item]))
                bot = None
            elif len(bot.E.events) == n_ev and len(bot.E.sent_packets) == n_sent:
                res["ignored"] += 1
            else:
                res["reacted"] += 1
        except core.HarnessError:
            raise
        except Exception as e:  # noqa
            entry, inner = classify(e)
            if inner is None:
                raise
            # re-derive on a fresh endpoint: the single input first, then the chain
            repro = None
            for cand in ([item], list(chain)):
                b2 = make_bot(state)
                try:
                    for it in cand:
                        apply_input(b2, it)
                        if b2.E.conn._state.name in ("CLOSING", "DRAINING", "TERMINATED"):
                            b2.drive_to_end()
                except Exception as e2:  # noqa
                    if type(e2) is type(e) and classify(e2)[1] == inner:
                        repro = cand
                        break
            if repro is None:
                raise core.HarnessError("exception %r in state %s did not reproduce on a fresh endpoint"
                                        % (e, state))
            labels = [it[0].split("@")[0].split("_trunc")[0] for it in repro]
            sig = {"monitor": "api_exception", "exc": type(e).__name__, "where": inner, "entry": entry,
                   "role": STATES[state][0], "input": labels[-1].replace("_each_x2", "").split("_x2")[0] if len(repro) == 1 else "chain"}
            res["viol"].append((sig, "%s: %s in %s (API entry %s) on input %s in state %s%s"
                                % (type(e).__name__, e, inner, entry, item[0], state,
                                   "" if len(repro) == 1 else " after a chain of %d inputs" % len(repro)),
                                [(it[0], it[1], it[2], it[3].hex()) for it in repro], state))
            bot = None
    return res


def run(ctx):
    tier = ctx.tier
    states = QUICK_STATES if tier == "quick" else list(STATES)
    if tier == "quick":
        extra = [s for s in STATES if s not in QUICK_STATES]
        states = states + [extra[ctx.seed % len(extra)]]
    tasks = []
    sizes = {}
    for st in states:
        n = len(inputs_for(st, tier))
        sizes[st] = n
        step = 250
        for lo in range(0, n, step):
            tasks.append((st, tier, lo, min(n, lo + step)))
    results = core.pmap(run_chunk, tasks, ordered=True, on_crash=lambda it, detail: ("CRASH", detail))
    # a worker that died (memory corruption in the C helpers): isolate the single input(s),
    # keep the results of all other inputs of that chunk
    name = "%s.%s" % (run_chunk.__module__, run_chunk.__qualname__)

    def safe_range(st, tr, lo, hi, depth=0):
        """returns list of result dicts; reports crashers"""
        if lo >= hi:
            return []
        kind, val = core._run_isolated(name, (st, tr, lo, hi))
        if kind == "ok":
            return [val]
        if kind != "crash":
            raise core.HarnessError("isolated chunk failed: %s" % (val,))
        if hi - lo == 1:
            it = inputs_for(st, tr)[lo]
            label = it[0]
            cls = label.split("_t")[0] if label.startswith("raw:long") else label.split("@")[0]
            ctx.violation({"monitor": "process_crash", "state": st, "input_class": cls},
                          "the interpreter died (%s) while %s processed input %s (%d bytes)"
                          % (val, st, label, len(it[3])),
                          {"state": st, "inputs": [(it[0], it[1], it[2], it[3].hex())]})
            return [{"n": 1, "bots": 1, "closed": {"process_crash": 1}, "ignored": 0, "viol": [],
                     "reacted": 0, "maxchain": 1}]
        mid = (lo + hi) // 2
        return safe_range(st, tr, lo, mid, depth + 1) + safe_range(st, tr, mid, hi, depth + 1)

    flat_tasks, flat_results = [], []
    for task, r in zip(tasks, results):
        if isinstance(r, tuple) and r and r[0] == "CRASH":
            st, tr, lo, hi = task
            mid = (lo + hi) // 2
            for sub in safe_range(st, tr, lo, mid) + safe_range(st, tr, mid, hi):
                flat_tasks.append(task)
                flat_results.append(sub)
        else:
            flat_tasks.append(task)
            flat_results.append(r)
    tasks, results = flat_tasks, flat_results
    per_state = {}
    outcomes = set()
    for (st, _, lo, hi), r in zip(tasks, results):
        ps = per_state.setdefault(st, {"inputs": 0, "ignored": 0, "reacted": 0, "closed": {}, "endpoints": 0})
        ps["inputs"] += r["n"]
        ps["ignored"] += r["ignored"]
        ps["reacted"] += r["reacted"]
        ps["endpoints"] += r["bots"]
        for k, n in r["closed"].items():
            ps["closed"][str(k)] = ps["closed"].get(str(k), 0) + n
            outcomes.add((st, str(k)))
        for vi in r["viol"]:
            sig, what, repro = vi[0], vi[1], vi[2]
            ctx.violation(sig, what, {"state": st, "inputs": repro})
    for st, ps in per_state.items():
        closed = sum(ps["closed"].values())
        ctx.part(st, evaluations=ps["inputs"], states=ps["endpoints"], transitions=ps["inputs"],
                 ignored=ps["ignored"], reacted=ps["reacted"], closed=closed,
                 distinct_nontrivial=len(ps["closed"]) + (1 if ps["reacted"] else 0) + (1 if ps["ignored"] else 0),
                 close_codes=ps["closed"])
        outcomes.add((st, "ignored" if ps["ignored"] else "-"))
    if len(outcomes) < 6:
        raise core.HarnessError("vacuous: %d distinct outcomes" % len(outcomes))
    run_budget(ctx)
    run_gaps(ctx)
    run_configs(ctx)
    run_loss(ctx)
    run_episodes(ctx)
    run_ack_patterns(ctx)
    run_dcid(ctx)
    # hostile TLS messages with valid MACs from a key-holding QUIC-level adversary
    from checks import c05_tls

    c05_tls.run_tls(ctx)
    ctx.sample({"state": "server_connected", "input": "NEW_CONNECTION_ID@1rtt", "payload_hex": "18020008" + "02" * 8 + "00" * 16})
    ctx.sample({"state": "server_fresh", "input": "raw:fb40_len20"})
    ctx.cov["rule"] = (
        "for each connection state (fresh server, client first flight, after Retry / Version "
        "Negotiation, mid-handshake, connected, with streams in various states, closing) every input of a "
        "finite grammar is handed to a real endpoint through receive_datagram: raw header layouts "
        "(first byte x version x CID lengths x token length x declared length x datagram length), "
        "VN/Retry variants, prefixes of genuine datagrams, and correctly protected packets carrying each "
        "frame type with boundary field values, every truncation, repetitions, wrong epochs; inputs are "
        "chained on one endpoint until it closes (histories), then the timer/transmit/event API is driven "
        "to termination; non-trivial = distinct (state, close code | ignored | reacted) classes")
    ctx.cov["exhaustive"] = True
    ctx.cov["bounds"] = {"states": states, "inputs_per_state": sizes}
    ctx.assumptions += ["TLS messages with valid MACs from a key-holding TLS adversary are covered by the "
                        "tls part of this check only where listed in coverage.parts"]


def replay(ctx, obj):
    rp = obj["replay"]
    if rp.get("part") == "gaps":
        r = gaps_case((rp["state"], rp["epoch"], 700))
        print({k: v for k, v in r.items() if k != "viol"})
        if r["viol"]:
            print("VIOLATION property=C05 replay=(replayed): %s" % r["viol"][1])
            return 1
        return 0
    if rp.get("part") == "budget":
        r = budget_case((rp["L"], rp["trig"]))
        print(r)
        if r["viol"]:
            print("VIOLATION property=C05 replay=(replayed): %s" % r["viol"][1])
            return 1
        return 0
    if rp.get("part") == "dcid":
        r = dcid_case((rp["role"], tuple(rp["pattern"]), 24))
        print({k: v for k, v in r.items() if k != "viol"})
        if r["viol"]:
            print("VIOLATION property=C05 replay=(replayed): %s" % r["viol"][1])
            return 1
        return 0
    if rp.get("part") == "ack_patterns":
        from checks import c12_gaps

        r = c12_gaps.run_pattern((rp["role"], [tuple(rp["pattern"])]))
        for sig, what, _ in r["viol"]:
            if sig.get("monitor") == "api_exception":
                print("VIOLATION property=C05 replay=(replayed): %s" % what)
                return 1
        print("no violation on replay")
        return 0
    if rp.get("part") == "episodes":
        r = episodes_case((rp["role"], rp["cc"], [tuple(b) for b in rp["blocks"]]))
        print({k: v for k, v in r.items() if k != "viol"})
        if r["viol"]:
            print("VIOLATION property=C05 replay=(replayed): %s" % r["viol"][1])
            return 1
        return 0
    if rp.get("part") == "loss":
        cfg = dict(rp["cfg"], blackouts=[tuple(x) for x in rp["cfg"]["blackouts"]])
        r = loss_case((rp["label"], cfg))
        print({k: v for k, v in r.items() if k != "viol"})
        if r["viol"]:
            print("VIOLATION property=C05 replay=(replayed): %s" % r["viol"][1])
            return 1
        return 0
    if rp.get("part") == "config":
        print("re-running the configuration matrix")
        bad = 0
        for r in core.pmap(config_case, _config_tasks(), chunksize=4):
            if r["viol"] and r["label"] == rp["label"]:
                print("VIOLATION property=C05 replay=(replayed): %s" % r["viol"][1])
                bad = 1
        return bad
    if rp.get("part") == "tls":
        from checks import c05_tls

        return c05_tls.replay_tls(ctx, obj)
    st = rp["state"]
    bot = make_bot(st)
    try:
        for label, kind, epoch, hx in rp["inputs"]:
            print("  input", label, kind, epoch, len(hx) // 2, "bytes")
            apply_input(bot, (label, kind, epoch, bytes.fromhex(hx)))
            if bot.E.conn._state.name in ("CLOSING", "DRAINING", "TERMINATED"):
                bot.drive_to_end()
            print("    state", bot.E.conn._state.name, "terminated", bot.E.terminated)
    except Exception as e:  # noqa
        traceback.print_exc()
        print("VIOLATION property=C05 replay=(replayed): %s: %s" % (type(e).__name__, e))
        return 1
    print("no violation on replay")
    return 0
