"""C03 - the handshake completes only with the authentic peer and both sides agree.

Worlds
  tls relay   a real `tls.Context` client/server pair with a relay that can XOR one byte
              of one handshake message in transit (transcript integrity), and a real
              client against the key-holding `reftls.ServerAdversary` (CertificateVerify
              made with another key; selection of a PSK that was never offered)
  quic        two real `QuicConnection`s in `netsim.NetSim`; a monitor injects the
              per-side configuration (cipher suites, versions, ALPN, certificate menu,
              session tickets, client-certificate request), may re-seal an altered
              Initial packet with `refquic`, and reads the wire through NetSim's observer

Parts
  integrity_tls   every byte x {0x01,0x80,0xFF} of CH, SH, EE, CR, Cert, CV, Fin (server
                  flight) and Cert, CV, Fin (client flight), +/- client-certificate request
  integrity_quic  the same alterations of CH / SH inside re-sealed Initial packets
  auth            certificate menu x key types x DNS/IP name; wrong-key CertificateVerify;
                  PSK never offered
  agreement       configuration product (pairwise closure in quick, 3-wise closure in
                  thorough + a rotating slice of the negotiation product)
  loss            ~20 most distinct configurations at deviation bound 1

Oracle: see `judge()`; third opinion on secrets = `reftls.derive_all_secrets` over the
handshake messages reassembled from the CRYPTO frames seen on the wire.
"""
import datetime
import itertools
import logging
import os
import warnings

from vlib import core, explore, netcheck, netsim

LEVEL = "fault_enumeration"

from vlib import certs, refquic, reftls as R  # noqa: E402
from vlib.build import CACHE  # noqa: E402

from aioquic import tls  # noqa: E402
from aioquic.buffer import Buffer  # noqa: E402
from aioquic.quic import events as qev  # noqa: E402
from aioquic.quic.configuration import QuicConfiguration  # noqa: E402
from aioquic.quic.connection import QuicConnection  # noqa: E402

warnings.filterwarnings("ignore")   # cryptography deprecation chatter on altered certificates
logging.getLogger("quic").setLevel(logging.CRITICAL)   # aioquic logs every failed handshake

V1, V2 = refquic.V1, refquic.V2
VER = {1: V1, 2: V2}
MASKS = (0x01, 0x80, 0xFF)
KEY_TYPES = ("ed25519", "ed448", "p256", "p384", "rsa2048")
SUITES = (0x1301, 0x1302, 0x1303)

# ------------------------------------------------------------- certificate menu
MENU_DIR = os.path.join(CACHE, "c03certs")
MENU = ("valid", "wrongname", "expired", "notyet", "selfsigned", "untrusted_ca", "missing_intermediate",
        "untrusted_ca_with_root", "untrusted_intermediate_with_root")


def ensure_menu():
    """<kt>_<entry>.pem/.key for every key type: the defect menu of DESIGN C03 (vlib.certs has
    it for Ed25519 only).  Re-creatable: everything is derived from vlib.certs' CA."""
    marker = os.path.join(MENU_DIR, "DONE.v2")
    if os.path.exists(marker):
        return
    os.makedirs(MENU_DIR, exist_ok=True)
    with open(certs.path("ca.key"), "rb") as f:
        cak = R.load_pem_key(f.read())
    ock = certs.gen_key("ed25519")   # an untrusted CA
    oca = certs.make_cert("other-c03-ca", ock, ca=True)   # ... whose self-signed root the rogue server may ship itself
    oik = certs.gen_key("ed25519")   # an intermediate under the untrusted CA
    oic = certs.make_cert("other-c03-intermediate", oik, "other-c03-ca", ock, ca=True)
    ik = certs.gen_key("ed25519")    # an intermediate under the trusted CA
    ic = certs.make_cert("verif-c03-intermediate", ik, "verif-ca", cak, ca=True)
    now = certs.NOW
    day = datetime.timedelta(days=1)
    sans = ("localhost", "127.0.0.1")

    def w(name, data):
        tmp = os.path.join(MENU_DIR, name + ".tmp%d" % os.getpid())
        with open(tmp, "wb") as f:
            f.write(data)
        os.replace(tmp, os.path.join(MENU_DIR, name))

    for kt in KEY_TYPES:
        k = certs.gen_key(kt)
        w(kt + ".key", certs.pem_key(k))
        w(kt + "_other.key", certs.pem_key(certs.gen_key(kt)))   # for wrong-key CertificateVerify
        mk = {
            "wrongname": certs.make_cert("example.org", k, "verif-ca", cak, sans=("example.org", "10.9.9.9")),
            "expired": certs.make_cert("localhost", k, "verif-ca", cak, sans=sans,
                                       not_before=now - 800 * day, not_after=now - 400 * day),
            "notyet": certs.make_cert("localhost", k, "verif-ca", cak, sans=sans,
                                      not_before=now + 3000 * day, not_after=now + 3650 * day),
            "selfsigned": certs.make_cert("localhost", k, sans=sans),
            "untrusted_ca": certs.make_cert("localhost", k, "other-c03-ca", ock, sans=sans),
            "missing_intermediate": certs.make_cert("localhost", k, "verif-c03-intermediate", ik, sans=sans),
            # what the peer sends is never a trust anchor: leaf + the untrusted root / + intermediate + root
            "untrusted_ca_with_root": certs.make_cert("localhost", k, "other-c03-ca", ock, sans=sans),
            "untrusted_intermediate_with_root": certs.make_cert("localhost", k, "other-c03-intermediate", oik, sans=sans),
            "valid_own": certs.make_cert("localhost", k, "verif-ca", cak, sans=sans),
            "with_intermediate": certs.make_cert("localhost", k, "verif-c03-intermediate", ik, sans=sans),
        }
        for name, c in mk.items():
            data = certs.pem_cert(c)
            if name == "with_intermediate":
                data += certs.pem_cert(ic)
            elif name == "untrusted_ca_with_root":
                data += certs.pem_cert(oca)
            elif name == "untrusted_intermediate_with_root":
                data += certs.pem_cert(oic) + certs.pem_cert(oca)
            w("%s_%s.pem" % (kt, name), data)
    w("DONE.v2", b"ok")


_CHAINS = {}


def load_chain(kt, entry):
    """(certificate, chain, private_key) of a menu entry, cached per process."""
    key = (kt, entry)
    if key not in _CHAINS:
        cfg = QuicConfiguration(is_client=False)
        if entry == "valid":
            cfg.load_cert_chain(certs.path(kt + ".pem"), certs.path(kt + ".key"))
        else:
            cfg.load_cert_chain(os.path.join(MENU_DIR, "%s_%s.pem" % (kt, entry)),
                                os.path.join(MENU_DIR, kt + ".key"))
        from vlib import seams

        _CHAINS[key] = (cfg.certificate, cfg.certificate_chain, seams.fixed_length_ec_key(cfg.private_key))
    return _CHAINS[key]


_CA = []


def cadata():
    if not _CA:
        with open(certs.path("ca.pem"), "rb") as f:
            _CA.append(f.read())
    return _CA[0]


# ------------------------------------------------------------------ spec
def ordered_sublists(items):
    out = []
    for n in range(1, len(items) + 1):
        out += [list(p) for p in itertools.permutations(items, n)]
    return out


DIMS = {
    "kt": list(KEY_TYPES),
    "cs_c": ordered_sublists(SUITES),
    "cs_s": ordered_sublists(SUITES),
    # client: [original version, supported list]; includes the two cases where the client prefers
    # another version than the one it starts with (compatible version negotiation, RFC 9368)
    "v_c": [[1, [1]], [2, [2]], [1, [1, 2]], [2, [2, 1]], [1, [2, 1]], [2, [1, 2]]],
    "v_s": [[1], [2], [1, 2], [2, 1]],
    "alpn_c": [None, ["a"], ["b"], ["a", "b"], ["b", "a"]],
    "alpn_s": [None, ["a"], ["b"], ["a", "b"], ["b", "a"]],
    "sess": ["fresh", "resumed", "resumed0"],
    "retry": [False, True],
    "creq": [False, True],
}
DEFAULT = {
    "kt": "ed25519", "cs_c": [0x1302, 0x1301, 0x1303], "cs_s": [0x1302, 0x1301, 0x1303],
    "v_c": [1, [1, 2]], "v_s": [1, 2], "alpn_c": ["a"], "alpn_s": ["a"], "sess": "fresh",
    "retry": False, "creq": False,
    # not dimensions of the agreement product:
    "cert": "valid", "name": "localhost", "decline_psk": False,
    # resumption across a configuration change: dimension overrides that apply to the FIRST
    # (ticket-issuing) connection only
    "first": {},
}


def mkspec(**kw):
    s = dict(DEFAULT)
    s.update(kw)
    return s


def spec_key(spec):
    return core.jdump(spec, sort_keys=True)


def build_configs(spec, ticket=None):
    c = QuicConfiguration(is_client=True, alpn_protocols=list(spec["alpn_c"]) if spec["alpn_c"] else None)
    c.server_name = spec["name"]
    c.cadata = cadata()
    c.idle_timeout = 3.0
    c.cipher_suites = [tls.CipherSuite(x) for x in spec["cs_c"]]
    c.original_version = VER[spec["v_c"][0]]
    c.supported_versions = [VER[v] for v in spec["v_c"][1]]
    c.session_ticket = ticket
    if spec["creq"]:
        c.certificate, c.certificate_chain, c.private_key = load_chain("ed25519", "valid")
    s = QuicConfiguration(is_client=False, alpn_protocols=list(spec["alpn_s"]) if spec["alpn_s"] else None)
    s.certificate, s.certificate_chain, s.private_key = load_chain(spec["kt"], spec["cert"])
    s.idle_timeout = 3.0
    s.cipher_suites = [tls.CipherSuite(x) for x in spec["cs_s"]]
    s.supported_versions = [VER[v] for v in spec["v_s"]]
    return c, s


class _ReqCertServer(QuicConnection):
    """Server connection whose TLS context asks for a client certificate (aioquic only has a
    private, test-only switch for that; set from the harness, never in /repo)."""

    def _initialize(self, peer_cid):
        super()._initialize(peer_cid)
        self.tls._request_client_certificate = True


# ---------------------------------------------------------------- QUIC world
class SpecMonitor(netsim.Monitor):
    """Injects the per-side configuration into a NetSim world, plumbs session tickets, and
    optionally alters one byte of the ClientHello / ServerHello inside re-sealed Initial packets."""

    def __init__(self, spec, ticket=None, store=None, alter=None, judge_at_end=False):
        self.spec = spec
        self.ticket = ticket
        self.store = store if store is not None else {}
        self.alter = alter          # {"msg": "CH"|"SH", "pos": int, "mask": int}
        self.client_tickets = []
        self.altered = 0
        self.first_dcid = None
        self.judge_at_end = judge_at_end
        self.server_swapped = False
        self.crashed = {}           # endpoint -> exception type that escaped receive_datagram

    def _guard(self, ep):
        """An exception escaping receive_datagram() is C05's business; here it means 'this endpoint
        is gone': the application drops further input for it (timers and output keep running)."""
        orig = ep.conn.receive_datagram
        name = ep.name

        def guarded(data, addr, now):
            if name in self.crashed:
                return
            try:
                orig(data, addr, now=now)
            except Exception as e:  # noqa
                self.crashed[name] = type(e).__name__

        ep.conn.receive_datagram = guarded

    def attach(self, w):
        w.c_cfg, w.s_cfg = build_configs(self.spec, self.ticket)

    def before_api(self, w, ep, name):
        if name == "connect":
            ep.conn = QuicConnection(configuration=w.c_cfg, session_ticket_handler=self.client_tickets.append)
            self._guard(ep)

    def _fetch(self, label):
        if self.spec.get("decline_psk"):
            return None
        return self.store.get(label)

    def _put(self, t):
        self.store[t.ticket] = t

    def on_deliver(self, w, ep, d, addr):
        if ep.name == "s" and not self.server_swapped:
            self.server_swapped = True
            old = ep.conn
            cls = _ReqCertServer if self.spec["creq"] else QuicConnection
            ep.conn = cls(configuration=w.s_cfg,
                          original_destination_connection_id=old._original_destination_connection_id,
                          retry_source_connection_id=old._retry_source_connection_id,
                          session_ticket_fetcher=self._fetch, session_ticket_handler=self._put)
            self._guard(ep)
        if self.first_dcid is None and d.src == "c":
            pk, _ = refquic.split_datagram(d.data, 8)
            if pk and pk[0].type == "initial":
                self.first_dcid = pk[0].dcid
        if self.alter is not None:
            want_src = "c" if self.alter["msg"] == "CH" else "s"
            if d.src == want_src:
                self._alter(w, d)

    def _alter(self, w, d):
        pkts, _ = refquic.split_datagram(d.data, 8)
        for p in pkts:
            if p.type != "initial":
                continue
            if d.src == "c" and self.first_dcid is None:
                self.first_dcid = p.dcid
            if self.first_dcid is None:
                return
            cs, ss = refquic.initial_secrets(p.version, self.first_dcid)
            keys = refquic.Keys("aes128", cs if d.src == "c" else ss, p.version)
            res = refquic.unprotect(d.data, p, keys, 0)
            if res is None:
                continue
            header, pn, pn_len, pt, _ = res
            pos = self.alter["pos"]
            for f in refquic.parse_frames(pt):
                if f["t"] == "CRYPTO" and f["off"] <= pos < f["off"] + len(f["data"]):
                    i = pt.find(f["data"])
                    if i < 0:
                        raise core.HarnessError("cannot locate CRYPTO data in the packet payload")
                    j = i + pos - f["off"]
                    pt2 = pt[:j] + bytes([pt[j] ^ self.alter["mask"]]) + pt[j + 1:]
                    new = refquic.build_long(p.version, "initial", p.dcid, p.scid, pn, pn_len, pt2, keys,
                                             token=p.token or b"")
                    if len(new) != p.end - p.start:
                        raise core.HarnessError("re-sealed Initial changed size")
                    d.data = d.data[:p.start] + new + d.data[p.end:]
                    self.altered += 1
                    return

    def at_end(self, w, outcome):
        if self.judge_at_end:
            res = collect(w, self, outcome)
            v = judge(self.spec, res)
            if v is not None:
                raise netsim.Violation(v[0], v[1])


def W(sid, n, fin=False, g="hs"):
    return {"op": "w", "sid": sid, "n": n, "fin": fin, "g": g}


def _goal_factory(want_ticket):
    def goal(w):
        c, s = w.ep["c"], w.ep["s"]
        if not (c.hs_done and s.hs_done):
            return False
        if c.op_i < len(c.ops):
            return False
        if want_ticket and not w.monitors[0].client_tickets:
            return False
        return True
    return goal


def wire_messages(w):
    """Handshake messages reassembled from the CRYPTO frames the observer opened.
    Returns dict: 'c_initial' (list of candidate streams, one per connection attempt),
    's_initial', 's_handshake', 'c_handshake' -> bytes; plus last handshake-packet versions."""
    streams = {}
    attempts = []     # client Initial crypto streams per (version, dcid)
    cur_key = None
    last_hs_version = {"c": None, "s": None}
    for name in ("c", "s"):
        for r in w.ep[name].sent_packets:
            if not r.opened or r.frames is None:
                continue
            if r.type == "handshake":
                last_hs_version[name] = r.version
            if r.type not in ("initial", "handshake"):
                continue
            for f in r.frames:
                if f["t"] != "CRYPTO":
                    continue
                if name == "c" and r.type == "initial":
                    k = (r.version, r.dcid)
                    if k != cur_key:
                        cur_key = k
                        attempts.append({})
                    buf = attempts[-1]
                else:
                    buf = streams.setdefault((name, r.type), {})
                buf[f["off"]] = f["data"]
    def flat(chunks):
        out = bytearray()
        for off in sorted(chunks):
            data = chunks[off]
            if off > len(out):
                break
            out[off:off + len(data)] = data
        return bytes(out)
    return {
        "c_initial": [flat(a) for a in attempts],
        "s_initial": flat(streams.get(("s", "initial"), {})),
        "s_handshake": flat(streams.get(("s", "handshake"), {})),
        "c_handshake": flat(streams.get(("c", "handshake"), {})),
        "hs_version": last_hs_version,
    }


def _server_dh_private(conn, group):
    t = conn.tls
    if group == R.GROUP_X25519:
        return t._x25519_private_key
    if group == R.GROUP_X448:
        return t._x448_private_key
    for k in t._ec_private_keys:
        if {256: R.GROUP_SECP256R1, 384: R.GROUP_SECP384R1}.get(k.curve.key_size) == group:
            return k
    return None


def collect(w, mon, outcome):
    """Everything the oracle needs from a finished run, as a picklable dict."""
    res = {"outcome": outcome, "steps": w.nsteps, "altered": mon.altered}
    for name in ("c", "s"):
        ep = w.ep[name]
        ev = [e for e in ep.events if isinstance(e, qev.HandshakeCompleted)]
        res[name + "_done"] = bool(ev)
        res[name + "_hc"] = ((ev[0].alpn_protocol, ev[0].session_resumed, ev[0].early_data_accepted)
                             if ev else None)
        res[name + "_ncomplete"] = len(ev)
        t = ep.terminated
        res[name + "_term"] = (t.error_code, t.frame_type, t.reason_phrase) if t is not None else None
        res[name + "_version"] = getattr(ep.conn, "_version", None) if ep.conn is not None else None
        ks = getattr(getattr(ep.conn, "tls", None), "key_schedule", None) if ep.conn is not None else None
        res[name + "_suite"] = int(ks.cipher_suite) if ks is not None else None
        res[name + "_keylog"] = ep.keylog.getvalue() if ep.keylog is not None else ""
    res["crashed"] = dict(mon.crashed)
    res["tickets"] = len(mon.client_tickets)
    res["unopened"] = len(w.obs.unopened)
    # third opinion from the wire
    res["wire"] = None
    if res["c_done"] or res["s_done"]:
        try:
            res["wire"] = third_opinion(w, mon)
        except (R.DecodeError, ValueError, KeyError, IndexError, StopIteration) as e:
            res["wire"] = {"error": "%s: %s" % (type(e).__name__, e)}
    return res


def third_opinion(w, mon):
    wm = wire_messages(w)
    if not wm["s_handshake"] or not wm["c_handshake"]:
        # Handshake packets are opened with the secrets the endpoints logged: nothing opened means the
        # key log does not hold the keys that protect the wire
        return {"undecryptable": True, "unopened": len(w.obs.unopened)}
    sh_raw = R.split_messages(wm["s_initial"], allow_partial=True)[0][0]
    sh = R.parse_message(sh_raw)
    flight = R.split_messages(wm["s_handshake"], allow_partial=True)[0]
    cflight = R.split_messages(wm["c_handshake"], allow_partial=True)[0]
    crandom = None
    for line in w.ep["c"].keylog.getvalue().splitlines():
        parts = line.split()
        if len(parts) == 3:
            crandom = bytes.fromhex(parts[1])
    ch_raw = None
    for cand in reversed(wm["c_initial"]):
        msgs = R.split_messages(cand, allow_partial=True)[0]
        if msgs and msgs[0][0] == R.HT_CLIENT_HELLO and (crandom is None or msgs[0][6:38] == crandom):
            ch_raw = msgs[0]
            break
    if ch_raw is None:
        raise ValueError("no ClientHello on the wire")
    ch = R.parse_message(ch_raw)
    out = {"suite": sh.cipher_suite, "hs_version": wm["hs_version"],
           "flight": [R.HANDSHAKE_TYPE_NAMES.get(m[0], m[0]) for m in flight],
           "cflight": [R.HANDSHAKE_TYPE_NAMES.get(m[0], m[0]) for m in cflight]}
    psk_selected = sh.ext(R.EXT_PRE_SHARED_KEY) is not None
    psk_offered = ch.ext(R.EXT_PRE_SHARED_KEY) is not None
    out["psk_selected"], out["psk_offered"] = psk_selected, psk_offered
    psk = mon.ticket.resumption_secret if (psk_selected and mon.ticket is not None) else None
    group, _ = R.parse_ext_key_share_server(sh.ext(R.EXT_KEY_SHARE))
    priv = _server_dh_private(w.ep["s"].conn, group)
    transcript = [ch_raw, sh_raw] + flight + cflight
    sec = R.derive_all_secrets(transcript, private_key=priv, private_key_role="server", psk=psk)
    out["secrets"] = {k: v for k, v in sec.items() if isinstance(v, bytes) and k != "client_random"}
    out["client_random"] = sec["client_random"]
    # authentication as seen on the wire, verified by reftls
    hn = R.CIPHER_SUITES[sh.cipher_suite][0]
    cv_ok = None
    leaf = None
    msgs = [ch_raw, sh_raw]
    for m in flight:
        pm = R.parse_message(m)
        if isinstance(pm, R.Certificate) and pm.entries:
            leaf = pm.entries[0][0]
        if isinstance(pm, R.CertificateVerify):
            cv_ok = leaf is not None and R.verify_certificate_verify(
                leaf, pm.algorithm, pm.signature, True, R.transcript_hash(hn, msgs))
        if isinstance(pm, R.Finished):
            base = R.derive_all_secrets(msgs[:2], private_key=priv, private_key_role="server", psk=psk)
            out["sfin_ok"] = pm.verify_data == R.finished_verify_data(hn, base[R.NSS_SERVER_HS],
                                                                      R.transcript_hash(hn, msgs))
        msgs.append(m)
    out["cv_ok"] = cv_ok
    out["leaf_is_configured"] = (leaf is not None and
                                 leaf == w.s_cfg.certificate.public_bytes(R.serialization.Encoding.DER))
    alpn = None
    for m in flight:
        pm = R.parse_message(m)
        if isinstance(pm, R.EncryptedExtensions) and pm.ext(R.EXT_ALPN) is not None:
            alpn = R.parse_ext_alpn(pm.ext(R.EXT_ALPN))[0].decode()
    out["alpn"] = alpn
    return out


def run_quic(spec, ticket=None, store=None, alter=None, chooser=None, want_ticket=False, trace=False):
    """One connection between two real QuicConnections under the default schedule (or the given
    chooser).  Returns (result dict, monitor)."""
    o, sup = spec["v_c"]
    cfg = {"retry": bool(spec["retry"]), "version": VER[o],
           "vn": VER[o] not in [VER[v] for v in spec["v_s"]], "idle": 3.0}
    script = {"c": [W(0, 120, True, g="now")]} if spec["sess"] == "resumed0" and ticket is not None else {}
    mon = SpecMonitor(spec, ticket=ticket, store=store, alter=alter)
    w = netsim.NetSim(cfg, script, chooser or explore.Chooser([]), monitors=[mon], max_steps=400,
                      horizon=30.0, trace=trace)
    outcome = w.run(_goal_factory(want_ticket))
    res = collect(w, mon, outcome)
    if trace:
        res["trace"] = [repr(s) for s in w.steps]
    return res, mon


def run_spec(spec, trace=False):
    """Run a configuration; for resumed sessions a first, fresh connection with the same
    configuration (modified by spec["first"], if any) obtains the ticket.  Returns the result of the judged (last) connection with
    res['first'] = summary of the ticket-fetching connection."""
    if spec["sess"] == "fresh":
        res, _ = run_quic(spec, trace=trace)
        return res
    store = {}
    first_spec = dict(spec, sess="fresh", first={})
    first_spec.update(spec.get("first") or {})
    r1, m1 = run_quic(first_spec, store=store, want_ticket=True)
    if not (r1["c_done"] and r1["s_done"] and m1.client_tickets):
        r1["resumption_not_possible"] = True
        r1["judged_spec"] = first_spec
        r1["first"] = None
        return r1
    res, _ = run_quic(spec, ticket=m1.client_tickets[0], store=store, trace=trace)
    res["first"] = {"c_done": True, "s_done": True}
    res["offered_ticket"] = True
    return res


# --------------------------------------------------------------------- oracle
def expectations(spec):
    """What the configuration pair has in common (None = the property does not say)."""
    suites = bool(set(spec["cs_c"]) & set(spec["cs_s"]))
    versions = bool(set(spec["v_c"][1]) & set(spec["v_s"]))
    a, b = spec["alpn_c"], spec["alpn_s"]
    if a is None and b is None:
        alpn = True
    elif a is None or b is None:
        alpn = None      # one side does not use ALPN at all: not a 'list without common element'
    else:
        alpn = bool(set(a) & set(b))
    cert_ok = spec["cert"] in ("valid", "valid_own", "with_intermediate")
    if spec["cert"] in ("valid", "valid_own", "with_intermediate") and spec["name"] not in ("localhost", "127.0.0.1"):
        cert_ok = False
    return {"suites": suites, "versions": versions, "alpn": alpn, "cert_ok": cert_ok}


KEYLOG_LABELS = (R.NSS_CLIENT_HS, R.NSS_SERVER_HS, R.NSS_CLIENT_AP, R.NSS_SERVER_AP)


def _keyset(text):
    out = set()
    for line in text.splitlines():
        p = line.split()
        if len(p) == 3:
            out.add((p[0], p[1], p[2]))
    return out


def judge(spec, res):
    """The C03 oracle on one finished run.  Returns (sig, what) or None."""
    exp = expectations(spec)
    base = {}   # one report per symptom; the configuration is in the message and the replay
    if res.get("resumption_not_possible"):
        # the first connection is itself an ordinary fresh run: judge it as such
        spec = res.get("judged_spec") or dict(spec, sess="fresh")
    c_done, s_done = res["c_done"], res["s_done"]
    # (4) no common option => neither side ever completes
    lacking = [k for k in ("suites", "versions", "alpn") if exp[k] is False]
    if lacking and (c_done or s_done):
        return ({"monitor": "completed_without_common_option", "lacking": lacking,
                 "who": "c" * c_done + "s" * s_done},
                "no common %s (client %r / server %r ...) but completion was reported by %s"
                % (lacking, spec["cs_c"] if "suites" in lacking else spec["alpn_c"] if "alpn" in lacking
                   else spec["v_c"], spec["cs_s"] if "suites" in lacking else spec["alpn_s"]
                   if "alpn" in lacking else spec["v_s"], "client " * c_done + "server " * s_done))
    wire = res.get("wire") or {}
    if (c_done or s_done) and wire.get("undecryptable"):
        return (dict(base, monitor="logged_secrets_do_not_open_the_wire"),
                "handshake completed (client %s, server %s) but the Handshake packets on the wire cannot be "
                "opened with the secrets written to secrets_log_file (%d packets unopened)"
                % (c_done, s_done, wire.get("unopened", 0)))
    # (2) authentication
    if c_done:
        if "error" in wire:
            raise core.HarnessError("cannot reassemble the handshake from the wire: %s" % wire["error"])
        authentic = (wire.get("cv_ok") is True and wire.get("leaf_is_configured") and exp["cert_ok"])
        by_psk = wire.get("psk_selected") and wire.get("psk_offered")
        if not (authentic or by_psk):
            return ({"monitor": "client_completed_unauthenticated", "cert": spec["cert"], "kt": spec["kt"],
                     "name_kind": "ip" if spec["name"][0].isdigit() else "dns"},
                    "client reported HandshakeCompleted although the server did not prove possession of a "
                    "key of a certificate valid for %r (menu entry %r, CertificateVerify ok on the wire: %r, "
                    "PSK selected: %r)" % (spec["name"], spec["cert"], wire.get("cv_ok"), wire.get("psk_selected")))
    if res["c_ncomplete"] > 1 or res["s_ncomplete"] > 1:
        return ({"monitor": "completed_twice"}, "HandshakeCompleted reported more than once")
    # (3) agreement
    if c_done and s_done:
        ck, sk = _keyset(res["c_keylog"]), _keyset(res["s_keylog"])
        cl = {t for t in ck if t[0] in KEYLOG_LABELS}
        sl = {t for t in sk if t[0] in KEYLOG_LABELS}
        if cl != sl or len(cl) != 4:
            return (dict(base, monitor="secrets_differ"),
                    "both completed but the key logs differ: client-only %r, server-only %r"
                    % (sorted(t[0] for t in cl - sl), sorted(t[0] for t in sl - cl)))
        want = {(lab, wire["client_random"].hex(), wire["secrets"][lab].hex()) for lab in KEYLOG_LABELS
                if lab in wire["secrets"]}
        if want != cl:
            return (dict(base, monitor="secrets_differ_from_third_opinion"),
                    "both completed with equal key logs, but the secrets are not the RFC 8446 derivation "
                    "from the handshake seen on the wire (labels differing: %r)"
                    % sorted(t[0] for t in want ^ cl))
        chc, shc = res["c_hc"], res["s_hc"]
        if chc[0] != shc[0]:
            return (dict(base, monitor="alpn_differs"),
                    "HandshakeCompleted.alpn_protocol: client %r, server %r (lists %r / %r)"
                    % (chc[0], shc[0], spec["alpn_c"], spec["alpn_s"]))
        if chc[0] is not None and not (spec["alpn_c"] and spec["alpn_s"] and chc[0] in spec["alpn_c"]
                                       and chc[0] in spec["alpn_s"]):
            return (dict(base, monitor="alpn_not_common"), "negotiated ALPN %r is not in both lists" % (chc[0],))
        if chc[1] != shc[1]:
            return (dict(base, monitor="resumption_status_differs"),
                    "session_resumed: client %r, server %r" % (chc[1], shc[1]))
        if chc[1] != bool(wire.get("psk_selected")):
            return (dict(base, monitor="resumption_status_wrong"),
                    "session_resumed %r but PSK selected on the wire: %r" % (chc[1], wire.get("psk_selected")))
        if chc[2] != shc[2]:
            return (dict(base, monitor="early_data_status_differs"),
                    "early_data_accepted: client %r, server %r" % (chc[2], shc[2]))
        if res["c_version"] != res["s_version"]:
            return (dict(base, monitor="version_differs"),
                    "negotiated version: client %#x, server %#x" % (res["c_version"], res["s_version"]))
        hv = wire["hs_version"]
        if hv["c"] != hv["s"] or hv["c"] != res["c_version"]:
            return (dict(base, monitor="wire_version_differs"),
                    "last Handshake packets carry versions c=%r s=%r, endpoints report %#x"
                    % (hv["c"], hv["s"], res["c_version"]))
        if VER_INV.get(res["c_version"]) not in spec["v_c"][1] or VER_INV.get(res["c_version"]) not in spec["v_s"]:
            return (dict(base, monitor="version_not_common"),
                    "negotiated version %#x is not supported by both" % res["c_version"])
        if not (res["c_suite"] == res["s_suite"] == wire["suite"]):
            return (dict(base, monitor="cipher_suite_differs"),
                    "cipher suite: client %r, server %r, ServerHello %r" % (res["c_suite"], res["s_suite"], wire["suite"]))
        if res["c_suite"] not in spec["cs_c"] or res["c_suite"] not in spec["cs_s"]:
            return (dict(base, monitor="cipher_suite_not_common"), "suite %#x not in both lists" % res["c_suite"])
    return None


VER_INV = {V1: 1, V2: 2}


def outcome_class(spec, res):
    exp = expectations(spec)
    common = all(exp[k] is not False for k in ("suites", "versions", "alpn")) and exp["cert_ok"]
    return ("common" if common else "nocommon", res["c_done"], res["s_done"],
            res["c_hc"], res["c_version"], res["c_suite"],
            (res["c_term"] or (None,))[0], (res["s_term"] or (None,))[0])


# ---------------------------------------------------------------- tls relay world
def _bufs():
    return {e: Buffer(capacity=16384) for e in (tls.Epoch.INITIAL, tls.Epoch.HANDSHAKE, tls.Epoch.ONE_RTT)}


def _drain(b):
    out = b"".join(bytes(b[e].data) for e in (tls.Epoch.INITIAL, tls.Epoch.HANDSHAKE, tls.Epoch.ONE_RTT))
    for x in b.values():
        x.seek(0)
    return out


TP_C = bytes.fromhex("0104800075300408ffffffffffffffff")
TP_S = bytes.fromhex("0104800075300e0104")


def tls_pair(kt, creq, client_cert, name="localhost"):
    c = tls.Context(is_client=True, alpn_protocols=["a"], cadata=cadata(), server_name=name)
    c.handshake_extensions = [(tls.ExtensionType.QUIC_TRANSPORT_PARAMETERS, TP_C)]
    if client_cert:
        c.certificate, c.certificate_chain, c.certificate_private_key = load_chain("ed25519", "valid")
    s = tls.Context(is_client=False, alpn_protocols=["a"])
    s.certificate, s.certificate_chain, s.certificate_private_key = load_chain(kt, "valid")
    s.handshake_extensions = [(tls.ExtensionType.QUIC_TRANSPORT_PARAMETERS, TP_S)]
    s._request_client_certificate = creq
    return c, s


MSG_NAMES = {1: "CH", 2: "SH", 8: "EE", 13: "CR", 11: "CERT", 15: "CV", 20: "FIN", 4: "NST"}


def tls_relay(kt, creq, client_cert, alter=None, trace=None):
    """Run a real client/server Context pair through a relay.  alter = (direction, message
    name, byte position, mask).  Returns dict(c_state, s_state, lengths{(dir,name): len},
    c_exc, s_exc)."""
    c, s = tls_pair(kt, creq, client_cert)
    ctx = {"c": c, "s": s}
    bufs = {"c": _bufs(), "s": _bufs()}
    dead = {"c": None, "s": None}
    lengths = {}
    applied = 0
    c.handle_message(b"", bufs["c"])
    pending = [("c2s", m) for m in R.split_messages(_drain(bufs["c"]))]
    steps = 0
    while pending and steps < 64:
        steps += 1
        direction, raw = pending.pop(0)
        dst = "s" if direction == "c2s" else "c"
        name = MSG_NAMES.get(raw[0], str(raw[0]))
        lengths[(direction, name)] = len(raw)
        if alter is not None and alter[0] == direction and alter[1] == name:
            pos, mask = alter[2], alter[3]
            if pos >= len(raw):
                raise core.HarnessError("alteration position %d beyond %s of %d bytes" % (pos, name, len(raw)))
            raw = raw[:pos] + bytes([raw[pos] ^ mask]) + raw[pos + 1:]
            applied += 1
        if dead[dst] is not None:
            continue
        try:
            ctx[dst].handle_message(raw, bufs[dst])
        except Exception as e:  # noqa - any refusal kills that endpoint (QUIC closes the connection)
            dead[dst] = type(e).__name__
            if trace is not None:
                trace.append("  %s %-4s -> %s raised %s" % (direction, name, dst, dead[dst]))
            continue
        out = _drain(bufs[dst])
        if trace is not None:
            trace.append("  %s %-4s -> %s state %s" % (direction, name, dst, ctx[dst].state.name))
        back = "s2c" if dst == "s" else "c2s"
        pending += [(back, m) for m in R.split_messages(out)]
    return {"c_state": c.state.name, "s_state": s.state.name, "lengths": lengths, "c_exc": dead["c"],
            "s_exc": dead["s"], "applied": applied,
            "c_done": c.state == tls.State.CLIENT_POST_HANDSHAKE,
            "s_done": s.state == tls.State.SERVER_POST_HANDSHAKE}


def _relay(c, s):
    """Relay every handshake message between a real client and server Context until quiescence;
    an exception kills the endpoint that raised.  Returns {'c': exc name|None, 's': ...}."""
    ctx = {"c": c, "s": s}
    bufs = {"c": _bufs(), "s": _bufs()}
    dead = {"c": None, "s": None}
    c.handle_message(b"", bufs["c"])
    pending = [("s", m) for m in R.split_messages(_drain(bufs["c"]))]
    n = 0
    while pending and n < 64:
        n += 1
        dst, raw = pending.pop(0)
        if dead[dst] is not None:
            continue
        try:
            ctx[dst].handle_message(raw, bufs[dst])
        except Exception as e:  # noqa
            dead[dst] = type(e).__name__
            continue
        pending += [("c" if dst == "s" else "s", m) for m in R.split_messages(_drain(bufs[dst]))]
    return dead


def tls_resumption_pair(job):
    """tls level: ticket issued by a server whose cipher-suite list is `first`, redeemed at a server
    whose list is `second` (the client offers `client` both times).  Returns what both Contexts hold
    after the second handshake."""
    first, second, client = job
    store = {}
    tickets = []

    def mk(server_suites, ticket):
        c = tls.Context(is_client=True, alpn_protocols=["a"], cadata=cadata(), server_name="localhost",
                        cipher_suites=[tls.CipherSuite(x) for x in client])
        c.handshake_extensions = [(tls.ExtensionType.QUIC_TRANSPORT_PARAMETERS, TP_C)]
        c.new_session_ticket_cb = tickets.append
        c.session_ticket = ticket
        s = tls.Context(is_client=False, alpn_protocols=["a"], cipher_suites=[tls.CipherSuite(x) for x in server_suites],
                        max_early_data=0xFFFFFFFF)
        s.certificate, s.certificate_chain, s.certificate_private_key = load_chain("ed25519", "valid")
        s.handshake_extensions = [(tls.ExtensionType.QUIC_TRANSPORT_PARAMETERS, TP_S)]
        s.new_session_ticket_cb = lambda t: store.__setitem__(t.ticket, t)
        s.get_session_ticket_cb = store.get
        keys = {"c": [], "s": []}
        c.update_traffic_key_cb = lambda d, e, cs, sec: keys["c"].append((d.name, e.name, int(cs), bytes(sec)))
        s.update_traffic_key_cb = lambda d, e, cs, sec: keys["s"].append((d.name, e.name, int(cs), bytes(sec)))
        return c, s, keys

    c, s, _ = mk(first, None)
    _relay(c, s)
    if not tickets:
        return {"ticket": False}
    c, s, keys = mk(second, tickets[0])
    dead = _relay(c, s)
    flip = {"ENCRYPT": "DECRYPT", "DECRYPT": "ENCRYPT"}
    ck = sorted((flip[d], e, cs, sec) for d, e, cs, sec in keys["c"] if e != "ZERO_RTT")
    sk = sorted((d, e, cs, sec) for d, e, cs, sec in keys["s"] if e != "ZERO_RTT")
    return {"ticket": True, "dead": dead,
            "c_done": c.state == tls.State.CLIENT_POST_HANDSHAKE, "s_done": s.state == tls.State.SERVER_POST_HANDSHAKE,
            "c_suite": int(c.key_schedule.cipher_suite) if c.key_schedule else None,
            "s_suite": int(s.key_schedule.cipher_suite) if s.key_schedule else None,
            "c_resumed": c.session_resumed, "s_resumed": s.session_resumed,
            "keys_equal": ck == sk,
            "key_suites": sorted(set((e, cs) for _, e, cs, _ in ck) ^ set((e, cs) for _, e, cs, _ in sk))}


def part_tls_resumption(ctx, workers):
    """Every ordered pair (first, second) of server cipher-suite lists (15 x 15) with a client offering
    all three: whenever both Contexts complete the second handshake they must agree on cipher suite,
    resumption status and every traffic secret *with the suite it is installed for*."""
    jobs = [(a, b, list(SUITES)) for a in DIMS["cs_s"] for b in DIMS["cs_s"]]
    res = core.pmap(tls_resumption_pair, jobs, workers=workers, chunksize=16)
    outcomes = {}
    for (a, b, cl), r in zip(jobs, res):
        if not r["ticket"]:
            raise core.HarnessError("no ticket from a first tls handshake with server suites %r" % (a,))
        o = (r["c_done"], r["s_done"], r["c_resumed"], r["c_suite"] == r["s_suite"])
        outcomes[o] = outcomes.get(o, 0) + 1
        rp = {"part": "tls_resumption", "first": a, "second": b, "client": cl}
        if not (r["c_done"] and r["s_done"]):
            ctx.violation({"monitor": "legal_handshake_failed", "level": "tls", "dims": ["cs_s", "first"]},
                          "ticket issued under server suites %r, redeemed under %r (client offers all): the tls "
                          "handshake does not complete (%r)" % (a, b, r["dead"]), rp)
            continue
        if r["c_suite"] != r["s_suite"] or not r["keys_equal"]:
            ctx.violation({"monitor": "cipher_suite_differs", "level": "tls", "resumed": bool(r["c_resumed"])},
                          "ticket issued under server suites %r, redeemed under %r: both complete (resumed=%s) but the "
                          "client holds suite %#x and the server %#x; traffic keys installed with differing "
                          "(epoch, suite): %r" % (a, b, r["c_resumed"], r["c_suite"], r["s_suite"], r["key_suites"]), rp)
        elif r["c_resumed"] != r["s_resumed"]:
            ctx.violation({"monitor": "resumption_status_differs", "level": "tls"},
                          "session_resumed: client %r, server %r (suites %r -> %r)" % (r["c_resumed"], r["s_resumed"], a, b), rp)
    if len(outcomes) < 2 and not ctx.violations:
        raise core.HarnessError("tls_resumption vacuous: %r" % outcomes)
    ctx.part("agreement_tls_resumption_suite_pairs", evaluations=len(jobs), transitions=2 * len(jobs),
             distinct_nontrivial=len(outcomes), resumed=sum(v for k, v in outcomes.items() if k[2]),
             full_handshake_instead=sum(v for k, v in outcomes.items() if not k[2]))


def _tls_job(job):
    kt, creq, ccert, alter = job
    r = tls_relay(kt, creq, ccert, alter)
    r.pop("lengths")
    return r


def part_integrity_tls(ctx, workers, key_types):
    variants = [(False, False), (True, True), (True, False)]   # (request cert, client has one)
    jobs = []
    layout = {}
    for kt in key_types:
        for creq, ccert in variants:
            base = tls_relay(kt, creq, ccert)
            if not (base["c_done"] and base["s_done"]):
                ctx.violation({"monitor": "legal_handshake_failed", "level": "tls", "creq": creq, "ccert": ccert},
                              "unaltered tls handshake (%s leaf, client-certificate request %s) does not complete: "
                              "client %s (%s), server %s (%s)" % (kt, creq, base["c_state"], base["c_exc"],
                                                                   base["s_state"], base["s_exc"]),
                              {"part": "integrity_tls", "kt": kt, "creq": creq, "ccert": ccert, "alter": None})
                continue
            layout[(kt, creq, ccert)] = dict(("%s:%s" % k, v) for k, v in base["lengths"].items())
            for (direction, name), ln in sorted(base["lengths"].items()):
                if name == "NST":
                    continue   # post-handshake, not part of the handshake transcript
                for pos in range(ln):
                    for mask in MASKS:
                        jobs.append((kt, creq, ccert, (direction, name, pos, mask)))
    res = core.pmap(_tls_job, jobs, workers=workers, chunksize=256)
    outcomes = {}
    bad = 0
    for job, r in zip(jobs, res):
        kt, creq, ccert, (direction, name, pos, mask) = job
        if r["applied"] != 1:
            raise core.HarnessError("alteration %r applied %d times" % (job, r["applied"]))
        receiver = "s" if direction == "c2s" else "c"
        o = (direction, name, r[receiver + "_exc"] or "stalled", r["c_done"], r["s_done"])
        outcomes[o] = outcomes.get(o, 0) + 1
        if r[receiver + "_done"]:
            bad += 1
            ctx.violation({"monitor": "altered_message_accepted", "level": "tls", "message": name,
                           "direction": direction, "creq": creq},
                          "byte %d of %s (%s, %d bytes) XOR %#04x in transit: the receiving %s still reached "
                          "POST_HANDSHAKE" % (pos, name, direction, layout[(kt, creq, ccert)]["%s:%s" % (direction, name)],
                                              mask, "server" if receiver == "s" else "client"),
                          {"part": "integrity_tls", "kt": kt, "creq": creq, "ccert": ccert,
                           "alter": [direction, name, pos, mask]})
    if len(outcomes) < 5 and not bad:
        raise core.HarnessError("integrity_tls vacuous: %r" % outcomes)
    ctx.part("integrity_tls", evaluations=len(jobs), transitions=len(jobs),
             byte_positions=len(jobs) // len(MASKS), masks=list(MASKS), key_types=list(key_types),
             distinct_nontrivial=len(outcomes),
             message_lengths={"%s/creq=%s/ccert=%s" % k: v for k, v in layout.items()},
             peer_also_stopped=sum(v for k, v in outcomes.items() if not k[3] and not k[4]),
             peer_completed_anyway=sum(v for k, v in outcomes.items() if k[3] or k[4]))
    ctx.sample({"part": "integrity_tls", "job": jobs[len(jobs) // 2]})


# ------------------------------------------------------------ integrity at QUIC level
def _quic_alter_job(job):
    msg, pos, mask, version = job
    spec = mkspec(v_c=[version, [version]], v_s=[version])
    res, mon = run_quic(spec, alter={"msg": msg, "pos": pos, "mask": mask})
    return {"altered": mon.altered, "c_done": res["c_done"], "s_done": res["s_done"],
            "c_term": res["c_term"], "s_term": res["s_term"], "outcome": res["outcome"],
            "crashed": res["crashed"]}


def part_integrity_quic(ctx, workers, stride, versions):
    jobs = []
    lens = {}
    for version in versions:
        spec = mkspec(v_c=[version, [version]], v_s=[version])
        mon = SpecMonitor(spec)
        w = netsim.NetSim({"version": VER[version], "idle": 3.0}, {}, explore.Chooser([]), monitors=[mon],
                          max_steps=400, horizon=30.0)
        w.run(_goal_factory(False))
        wm = wire_messages(w)
        ch = R.split_messages(wm["c_initial"][-1], allow_partial=True)[0][0]
        sh = R.split_messages(wm["s_initial"], allow_partial=True)[0][0]
        lens[version] = {"CH": len(ch), "SH": len(sh)}
        for msg, ln in (("CH", len(ch)), ("SH", len(sh))):
            for pos in range(ln):
                for mi, mask in enumerate(MASKS):
                    if stride > 1 and (pos * 3 + mi) % stride != ctx.seed % stride and mask != 0xFF:
                        continue   # quick: every byte with 0xFF, a seed-chosen slice of the other masks
                    jobs.append((msg, pos, mask, version))
    res = core.pmap(_quic_alter_job, jobs, workers=workers, chunksize=16)
    outcomes = {}
    for job, r in zip(jobs, res):
        msg, pos, mask, version = job
        if r["altered"] < 1:
            raise core.HarnessError("QUIC-level alteration %r was never applied" % (job,))
        receiver = "s" if msg == "CH" else "c"
        o = (msg, r["c_done"], r["s_done"], (r[receiver + "_term"] or (None,))[0],
             r["crashed"].get(receiver))
        outcomes[o] = outcomes.get(o, 0) + 1
        if r[receiver + "_done"]:
            ctx.violation({"monitor": "altered_message_accepted", "level": "quic", "message": msg},
                          "byte %d of %s XOR %#04x inside a re-sealed Initial packet (QUIC v%d): the receiving "
                          "%s still emitted HandshakeCompleted" % (pos, msg, mask, version,
                                                                   "server" if receiver == "s" else "client"),
                          {"part": "integrity_quic", "alter": {"msg": msg, "pos": pos, "mask": mask},
                           "version": version})
    if len(outcomes) < 2 and not ctx.violations:
        raise core.HarnessError("integrity_quic vacuous: %r" % outcomes)
    ctx.part("integrity_quic", evaluations=len(jobs), transitions=len(jobs), hello_lengths=lens,
             distinct_nontrivial=len(outcomes), versions=list(versions), stride=stride,
             outcome_histogram={repr(k): v for k, v in outcomes.items()})


# --------------------------------------------------------------- authentication
def _auth_job(spec):
    return run_spec(spec)


def adversary_runs(kt, name):
    """Real client Context against the reftls server: (a) valid control, (b) right certificate but
    CertificateVerify made with another key of the same type, (c) PSK selected though none was
    offered.  Returns list of (case, completed?, detail)."""
    out = []
    with open(certs.path(kt + ".pem"), "rb") as f:
        chain = R.load_pem_chain(f.read())
    with open(certs.path(kt + ".key"), "rb") as f:
        leaf = R.load_pem_key(f.read())
    with open(os.path.join(MENU_DIR, kt + "_other.key"), "rb") as f:
        other = R.load_pem_key(f.read())
    cases = {
        "valid_control": [("server_hello", {}), ("encrypted_extensions", {}), ("certificate", {}),
                          ("certificate_verify", {"key": "leaf"}), ("finished", {})],
        "cv_other_key": [("server_hello", {}), ("encrypted_extensions", {}), ("certificate", {}),
                         ("certificate_verify", {"key": "other"}), ("finished", {})],
        "cv_other_key_stop_at_alert": [("server_hello", {}), ("encrypted_extensions", {}), ("certificate", {}),
                                       ("certificate_verify", {"key": "other"}), ("finished", {})],
        "cv_omitted": [("server_hello", {}), ("encrypted_extensions", {}), ("certificate", {}), ("finished", {})],
        # RFC 8446 4.4.2: the server's certificate_list MUST be non-empty; nothing was authenticated
        "cert_empty_then_finished": [("server_hello", {}), ("encrypted_extensions", {}), ("certificate", {"chain": []}),
                                     ("finished", {})],
        "psk_not_offered": [("server_hello", {"psk_index": 0}), ("encrypted_extensions", {}), ("finished", {})],
        # no PSK at all, but EncryptedExtensions claims that early data was accepted; then Finished
        # (MAC under the plain (EC)DHE schedule, which any peer can compute)
        "ee_early_data_then_finished": [("server_hello", {}), ("encrypted_extensions", {"extra_extensions": [(R.EXT_EARLY_DATA, b"")]}),
                                        ("finished", {})],
        "ee_unknown_extension_then_finished": [("server_hello", {}), ("encrypted_extensions", {"extra_extensions": [(0xABCD, b"x")]}),
                                               ("finished", {})],
        "ee_then_finished": [("server_hello", {}), ("encrypted_extensions", {}), ("finished", {})],
    }
    for case, seq in cases.items():
        c = tls.Context(is_client=True, alpn_protocols=["a"], cadata=cadata(), server_name=name)
        c.handshake_extensions = [(tls.ExtensionType.QUIC_TRANSPORT_PARAMETERS, TP_C)]
        b = _bufs()
        c.handle_message(b"", b)
        adv = R.ServerAdversary(chain, leaf, other, alpn="a",
                                ee_extensions=[(R.EXT_QUIC_TRANSPORT_PARAMETERS, TP_S)])
        adv.receive_client_hello(_drain(b))
        refused = []
        for kind, kw in seq:
            raw = adv.make(kind, **kw)
            try:
                c.handle_message(raw, b)
                adv.accepted(raw)
            except Exception as e:  # noqa
                refused.append((kind, type(e).__name__))
                if case == "cv_other_key_stop_at_alert":
                    break   # what QUIC does: the alert closes the connection
        out.append((case, c.state == tls.State.CLIENT_POST_HANDSHAKE, refused))
    return out


def quic_rogue_flights():
    """The same rogue server flights at QUIC level: a real client QuicConnection against the
    key-holding `quicadv.QuicServerAdversary` (correctly protected packets).  Returns
    [(case, HandshakeCompleted emitted?, termination)]."""
    from vlib import quicadv as Q

    out = []
    flights = {
        "valid_control": lambda a: [a.make("EE"), a.make("CERT"), a.make("CV"), a.make("FIN")],
        "ee_early_data_then_finished": lambda a: [a.ee(extra=[(R.EXT_EARLY_DATA, b"")]), a.make("FIN")],
        "ee_unknown_extension_then_finished": lambda a: [a.ee(extra=[(0xABCD, b"x")]), a.make("FIN")],
        "ee_then_finished": lambda a: [a.make("EE"), a.make("FIN")],
        "cv_other_key": lambda a: [a.make("EE"), a.make("CERT"), a.make("CV", key="spare"), a.make("FIN")],
        # a complete, internally consistent flight - by a server whose certificate the client must not accept
        # (self-signed / issued for another name): possession of the key is proved, the identity is not
        "selfsigned_chain": lambda a: [a.make("EE"), a.make("CERT"), a.make("CV"), a.make("FIN")],
        "wrongname_chain": lambda a: [a.make("EE"), a.make("CERT"), a.make("CV"), a.make("FIN")],
    }
    chains = {"selfsigned_chain": "selfsigned", "wrongname_chain": "wrongname"}
    for case, build in flights.items():
        for version in (1, 2):
            for burst in (False, True):
                # burst: the whole flight is received back-to-back before the caller transmits anything (a
                # refusal only marks the connection for closing; later datagrams still reach the TLS engine)
                a = Q.QuicServerAdversary(cfg={"version": VER[version]}, chain=chains.get(case, "ed25519"))
                a.legal("SH")
                a.victim.hold = burst
                n = 4 if case in ("valid_control", "cv_other_key", "selfsigned_chain", "wrongname_chain") else 2
                for i in range(n):
                    if a.victim.closing:
                        break
                    raw = build(a)[i]      # built over the transcript accepted so far
                    a.send_tls("handshake", raw, separate=burst)
                    if burst or not a.victim.closing:
                        a.accepted(raw)
                a.victim.hold = False
                a.victim.pump()
                a.victim.drive_to_end(max_timers=3)
                out.append(("%s%s/v%d" % (case, "+burst" if burst else "", version), a.victim.handshake_completed,
                            a.victim.terminated.error_code if a.victim.terminated else None))
    return out


def quic_cid_authentication():
    """RFC 9000 7.3: the connection IDs seen on the wire and whether a Retry took place are
    authenticated through the transport parameters.  A peer that holds valid credentials but whose
    transport parameters disagree with the packets exchanged (an on-path box rewrote connection IDs
    or answered a Retry on the other side's behalf) must not be reported as a completed handshake.
    Returns [(case, HandshakeCompleted emitted?, termination code)]."""
    from vlib import quicadv as Q

    def ext_replace(exts, t, data):
        return [(a, data if a == t else b) for a, b in exts]

    out = []
    server_cases = {
        "valid_control": lambda a: a.tp,
        "odcid_mismatch": lambda a: Q.tp_replace(a.tp, Q.TP_ODCID, bytes(8)),
        "odcid_missing": lambda a: Q.tp_without(a.tp, Q.TP_ODCID),
        "odcid_is_current_dcid": lambda a: Q.tp_replace(a.tp, Q.TP_ODCID, a.scid),
        "iscid_mismatch": lambda a: Q.tp_replace(a.tp, Q.TP_ISCID, bytes(8)),
        "iscid_missing": lambda a: Q.tp_without(a.tp, Q.TP_ISCID),
        "iscid_is_odcid": lambda a: Q.tp_replace(a.tp, Q.TP_ISCID, a.odcid),
        # the server believes it sent a Retry; the client never saw one
        "retry_scid_without_retry": lambda a: a.tp + [(Q.TP_RETRY_SCID, a.scid)],
        "retry_scid_is_odcid_without_retry": lambda a: a.tp + [(Q.TP_RETRY_SCID, a.odcid)],
        "retry_scid_empty_without_retry": lambda a: a.tp + [(Q.TP_RETRY_SCID, b"")],
    }
    for case, tp in server_cases.items():
        for version in (1, 2):
            for burst in (False, True):
                a = Q.QuicServerAdversary(cfg={"version": VER[version]})
                a.legal("SH")
                a.victim.hold = burst
                builders = [lambda: a.ee(tp_items=tp(a)), lambda: a.make("CERT"), lambda: a.make("CV"), lambda: a.make("FIN")]
                for b in builders:
                    if a.victim.closing:
                        break
                    raw = b()
                    a.send_tls("handshake", raw, separate=burst)
                    if burst or not a.victim.closing:
                        a.accepted(raw)
                a.victim.hold = False
                a.victim.pump()
                a.victim.drive_to_end(max_timers=3)
                out.append(("client/%s%s/v%d" % (case, "+burst" if burst else "", version), a.victim.handshake_completed,
                            a.victim.terminated.error_code if a.victim.terminated else None))
    # an on-path box injects an Initial packet (public keys) that names ANOTHER source connection ID and wins the
    # race against the server's genuine first flight: the client adopts that ID for its packets; the genuine
    # server's initial_source_connection_id cannot match what the client adopted (RFC 9000 7.3)
    from vlib import refquic as _rq

    for version in (1, 2):
        for burst in (False, True):
            for frames in ([{"t": "PING"}], [{"t": "ACK", "ranges": [(0, 0)]}]):
                a = Q.QuicServerAdversary(cfg={"version": VER[version]})
                other = bytes([0xA7, 0x7A] * 4)
                forged = _rq.build_long(a.version, "initial", a.dcid, other, 7, 2,
                                        _rq.enc_frames(frames) + bytes(1100), a.keys["initial"])
                a.victim.hold = burst
                a.victim.feed(forged)
                for lab in ("SH", "EE", "CERT", "CV", "FIN"):
                    if a.victim.closing:
                        break
                    raw = a.make(lab)
                    a.send_tls(a.EPOCH_OF[lab], raw, separate=burst)
                    a.accepted(raw)
                a.victim.hold = False
                a.victim.pump()
                a.victim.drive_to_end(max_timers=3)
                out.append(("client/injected_initial_names_other_scid_%s%s/v%d" % (frames[0]["t"].lower(), "+burst" if burst else "", version),
                            a.victim.handshake_completed, a.victim.terminated.error_code if a.victim.terminated else None))
    client_cases = {
        "valid_control": lambda a: a.tp,
        "iscid_mismatch": lambda a: Q.tp_replace(a.tp, Q.TP_ISCID, bytes(8)),
        "iscid_missing": lambda a: Q.tp_without(a.tp, Q.TP_ISCID),
        "iscid_is_dcid": lambda a: Q.tp_replace(a.tp, Q.TP_ISCID, a.odcid),
        "odcid_sent_by_client": lambda a: a.tp + [(Q.TP_ODCID, a.odcid)],
        "retry_scid_sent_by_client": lambda a: a.tp + [(Q.TP_RETRY_SCID, a.odcid)],
    }
    for case, tp in client_cases.items():
        for version in (1, 2):
            a = Q.QuicClientAdversary(cfg={"version": VER[version]})
            m = a.ch()
            m.extensions = ext_replace(m.extensions, R.EXT_QUIC_TRANSPORT_PARAMETERS, Q.enc_tp(tp(a)))
            a.hello(raw=m.encode())
            if not a.victim.closing and a.keys.get("1rtt") is not None:
                a.legal("finished")
            a.victim.drive_to_end(max_timers=3)
            out.append(("server/%s/v%d" % (case, version), a.victim.handshake_completed,
                        a.victim.terminated.error_code if a.victim.terminated else None))
    return out


# ------------------------------------------------------------ trust configuration x history
# What a client trusts is a property of ITS configuration (cafile / capath / cadata), not of what other
# connections in the same process trusted before.  Runs are (trust configuration, server chain); the
# reference verdict is set membership: the issuer of the server's leaf is in the union of the files named.
TRUST = {
    "cadata=verif": dict(cadata="ca.pem"),
    "cafile=verif": dict(cafile="ca.pem"),
    "cafile=other": dict(cafile="otherca.pem"),
    "cafile=other+cadata=verif": dict(cafile="otherca.pem", cadata="ca.pem"),
    "cafile=verif+cadata=other": dict(cafile="ca.pem", cadata="otherca.pem"),
    "capath=verif": dict(capath="verif"),
    "capath=verif+cadata=other": dict(capath="verif", cadata="otherca.pem"),
}
SERVERS = {"verif": ("ed25519.pem", "ed25519.key", "ca.pem"), "other": ("otherleaf.pem", "otherleaf.key", "otherca.pem")}


def _capath_dir():
    """An OpenSSL-style hashed directory holding only the verif CA."""
    import subprocess

    d = os.path.join(MENU_DIR, "capath_verif")
    if not os.path.isdir(d) or not os.listdir(d):
        os.makedirs(d, exist_ok=True)
        src = certs.path("ca.pem")
        h = subprocess.run(["openssl", "x509", "-noout", "-subject_hash", "-in", src], capture_output=True, text=True).stdout.strip()
        if not h:
            raise core.HarnessError("cannot compute the subject hash of ca.pem (openssl missing?)")
        tmp = os.path.join(d, "tmp%d" % os.getpid())
        with open(src, "rb") as f, open(tmp, "wb") as g:
            g.write(f.read())
        os.replace(tmp, os.path.join(d, h + ".0"))
    return d


def trust_expected(tname, sname):
    t = TRUST[tname]
    anchors = {t.get("cadata"), t.get("cafile"), "ca.pem" if t.get("capath") else None}
    return SERVERS[sname][2] in anchors


def trust_run(tname, sname):
    """One TLS-level handshake of real Contexts; -> did the client complete?"""
    t = TRUST[tname]
    kw = {}
    if t.get("cadata"):
        with open(certs.path(t["cadata"]), "rb") as f:
            kw["cadata"] = f.read()
    if t.get("cafile"):
        kw["cafile"] = certs.path(t["cafile"])
    if t.get("capath"):
        kw["capath"] = _capath_dir()
    c = tls.Context(is_client=True, alpn_protocols=["a"], server_name="localhost", **kw)
    c.handshake_extensions = [(tls.ExtensionType.QUIC_TRANSPORT_PARAMETERS, TP_C)]
    s = tls.Context(is_client=False, alpn_protocols=["a"])
    cfg = QuicConfiguration(is_client=False)
    cfg.load_cert_chain(certs.path(SERVERS[sname][0]), certs.path(SERVERS[sname][1]))
    s.certificate, s.certificate_chain, s.certificate_private_key = cfg.certificate, cfg.certificate_chain, cfg.private_key
    s.handshake_extensions = [(tls.ExtensionType.QUIC_TRANSPORT_PARAMETERS, TP_S)]
    dead = _relay(c, s)
    return c.state == tls.State.CLIENT_POST_HANDSHAKE, dead["c"]


def _isolated(fn, arg):
    """fn(arg) in a forked child (module-level state of this process is not touched)."""
    import pickle

    r, w = os.pipe()
    pid = os.fork()
    if pid == 0:
        try:
            os.close(r)
            try:
                out = ("ok", fn(arg))
            except BaseException as e:  # noqa
                out = ("exc", "%s: %s" % (type(e).__name__, e))
            with os.fdopen(w, "wb") as f:
                pickle.dump(out, f)
        finally:
            os._exit(0)
    os.close(w)
    with os.fdopen(r, "rb") as f:
        data = f.read()
    os.waitpid(pid, 0)
    if not data:
        raise core.HarnessError("isolated child died on %r" % (arg,))
    kind, val = pickle.loads(data)
    if kind == "exc":
        raise core.HarnessError("isolated child raised %s on %r" % (val, arg))
    return val


def _trust_history(hist):
    return [trust_run(t, sv) for t, sv in hist]


def _trust_chunk(hists):
    """Runs in ONE forked child: the histories of the chunk one after the other (state left behind by an
    earlier history of the chunk is part of what is explored).  -> [(flat position, run, done, exc)] of the
    runs whose verdict differs from the reference, + number of runs."""
    flat, bad = [], []
    for h in hists:
        for r in h:
            done, exc = trust_run(*r)
            flat.append(r)
            if done != trust_expected(*r):
                bad.append((len(flat) - 1, r, done, exc))
    return flat, bad


def trust_job(hists):
    flat, bad = _isolated(_trust_chunk, hists)
    out = []
    seen = set()
    for pos, r, done, exc in bad:
        if (r, done) in seen:
            continue
        seen.add((r, done))
        # shortest history that reproduces it in a fresh process: alone, after one earlier run, full prefix
        cands = [[r]] + [[e, r] for e in dict.fromkeys(flat[:pos])] + [flat[:pos + 1]]
        for c in cands:
            v = _isolated(_trust_history, c)
            if v[-1][0] == done:
                out.append((c, done, v[-1][1]))
                break
        else:
            raise core.HarnessError("trust verdict %r for %r does not reproduce in a fresh process" % (done, r))
    return len(flat), out


def part_trust_history(ctx, workers):
    _capath_dir()
    runs = [(t, sv) for t in TRUST for sv in SERVERS]
    hists = [[r] for r in runs] + [[a, b] for a in runs for b in runs]
    if ctx.tier != "quick":
        # a third connection: (pollute, anything, victim) over the runs whose verdict is a refusal
        refused = [r for r in runs if not trust_expected(*r)]
        hists += [[a, b, v] for a in runs for b in runs for v in refused]
    per = max(1, (len(hists) + 2 * workers - 1) // (2 * workers))
    chunks = [hists[i:i + per] for i in range(0, len(hists), per)]
    res = core.pmap(trust_job, chunks, workers=workers)
    n = 0
    reported = set()
    for nruns, out in res:
        n += nruns
        for hist, done, exc in out:
            t, sv = hist[-1]
            exp = trust_expected(t, sv)
            first = len(hist) == 1
            sig = {"monitor": "trust_not_from_own_configuration" if not first else "trust_configuration_misjudged",
                   "client_trusts": t, "server_chain": sv, "completed": done}
            k = core.stable_hash(sig)
            if k in reported:
                continue
            reported.add(k)
            before = ", ".join("%s/%s" % tuple(x) for x in hist[:-1]) or "nothing"
            ctx.violation(sig, "client configured with %s %s a server whose chain ends in the %s CA (expected: %s)%s"
                          % (t, "completed the handshake with" if done else "refused (%s)" % exc, sv,
                             "complete" if exp else "refuse",
                             "" if first else "; connections made earlier in the same process: " + before),
                          {"part": "trust_history", "history": [list(x) for x in hist]})
    exp_kinds = {trust_expected(*r) for r in runs}
    if len(exp_kinds) < 2:
        raise core.HarnessError("trust histories vacuous")
    ctx.part("trust_history", evaluations=n, transitions=n, histories=len(hists), trust_configurations=len(TRUST),
             server_chains=len(SERVERS), max_history=max(len(h) for h in hists), processes=len(chunks),
             distinct_nontrivial=len(runs))


def _adv_job(job):
    kt, name = job
    return adversary_runs(kt, name)


def part_auth(ctx, workers):
    specs = []
    for kt in KEY_TYPES:
        for name in ("localhost", "127.0.0.1"):
            for entry in MENU + ("valid_own", "with_intermediate"):
                specs.append(mkspec(kt=kt, cert=entry, name=name))
        # valid certificate, but the client asked for another name
        specs.append(mkspec(kt=kt, cert="valid", name="example.com"))
        specs.append(mkspec(kt=kt, cert="valid", name="127.0.0.2"))
    # resumption: accepted, declined (server lost the ticket), with a defective certificate the PSK
    # path must still be tied to the ticket the client offered
    for kt in KEY_TYPES:
        specs.append(mkspec(kt=kt, sess="resumed"))
        specs.append(mkspec(kt=kt, sess="resumed", decline_psk=True))
        specs.append(mkspec(kt=kt, sess="resumed0", decline_psk=True))
    res = core.pmap(_auth_job, specs, workers=workers, chunksize=2)
    outcomes = {}
    completed = 0
    for spec, r in zip(specs, res):
        v = judge(spec, r)
        exp = expectations(spec)
        if v is not None:
            report(ctx, "auth", spec, v)
            continue
        if exp["cert_ok"] and not (r["c_done"] and r["s_done"]):
            ctx.violation({"monitor": "valid_peer_refused", "cert": spec["cert"], "kt": spec["kt"],
                           "name": spec["name"]},
                          "valid certificate %s/%s for %s: handshake did not complete (client %r)"
                          % (spec["kt"], spec["cert"], spec["name"], r["c_term"]),
                          {"part": "auth", "spec": spec})
        completed += bool(r["c_done"])
        o = (spec["cert"], r["c_done"], (r["c_term"] or (None,))[0], (r["c_hc"] or (None, None))[1])
        outcomes[o] = outcomes.get(o, 0) + 1
        if spec["sess"] != "fresh" and r.get("offered_ticket"):
            resumed = r["c_hc"] and r["c_hc"][1]
            if spec["decline_psk"] and resumed:
                ctx.violation({"monitor": "resumed_although_declined"}, "server had no ticket but session resumed",
                              {"part": "auth", "spec": spec})
    adv_jobs = [(kt, name) for kt in KEY_TYPES for name in ("localhost", "127.0.0.1")]
    adv = core.pmap(_adv_job, adv_jobs, workers=workers)
    n_adv = 0
    for (kt, name), rows in zip(adv_jobs, adv):
        for case, done, refused in rows:
            n_adv += 1
            o = ("adv", case, done, tuple(x[1] for x in refused))
            outcomes[o] = outcomes.get(o, 0) + 1
            if case == "valid_control":
                if not done:
                    raise core.HarnessError("reftls server cannot complete a valid handshake (%s, %s): %r"
                                            % (kt, name, refused))
            elif done:
                ctx.violation({"monitor": "client_completed_unauthenticated", "cert": case, "kt": kt,
                               "name_kind": "ip" if name[0].isdigit() else "dns"},
                              "client reached POST_HANDSHAKE against the key-holding adversary in case %s "
                              "(%s leaf, name %s)" % (case, kt, name),
                              {"part": "auth_adversary", "kt": kt, "name": name, "case": case})
    n_rogue = 0
    for case, done, code in quic_rogue_flights():
        n_rogue += 1
        o = ("quic_adv", case.split("/")[0], done, code)
        outcomes[o] = outcomes.get(o, 0) + 1
        if case.startswith("valid_control"):
            if not done:
                raise core.HarnessError("quicadv cannot complete a valid handshake (%s)" % case)
        elif done:
            ctx.violation({"monitor": "client_completed_unauthenticated", "cert": case.split("/")[0], "level": "quic"},
                          "a real client QuicConnection emitted HandshakeCompleted for the rogue server flight %s "
                          "(no verified CertificateVerify, no PSK)" % case,
                          {"part": "auth_quic_rogue", "case": case})
    n_adv += n_rogue
    for case, done, code in quic_cid_authentication():
        n_adv += 1
        role, name, _ = case.split("/")
        o = ("quic_cid_auth", role, name, done, None if code is None else int(code))
        outcomes[o] = outcomes.get(o, 0) + 1
        if name.split("+")[0] == "valid_control":
            if not done:
                raise core.HarnessError("quicadv cannot complete a valid handshake (%s)" % case)
        elif done:
            ctx.violation({"monitor": "completed_despite_connection_id_mismatch", "role": role, "case": name},
                          "a real %s QuicConnection emitted HandshakeCompleted although the peer's transport parameters "
                          "disagree with the connection IDs / Retry actually seen on the wire (%s; RFC 9000 7.3 requires "
                          "a connection error)" % (role, case),
                          {"part": "auth_quic_cid", "case": case})
    if len(outcomes) < 6 and not ctx.violations:
        raise core.HarnessError("auth vacuous: %r" % outcomes)
    ctx.part("auth", evaluations=len(specs) + n_adv, transitions=len(specs) + n_adv,
             quic_runs=len(specs), adversary_runs=n_adv, clients_completed=completed,
             distinct_nontrivial=len(outcomes),
             outcome_histogram={repr(k): v for k, v in sorted(outcomes.items(), key=repr)})


# -------------------------------------------------------------------- agreement
def closure_specs(t):
    """t-wise product closure: for every t-subset of dimensions, the full product of their values with
    all other dimensions at their default."""
    names = list(DIMS)
    seen = {}
    for combo in itertools.combinations(names, t):
        for vals in itertools.product(*[DIMS[n] for n in combo]):
            s = mkspec(**dict(zip(combo, vals)))
            seen.setdefault(spec_key(s), s)
    return list(seen.values())


def negotiation_product(k, n):
    """The k-th of n slices of the full product of the six negotiation dimensions; the remaining
    dimensions (key type, session, retry, client-cert request) rotate through 40 combinations."""
    neg = ["cs_c", "cs_s", "v_c", "v_s", "alpn_c", "alpn_s"]
    rest = [r for r in itertools.product(DIMS["kt"], DIMS["sess"], DIMS["retry"], DIMS["creq"])
            if not (r[1] != "fresh" and r[3])]   # resumed + test-only cert request: covered by the closure
    out = []
    for i, vals in enumerate(itertools.product(*[DIMS[x] for x in neg])):
        if i % n != k:
            continue
        kt, sess, retry, creq = rest[(i // n) % len(rest)]
        out.append(mkspec(kt=kt, sess=sess, retry=retry, creq=creq, **dict(zip(neg, vals))))
    return out


def cross_resumption_specs():
    """Resumption across a configuration change: the ticket is obtained under configuration A and
    redeemed under configuration B, A and B differing in ONE of the six negotiation dimensions (every
    ordered pair of distinct values), the counterpart side offering everything."""
    wide = {"cs_c": [0x1302, 0x1301, 0x1303], "cs_s": [0x1302, 0x1301, 0x1303], "alpn_c": ["a", "b"],
            "alpn_s": ["a", "b"], "v_c": [1, [1, 2]], "v_s": [1, 2]}
    out = {}
    for dim in ("cs_s", "cs_c", "alpn_s", "alpn_c", "v_s", "v_c"):
        for a in DIMS[dim]:
            for b in DIMS[dim]:
                if a == b or a is None or b is None:
                    continue
                for sess in ("resumed", "resumed0"):
                    kw = dict(wide)
                    kw[dim] = b
                    sp = mkspec(sess=sess, first={dim: a}, **kw)
                    out.setdefault(spec_key(sp), sp)
    return list(out.values())


def _agree_job(spec):
    r = run_spec(spec)
    v = judge(spec, r)
    jspec = r.get("judged_spec") or spec
    exp = expectations(jspec)
    common = all(exp[k] is not False for k in ("suites", "versions", "alpn"))
    return {"viol": v, "cls": outcome_class(jspec, r), "both": r["c_done"] and r["s_done"],
            "none": not r["c_done"] and not r["s_done"], "common": common,
            "alpn_unjudged": exp["alpn"] is None, "steps": r["steps"],
            "resumed": bool(r["c_hc"] and r["c_hc"][1]), "early": bool(r["c_hc"] and r["c_hc"][2]),
            "no_resumption": bool(r.get("resumption_not_possible")), "unopened": r["unopened"]}


def part_agreement(ctx, workers, specs, name, time_cap=None, need_none=True):
    import time
    t0 = time.time()
    done = 0
    classes = {}
    counts = {"both": 0, "none": 0, "one_sided": 0, "common_but_incomplete": 0, "resumed": 0, "early": 0,
              "alpn_unjudged_completed": 0, "nocommon": 0}
    chunk = 4000
    for start in range(0, len(specs), chunk):
        if time_cap is not None and time.time() - t0 > time_cap:
            ctx.cap("%s: time cap %ds after %d of %d configurations" % (name, time_cap, done, len(specs)))
            break
        part = specs[start:start + chunk]
        res = core.pmap(_agree_job, part, workers=workers, chunksize=8)
        for spec, r in zip(part, res):
            done += 1
            if r["viol"] is not None:
                report(ctx, name, spec, r["viol"])
                continue
            classes[r["cls"]] = classes.get(r["cls"], 0) + 1
            counts["both"] += r["both"]
            counts["none"] += r["none"]
            counts["one_sided"] += (not r["both"] and not r["none"])
            counts["resumed"] += r["resumed"]
            counts["early"] += r["early"]
            counts["nocommon"] += (not r["common"])
            if r["common"] and not r["both"]:
                counts["common_but_incomplete"] += 1
                if r["none"] and not r["alpn_unjudged"]:
                    diff = sorted(k for k in list(DIMS) + ["first"] if spec[k] != DEFAULT[k])
                    ctx.violation({"monitor": "legal_handshake_failed", "level": "quic", "dims": diff},
                                  "both sides share a version, a cipher suite and an ALPN protocol and the "
                                  "certificate is valid, yet neither completes (liveness guard) [%s]"
                                  % core.jdump({k: spec[k] for k in diff}),
                                  {"part": name, "spec": spec})
            if r["alpn_unjudged"] and r["both"]:
                counts["alpn_unjudged_completed"] += 1
    vac = counts["both"] < 10 or (counts["none"] < 5 if need_none else
                                  (counts["resumed"] < 10 or counts["both"] - counts["resumed"] < 10))
    if vac and not (ctx.violations or ctx.known_hits):
        raise core.HarnessError("%s vacuous: %r" % (name, counts))
    ctx.part(name, evaluations=done, transitions=done, configurations=len(specs),
             distinct_nontrivial=len(classes), **counts)
    ctx.sample({"part": name, "spec": specs[len(specs) // 3]})


# -------------------------------------------------------------------- loss part
LOSS_SPECS = {
    "default": {},
    "v2": {"v_c": [2, [2]], "v_s": [2]},
    "compat_upgrade": {"v_c": [1, [2, 1]], "v_s": [1, 2]},
    "vn_then_v2": {"v_c": [1, [1, 2]], "v_s": [2]},
    "retry": {"retry": True},
    "retry_v2": {"retry": True, "v_c": [2, [2, 1]]},
    "creq": {"creq": True},
    "creq_retry_rsa": {"creq": True, "retry": True, "kt": "rsa2048"},
    "chacha_only": {"cs_c": [0x1303], "cs_s": [0x1301, 0x1303]},
    "aes128_pref": {"cs_c": [0x1301, 0x1302], "cs_s": [0x1302, 0x1301]},
    "alpn_pref": {"alpn_c": ["a", "b"], "alpn_s": ["b", "a"]},
    "alpn_none": {"alpn_c": None, "alpn_s": None},
    "p256": {"kt": "p256"},
    "p384": {"kt": "p384"},
    "ed448": {"kt": "ed448"},
    "rsa": {"kt": "rsa2048"},
    "no_suite": {"cs_c": [0x1301], "cs_s": [0x1303]},
    "no_alpn": {"alpn_c": ["a"], "alpn_s": ["b"]},
    "no_version": {"v_c": [1, [1]], "v_s": [2]},
    "expired": {"cert": "expired"},
    "wrongname": {"cert": "wrongname"},
}


def loss_factory(sc):
    spec = mkspec(**sc["spec"])
    o = spec["v_c"][0]
    cfg = {"retry": bool(spec["retry"]), "version": VER[o],
           "vn": VER[o] not in [VER[v] for v in spec["v_s"]], "idle": 3.0}
    mon = SpecMonitor(spec, judge_at_end=True)
    kw = {"max_steps": 400, "horizon": 30.0, "deviations": ("drop", "dup", "delay")}
    return cfg, {}, [mon], kw, _goal_factory(False)


netcheck.register("c03", loss_factory)


def loss_sig_extra(sig, sid, devs):
    return dict(sig, under="loss/reordering")


# ------------------------------------------------------------------- reporting
def report(ctx, part, spec, viol):
    """Re-run the configuration twice before reporting (nondeterminism => exit 2)."""
    sig, what = viol
    for _ in range(2):
        r = run_spec(spec)
        v = judge(spec, r)
        if v is None or core.stable_hash(v[0]) != core.stable_hash(sig):
            raise core.HarnessError("violation %r for %r did not reproduce: %r" % (sig, spec, v))
    diff = {k: v for k, v in spec.items() if DEFAULT.get(k) != v}
    ctx.violation(sig, what + " [configuration differs from default in %s]" % core.jdump(diff),
                  {"part": part, "spec": spec})


# ------------------------------------------------------------------------ main
def run(ctx):
    w = core.NCPU
    parts = ctx.only_parts or {"integrity_tls", "integrity_quic", "auth", "agreement", "loss"}
    ensure_menu()
    certs.ensure_all()
    quick = ctx.tier == "quick"
    if "integrity_tls" in parts:
        part_integrity_tls(ctx, w, ("ed25519",) if quick else ("ed25519", "rsa2048"))
    if "integrity_quic" in parts:
        part_integrity_quic(ctx, w, 6 if quick else 1, (1,) if quick else (1, 2))
    if "auth" in parts:
        part_auth(ctx, w)
    if "auth" in parts or "trust_history" in parts:
        part_trust_history(ctx, w)
    if "agreement" in parts:
        part_tls_resumption(ctx, w)
        part_agreement(ctx, w, cross_resumption_specs(), "agreement_resumption_across_config_change",
                       need_none=False)
        if quick:
            part_agreement(ctx, w, closure_specs(2), "agreement_pairwise")
        else:
            part_agreement(ctx, w, closure_specs(3), "agreement_3wise")
            nslices = 8
            part_agreement(ctx, w, negotiation_product(ctx.seed % nslices, nslices),
                           "agreement_negotiation_product_slice", time_cap=240)
    if "loss" in parts:
        sc = {k: {"spec": v} for k, v in LOSS_SPECS.items()}
        agg = netcheck.explore_scenarios(ctx, "c03", sc, 1, "loss_d1", sig_extra=loss_sig_extra)
        if len(agg["outcomes"]) < 3:
            raise core.HarnessError("loss part vacuous")
    ctx.cov["rule"] = (
        "fault enumeration: (1) every byte x 3 masks of every handshake message altered in transit between a "
        "real tls.Context pair, CH/SH also inside re-sealed Initial packets between real QuicConnections; "
        "(2) certificate defect menu x 5 key types x DNS/IP name, wrong-key CertificateVerify and unoffered "
        "PSK by a key-holding adversary; (3) t-wise closure of the 10-dimensional configuration product on "
        "real QuicConnection pairs with key-log / wire / reftls third-opinion agreement; (4) 21 configurations "
        "under every single drop/dup/delay")
    ctx.cov["exhaustive"] = not ctx.caps_hit
    ctx.cov["bounds"] = {"masks": list(MASKS), "closure": 2 if quick else 3,
                         "dimension_sizes": {k: len(v) for k, v in DIMS.items()}}
    ctx.assumptions += [
        "verify_mode=CERT_NONE is an explicit opt-out and excluded; pyOpenSSL/service-identity chain and name "
        "validation are trusted (the check only presents certificates whose validity is known by construction)",
        "'no common ALPN' means both sides configured lists without a common element; a side without any "
        "ALPN configuration (None) facing a list is not judged for completion, only for agreement",
        "completion of configurations that do share options is not demanded by the property; as a liveness "
        "guard the check reports `legal_handshake_failed` / `valid_peer_refused` when NEITHER side completes "
        "although everything is shared (silent on the unchanged tree)",
        "CLIENT_EARLY_TRAFFIC_SECRET is not part of the compared key-log set (it exists on one side only when "
        "0-RTT is declined)",
        "the ECDHE private key for the third-opinion derivation is read from the server's tls context after "
        "the run; everything else comes from CRYPTO frames opened by refquic",
    ]


def replay(ctx, obj):
    rp = obj["replay"]
    part = rp.get("part")
    if rp.get("engine") == "netsim":
        v = netcheck.replay("c03", obj)
        if v:
            print("VIOLATION property=C03 replay=(replayed): %s" % v[1])
            return 1
        print("no violation on replay")
        return 0
    ensure_menu()
    if part == "integrity_tls":
        trace = []
        a = rp["alter"]
        r = tls_relay(rp["kt"], rp["creq"], rp["ccert"], tuple(a) if a else None, trace=trace)
        if a:
            print("tls relay, %s, creq=%s: XOR %#04x at byte %d of %s (%s)" % (rp["kt"], rp["creq"], a[3], a[2], a[1], a[0]))
        print("\n".join(trace))
        print("  final: client %s, server %s" % (r["c_state"], r["s_state"]))
        if a:
            bad = r["s_done"] if a[0] == "c2s" else r["c_done"]
        else:
            bad = not (r["c_done"] and r["s_done"])
    elif part == "integrity_quic":
        spec = mkspec(v_c=[rp["version"], [rp["version"]]], v_s=[rp["version"]])
        res, mon = run_quic(spec, alter=rp["alter"], trace=True)
        print("\n".join(res["trace"][-40:]))
        print("  altered %d packets; client done %s, server done %s" % (mon.altered, res["c_done"], res["s_done"]))
        bad = res["s_done"] if rp["alter"]["msg"] == "CH" else res["c_done"]
    elif part == "tls_resumption":
        r = tls_resumption_pair((rp["first"], rp["second"], rp["client"]))
        print("  first server suites %r, second %r -> %r" % (rp["first"], rp["second"], r))
        bad = not (r["c_done"] and r["s_done"]) or r["c_suite"] != r["s_suite"] or not r["keys_equal"] \
            or r["c_resumed"] != r["s_resumed"]
    elif part == "auth_quic_rogue":
        bad = False
        for case, done, code in quic_rogue_flights():
            print("  %-44s HandshakeCompleted=%s close code=%r" % (case, done, code))
            if case == rp["case"] and done:
                bad = True
    elif part == "auth_quic_cid":
        bad = False
        for case, done, code in quic_cid_authentication():
            print("  %-52s HandshakeCompleted=%s close code=%r" % (case, done, code))
            if case == rp["case"] and done:
                bad = True
    elif part == "trust_history":
        hist = [tuple(x) for x in rp["history"]]
        verdicts = _isolated(_trust_history, hist)
        bad = False
        for (t, sv), (done, exc) in zip(hist, verdicts):
            exp = trust_expected(t, sv)
            print("  client trusts %-28s server chain %-6s -> completed=%s (%s), reference says %s%s"
                  % (t, sv, done, exc, exp, "" if done == exp else "   <-- DIFFERS"))
        bad = verdicts[-1][0] != trust_expected(*hist[-1])
    elif part == "auth_adversary":
        rows = adversary_runs(rp["kt"], rp["name"])
        bad = False
        for case, done, refused in rows:
            print("  %-28s completed=%s refused=%r" % (case, done, refused))
            if case == rp["case"] and done:
                bad = True
    else:
        spec = rp["spec"]
        r = run_spec(spec, trace=True)
        for line in r.get("trace", [])[-60:]:
            print("  ", line)
        print("  client: done=%s %r term=%r version=%r suite=%r" % (r["c_done"], r["c_hc"], r["c_term"], r["c_version"], r["c_suite"]))
        print("  server: done=%s %r term=%r version=%r suite=%r" % (r["s_done"], r["s_hc"], r["s_term"], r["s_version"], r["s_suite"]))
        v = judge(spec, r)
        exp = expectations(spec)
        bad = v is not None or (obj["signature"].get("monitor") in ("valid_peer_refused", "legal_handshake_failed")
                                and exp["cert_ok"] and not (r["c_done"] and r["s_done"]))
        if v:
            print("  what: %s" % v[1])
    if bad:
        print("VIOLATION property=C03 replay=(replayed)")
        return 1
    print("no violation on replay")
    return 0
